"""Equivalence check for refactoring 4 (ceos_alos2/sar_image/cli.py).

Run as

    cd /tmp/wt4/e23 && PYTHONPATH=/tmp/wt4/e23 /venv/bin/python _eq/4/equiv.py

(or through pytest). The values in ``EXPECTED`` were recorded from the UNCHANGED
code with ``python _eq/4/equiv.py --record``; the script has to pass both with and
without ``patch.diff`` applied.

The script synthesises a small level 1.5 image file (file descriptor + processed
data records), then runs ``cli.create_cache`` and ``cli.main`` (with a patched
``sys.argv``) for a number of scenarios. For each scenario it records the result /
exception, exit code, stdout, stderr, the files in the data and cache directories
and the order of the requests (``Path.is_file`` / ``is_dir`` / ``write_text``,
``fsspec.get_mapper``, ``open_image``, ``caching.encode``).
"""

import contextlib
import hashlib
import io
import json
import os
import pathlib
import struct
import sys
import tempfile

import fsspec
import numpy as np

from ceos_alos2.sar_image import caching, cli
from ceos_alos2.sar_image.file_descriptor import file_descriptor_record
from ceos_alos2.sar_image.processed_data import processed_data_record

# --------------------------------------------------------------------------------------
# synthetic image files
# --------------------------------------------------------------------------------------
PROCESSED_HEADER_SIZE = sum(sc.sizeof() for sc in processed_data_record.subcons if sc.name != "data")


def preamble(number, record_type, length):
    return struct.pack(">IBBBBI", number, 50, record_type, 18, 20, length)


def build_file_descriptor(values):
    """values: flat mapping of field name -> int / str; anything else is blank"""

    def build(struct_, first=False):
        parts = []
        for sc in struct_.subcons:
            size = sc.sizeof()
            if sc.name == "preamble":
                parts.append(preamble(1, 192, 720))
            elif hasattr(sc.subcon, "subcons"):
                parts.append(build(sc.subcon))
            else:
                value = values.get(sc.name, "")
                text = str(value).rjust(size) if isinstance(value, int) else str(value).ljust(size)
                assert len(text) == size, (sc.name, text)
                parts.append(text.encode("ascii"))
        return b"".join(parts)

    content = build(file_descriptor_record)
    assert len(content) == 720
    return content


def build_processed_record(number, line, pixels, year=2018, day=207, ms=1000):
    data = np.asarray(pixels, dtype=">u2").tobytes()
    length = PROCESSED_HEADER_SIZE + len(data)
    fields = [
        preamble(number, 11, length),
        struct.pack(">6I", line, 1, 0, len(pixels), 0, 1),
        struct.pack(">3I", year, day, ms + line),
        struct.pack(">4H", 1, 0, 0, 0),
        struct.pack(">2I", 2000000, 0),  # prf, scan_id
        struct.pack(">3I", 700000, 750000, 800000),
        struct.pack(">3I", 1000, 2000, 3000),
        struct.pack(">3I", 5, 6, 7),
        struct.pack(">2I", 30000000, 1000000),
        b"\x00" * 20,
        struct.pack(">I", 1),
        struct.pack(">6I", 10000000, 10500000, 11000000, 20000000, 20500000, 21000000),
        struct.pack(">I", 100) + b"\x00" * 4 + struct.pack(">I", 200),
        struct.pack(">I", 300) + b"\x00" * 4 + struct.pack(">I", 400),
        struct.pack(">I", 90000000),
        b"\x00" * 8,
    ]
    header = b"".join(fields)
    assert len(header) == PROCESSED_HEADER_SIZE, (len(header), PROCESSED_HEADER_SIZE)
    return header + data


def build_image(n_lines=5, n_pixels=3, type_code="IU2"):
    rows = [[line * 10 + col for col in range(n_pixels)] for line in range(n_lines)]
    records = [build_processed_record(index + 2, index + 1, row) for index, row in enumerate(rows)]
    record_length = len(records[0])
    descriptor = build_file_descriptor(
        {
            "ascii_ebcdic_flag": "A",
            "format_control_document_id": "CEOS-SAR",
            "file_number": 2,
            "file_id": "IMOP",
            "number_of_sar_data_records": n_lines,
            "sar_data_record_length": record_length,
            "bit_length_per_sample": 16,
            "number_of_samples_per_data_group": 1,
            "number_of_bytes_per_data_group": 2,
            "number_of_sar_channels": 1,
            "number_of_lines_per_dataset": n_lines,
            "number_of_left_border_pixels_per_line": 0,
            "number_of_data_groups_per_line": n_pixels,
            "number_of_right_border_pixels_per_line": 0,
            "interleaving_id": "BSQ",
            "number_of_physical_records_per_line": 1,
            "number_of_bytes_of_prefix_data_per_record": PROCESSED_HEADER_SIZE - 12,
            "number_of_bytes_of_sar_data_per_record": 2 * n_pixels,
            "sar_data_format_type_indicator": "UNSIGNED INTEGER*2",
            "sar_data_format_type_code": type_code,
            "maximum_data_range_of_pixel": 65535,
        }
    )
    return descriptor + b"".join(records), rows


# --------------------------------------------------------------------------------------
# helpers
# --------------------------------------------------------------------------------------
IMAGE_NAME = "IMG-HH-ALOS2225333200-180726-WWDR1.5RUA"
SCANSAR_NAME = "IMG-HV-ALOS2225333100-180726-WWDR1.1__D-B3"


def describe(e):
    context = type(e.__context__).__name__ if e.__context__ is not None else None
    code = e.code if isinstance(e, SystemExit) else None
    return ("raise", type(e).__name__, str(e), repr(e.args), context, code)


def outcome(func, *args, **kwargs):
    try:
        result = func(*args, **kwargs)
    except BaseException as e:  # noqa: BLE001
        return describe(e)
    return ("ok", repr(result))


@contextlib.contextmanager
def patched(obj, name, value):
    original = getattr(obj, name)
    setattr(obj, name, value)
    try:
        yield
    finally:
        setattr(obj, name, original)


@contextlib.contextmanager
def recorded(events):
    """record the order of the requests made by the cli module"""
    Path = pathlib.Path
    with contextlib.ExitStack() as stack:
        for name in ["is_file", "is_dir", "write_text"]:
            original = getattr(Path, name)

            def wrapper(self, *args, _name=name, _original=original, **kwargs):
                shown_args = [f"<{len(arg)} characters>" for arg in args]
                events.append([f"path.{_name}", str(self), shown_args, sorted(kwargs)])
                return _original(self, *args, **kwargs)

            stack.enter_context(patched(Path, name, wrapper))

        original_get_mapper = fsspec.get_mapper

        def get_mapper(*args, **kwargs):
            events.append(["fsspec.get_mapper", repr(args), repr(kwargs)])
            return original_get_mapper(*args, **kwargs)

        stack.enter_context(patched(fsspec, "get_mapper", get_mapper))

        original_open_image = cli.open_image

        def open_image(mapper, *args, **kwargs):
            events.append(["open_image", type(mapper).__name__, mapper.root, repr(args), repr(kwargs)])
            return original_open_image(mapper, *args, **kwargs)

        stack.enter_context(patched(cli, "open_image", open_image))

        original_encode = caching.encode

        def encode(obj):
            events.append(["caching.encode", type(obj).__name__, obj.path])
            return original_encode(obj)

        stack.enter_context(patched(caching, "encode", encode))

        yield


def listing(root):
    entries = {}
    for path in sorted(root.rglob("*")):
        key = path.relative_to(root).as_posix()
        if path.is_dir():
            entries[key] = "<dir>"
        elif path.suffix == ".index":
            text = path.read_text().replace(str(root), "<TMP>")
            digest = hashlib.sha256(text.encode()).hexdigest()
            entries[key] = {"length": len(text), "sha256": digest, "head": text[:150]}
        else:
            entries[key] = f"<{path.stat().st_size} bytes>"
    return entries


class Scenario:
    """layout: <tmp>/data/<image>, <tmp>/cache (optional), cwd is <tmp>"""

    def __init__(self, *, image="valid", name=IMAGE_NAME, cache="none", preexisting=None):
        self.image = image
        self.name = name
        self.cache = cache
        self.preexisting = preexisting

    def prepare(self, tmp):
        data = tmp / "data"
        data.mkdir()
        path = data / self.name
        if self.image == "valid":
            path.write_bytes(build_image()[0])
        elif self.image == "single-line":
            path.write_bytes(build_image(n_lines=1, n_pixels=4)[0])
        elif self.image == "unknown-type-code":
            path.write_bytes(build_image(type_code="F*4")[0])
        elif self.image == "truncated":
            path.write_bytes(build_image()[0][:1000])
        elif self.image == "garbage":
            path.write_bytes(b"garbage " * 200)
        elif self.image == "empty":
            path.write_bytes(b"")
        elif self.image == "dir":
            path.mkdir()
        elif self.image != "missing":
            raise ValueError(self.image)

        cache = tmp / "cache"
        if self.cache == "dir":
            cache.mkdir()
        elif self.cache == "nested":
            (cache / "a" / "b").mkdir(parents=True)
        elif self.cache == "file":
            cache.write_text("not a directory")

        if self.preexisting == "file":
            (data / f"{self.name}.index").write_text("old")
            if cache.is_dir():
                (cache / f"{self.name}.index").write_text("old")
        elif self.preexisting == "dir":
            (data / f"{self.name}.index").mkdir()
            if cache.is_dir():
                (cache / f"{self.name}.index").mkdir()


def run(scenario, call):
    """call: function (tmp) -> outcome, run with cwd=<tmp>"""
    with tempfile.TemporaryDirectory() as tmpdir:
        tmp = pathlib.Path(tmpdir).resolve()
        scenario.prepare(tmp)

        events = []
        stdout, stderr = io.StringIO(), io.StringIO()
        cwd = os.getcwd()
        os.chdir(tmp)
        try:
            with recorded(events), contextlib.redirect_stdout(stdout):
                with contextlib.redirect_stderr(stderr):
                    result = call(tmp)
        finally:
            os.chdir(cwd)

        record = {
            "result": result,
            "events": events,
            "stdout": stdout.getvalue(),
            "stderr": stderr.getvalue(),
            "files": listing(tmp),
        }
        return json.loads(json.dumps(record).replace(str(tmp), "<TMP>"))


def call_create_cache(image, cache_root, rpc, *, relative=False, keywords=False):
    def call(tmp):
        base = pathlib.Path() if relative else tmp
        image_path = base / "data" / image
        if cache_root is None:
            root = None
        else:
            root = base / cache_root
        if keywords:
            return outcome(
                cli.create_cache, image_path=image_path, cache_root=root, records_per_chunk=rpc
            )
        return outcome(cli.create_cache, image_path, root, rpc)

    return call


def call_main(argv, *, absolute=True):
    def call(tmp):
        prefix = f"{tmp}/" if absolute else ""
        args = [arg.replace("@/", prefix) for arg in argv]
        with patched(sys, "argv", ["ceos-alos2-create-cache", *args]):
            return outcome(cli.main)

    return call


# --------------------------------------------------------------------------------------
# collecting the results
# --------------------------------------------------------------------------------------
def collect():
    os.environ["COLUMNS"] = "80"
    os.environ.pop("LINES", None)

    results = {}
    image = IMAGE_NAME

    # create_cache, called directly
    direct = {
        "default-root": (Scenario(), call_create_cache(image, None, 2)),
        "default-root-keywords": (Scenario(), call_create_cache(image, None, 2, keywords=True)),
        "cache-root": (Scenario(cache="dir"), call_create_cache(image, "cache", 2)),
        "nested-cache-root": (Scenario(cache="nested"), call_create_cache(image, "cache/a/b", 3)),
        "cache-root-is-data-dir": (Scenario(), call_create_cache(image, "data", 2)),
        "scansar-name": (
            Scenario(name=SCANSAR_NAME, cache="dir"),
            call_create_cache(SCANSAR_NAME, "cache", 2),
        ),
        "single-line": (Scenario(image="single-line"), call_create_cache(image, None, 1)),
        "rpc-1": (Scenario(), call_create_cache(image, None, 1)),
        "rpc-5": (Scenario(), call_create_cache(image, None, 5)),
        "rpc-4096": (Scenario(), call_create_cache(image, None, 4096)),
        "rpc-none": (Scenario(), call_create_cache(image, None, None)),
        "rpc-0": (Scenario(), call_create_cache(image, None, 0)),
        "rpc-negative": (Scenario(), call_create_cache(image, None, -1)),
        "rpc-str": (Scenario(), call_create_cache(image, None, "auto")),
        "overwrite": (Scenario(preexisting="file"), call_create_cache(image, None, 2)),
        "overwrite-cache-root": (
            Scenario(cache="dir", preexisting="file"),
            call_create_cache(image, "cache", 2),
        ),
        "target-is-dir": (Scenario(preexisting="dir"), call_create_cache(image, None, 2)),
        "target-is-dir-cache-root": (
            Scenario(cache="dir", preexisting="dir"),
            call_create_cache(image, "cache", 2),
        ),
        "missing-image": (Scenario(image="missing"), call_create_cache(image, None, 2)),
        "image-is-dir": (Scenario(image="dir"), call_create_cache(image, None, 2)),
        "missing-cache-root": (Scenario(), call_create_cache(image, "cache", 2)),
        "cache-root-is-file": (Scenario(cache="file"), call_create_cache(image, "cache", 2)),
        "missing-image-missing-cache-root": (
            Scenario(image="missing"),
            call_create_cache(image, "cache", 2),
        ),
        "missing-image-valid-cache-root": (
            Scenario(image="missing", cache="dir"),
            call_create_cache(image, "cache", 2),
        ),
        "relative": (Scenario(), call_create_cache(image, None, 2, relative=True)),
        "relative-cache-root": (
            Scenario(cache="dir"),
            call_create_cache(image, "cache", 2, relative=True),
        ),
        "relative-missing-cache-root": (
            Scenario(),
            call_create_cache(image, "cache", 2, relative=True),
        ),
        "relative-missing-image": (
            Scenario(image="missing"),
            call_create_cache(image, None, 2, relative=True),
        ),
        "bad-name": (Scenario(name="image.bin"), call_create_cache("image.bin", None, 2)),
        "bad-name-missing-cache-root": (
            Scenario(name="image.bin"),
            call_create_cache("image.bin", "cache", 2),
        ),
        "unknown-type-code": (Scenario(image="unknown-type-code"), call_create_cache(image, None, 2)),
        "truncated": (Scenario(image="truncated"), call_create_cache(image, None, 2)),
        "garbage": (Scenario(image="garbage", cache="dir"), call_create_cache(image, "cache", 2)),
        "empty": (Scenario(image="empty"), call_create_cache(image, None, 2)),
    }
    for name, (scenario, call) in direct.items():
        results[f"create_cache/{name}"] = run(scenario, call)

    # arguments of the wrong type
    results["create_cache/str-paths"] = run(
        Scenario(), lambda tmp: outcome(cli.create_cache, str(tmp / "data" / image), None, 2)
    )
    results["create_cache/str-cache-root"] = run(
        Scenario(cache="dir"),
        lambda tmp: outcome(cli.create_cache, tmp / "data" / image, str(tmp / "cache"), 2),
    )
    results["create_cache/missing-arguments"] = run(
        Scenario(), lambda tmp: outcome(cli.create_cache, tmp / "data" / image)
    )

    # main
    mains = {
        "default": (Scenario(), call_main([f"@/data/{image}"])),
        "cache-root": (Scenario(cache="dir"), call_main([f"@/data/{image}", "@/cache"])),
        "rpc-2": (Scenario(), call_main(["--rpc", "2", f"@/data/{image}"])),
        "rpc-equals": (Scenario(cache="dir"), call_main(["--rpc=3", f"@/data/{image}", "@/cache"])),
        "rpc-last": (Scenario(cache="dir"), call_main([f"@/data/{image}", "@/cache", "--rpc", "1"])),
        "rpc-between": (Scenario(cache="dir"), call_main([f"@/data/{image}", "--rpc", "1", "@/cache"])),
        "rpc-without-value": (Scenario(), call_main([f"@/data/{image}", "--rpc"])),
        "rpc-negative": (Scenario(), call_main(["--rpc=-1", f"@/data/{image}"])),
        "rpc-zero": (Scenario(), call_main(["--rpc", "0", f"@/data/{image}"])),
        "rpc-invalid": (Scenario(), call_main(["--rpc", "abc", f"@/data/{image}"])),
        "rpc-abbreviated": (Scenario(), call_main(["--rp", "2", f"@/data/{image}"])),
        "scansar-name": (
            Scenario(name=SCANSAR_NAME, cache="dir"),
            call_main([f"@/data/{SCANSAR_NAME}", "@/cache"]),
        ),
        "overwrite": (Scenario(preexisting="file"), call_main([f"@/data/{image}"])),
        "target-is-dir": (Scenario(preexisting="dir"), call_main([f"@/data/{image}"])),
        "missing-image": (Scenario(image="missing"), call_main([f"@/data/{image}"])),
        "image-is-dir": (Scenario(image="dir"), call_main([f"@/data/{image}"])),
        "missing-cache-root": (Scenario(), call_main([f"@/data/{image}", "@/cache"])),
        "cache-root-is-file": (Scenario(cache="file"), call_main([f"@/data/{image}", "@/cache"])),
        "missing-both": (Scenario(image="missing"), call_main([f"@/data/{image}", "@/cache"])),
        "relative": (Scenario(), call_main([f"@/data/{image}"], absolute=False)),
        "relative-missing-image": (
            Scenario(image="missing"),
            call_main([f"@/data/{image}"], absolute=False),
        ),
        "relative-missing-cache-root": (
            Scenario(),
            call_main([f"@/data/{image}", "@/cache"], absolute=False),
        ),
        "relative-cache-root-only": (
            Scenario(cache="dir"),
            call_main([f"@/data/{image}", "cache"]),
        ),
        "bad-name": (Scenario(name="image.bin"), call_main(["@/data/image.bin"])),
        "garbage": (Scenario(image="garbage"), call_main([f"@/data/{image}"])),
        "empty": (Scenario(image="empty"), call_main([f"@/data/{image}"])),
        "no-arguments": (Scenario(), call_main([])),
        "too-many-arguments": (Scenario(cache="dir"), call_main([f"@/data/{image}", "@/cache", "x"])),
        "unknown-option": (Scenario(), call_main(["--unknown", f"@/data/{image}"])),
        "help": (Scenario(), call_main(["--help"])),
        "short-help": (Scenario(), call_main(["-h", f"@/data/{image}"])),
        "empty-image-path": (Scenario(), call_main([""])),
    }
    for name, (scenario, call) in mains.items():
        results[f"main/{name}"] = run(scenario, call)

    # main without positional arguments passed to it
    results["main/signature"] = outcome(cli.main, ["--help"])

    return results


EXPECTED = {'create_cache/default-root': {'result': ['ok', 'None'],
                               'events': [['path.is_file',
                                           '<TMP>/data/IMG-HH-ALOS2225333200-180726-WWDR1.5RUA',
                                           [],
                                           []],
                                          ['fsspec.get_mapper', "('file://<TMP>/data',)", '{}'],
                                          ['open_image',
                                           'FSMap',
                                           '<TMP>/data',
                                           "('IMG-HH-ALOS2225333200-180726-WWDR1.5RUA',)",
                                           "{'use_cache': False, 'create_cache': False, "
                                           "'records_per_chunk': 2}"],
                                          ['caching.encode', 'Group', 'HH'],
                                          ['path.write_text',
                                           '<TMP>/data/IMG-HH-ALOS2225333200-180726-WWDR1.5RUA.index',
                                           ['<6723 characters>'],
                                           []]],
                               'stdout': '',
                               'stderr': '',
                               'files': {'data': '<dir>',
                                         'data/IMG-HH-ALOS2225333200-180726-WWDR1.5RUA': '<1710 '
                                                                                         'bytes>',
                                         'data/IMG-HH-ALOS2225333200-180726-WWDR1.5RUA.index': {'length': 6712,
                                                                                                'sha256': 'c0b1baaee7b6a9e6707639a7bc13fed59dc63bf9ef8080990404b2b0b8fe1cd5',
                                                                                                'head': '{"__type__": '
                                                                                                        '"group", '
                                                                                                        '"url": '
                                                                                                        'null, '
                                                                                                        '"data": '
                                                                                                        '{"rows": '
                                                                                                        '{"__type__": '
                                                                                                        '"variable", '
                                                                                                        '"dims": '
                                                                                                        '["rows"], '
                                                                                                        '"data": '
                                                                                                        '{"__type__": '
                                                                                                        '"array", '
                                                                                                        '"dtype": '
                                                                                                        '"int64", '
                                                                                                        '"data":'}}},
 'create_cache/default-root-keywords': {'result': ['ok', 'None'],
                                        'events': [['path.is_file',
                                                    '<TMP>/data/IMG-HH-ALOS2225333200-180726-WWDR1.5RUA',
                                                    [],
                                                    []],
                                                   ['fsspec.get_mapper',
                                                    "('file://<TMP>/data',)",
                                                    '{}'],
                                                   ['open_image',
                                                    'FSMap',
                                                    '<TMP>/data',
                                                    "('IMG-HH-ALOS2225333200-180726-WWDR1.5RUA',)",
                                                    "{'use_cache': False, 'create_cache': False, "
                                                    "'records_per_chunk': 2}"],
                                                   ['caching.encode', 'Group', 'HH'],
                                                   ['path.write_text',
                                                    '<TMP>/data/IMG-HH-ALOS2225333200-180726-WWDR1.5RUA.index',
                                                    ['<6723 characters>'],
                                                    []]],
                                        'stdout': '',
                                        'stderr': '',
                                        'files': {'data': '<dir>',
                                                  'data/IMG-HH-ALOS2225333200-180726-WWDR1.5RUA': '<1710 '
                                                                                                  'bytes>',
                                                  'data/IMG-HH-ALOS2225333200-180726-WWDR1.5RUA.index': {'length': 6712,
                                                                                                         'sha256': 'c0b1baaee7b6a9e6707639a7bc13fed59dc63bf9ef8080990404b2b0b8fe1cd5',
                                                                                                         'head': '{"__type__": '
                                                                                                                 '"group", '
                                                                                                                 '"url": '
                                                                                                                 'null, '
                                                                                                                 '"data": '
                                                                                                                 '{"rows": '
                                                                                                                 '{"__type__": '
                                                                                                                 '"variable", '
                                                                                                                 '"dims": '
                                                                                                                 '["rows"], '
                                                                                                                 '"data": '
                                                                                                                 '{"__type__": '
                                                                                                                 '"array", '
                                                                                                                 '"dtype": '
                                                                                                                 '"int64", '
                                                                                                                 '"data":'}}},
 'create_cache/cache-root': {'result': ['ok', 'None'],
                             'events': [['path.is_file',
                                         '<TMP>/data/IMG-HH-ALOS2225333200-180726-WWDR1.5RUA',
                                         [],
                                         []],
                                        ['path.is_dir', '<TMP>/cache', [], []],
                                        ['fsspec.get_mapper', "('file://<TMP>/data',)", '{}'],
                                        ['open_image',
                                         'FSMap',
                                         '<TMP>/data',
                                         "('IMG-HH-ALOS2225333200-180726-WWDR1.5RUA',)",
                                         "{'use_cache': False, 'create_cache': False, "
                                         "'records_per_chunk': 2}"],
                                        ['caching.encode', 'Group', 'HH'],
                                        ['path.write_text',
                                         '<TMP>/cache/IMG-HH-ALOS2225333200-180726-WWDR1.5RUA.index',
                                         ['<6723 characters>'],
                                         []]],
                             'stdout': '',
                             'stderr': '',
                             'files': {'cache': '<dir>',
                                       'cache/IMG-HH-ALOS2225333200-180726-WWDR1.5RUA.index': {'length': 6712,
                                                                                               'sha256': 'c0b1baaee7b6a9e6707639a7bc13fed59dc63bf9ef8080990404b2b0b8fe1cd5',
                                                                                               'head': '{"__type__": '
                                                                                                       '"group", '
                                                                                                       '"url": '
                                                                                                       'null, '
                                                                                                       '"data": '
                                                                                                       '{"rows": '
                                                                                                       '{"__type__": '
                                                                                                       '"variable", '
                                                                                                       '"dims": '
                                                                                                       '["rows"], '
                                                                                                       '"data": '
                                                                                                       '{"__type__": '
                                                                                                       '"array", '
                                                                                                       '"dtype": '
                                                                                                       '"int64", '
                                                                                                       '"data":'},
                                       'data': '<dir>',
                                       'data/IMG-HH-ALOS2225333200-180726-WWDR1.5RUA': '<1710 '
                                                                                       'bytes>'}},
 'create_cache/nested-cache-root': {'result': ['ok', 'None'],
                                    'events': [['path.is_file',
                                                '<TMP>/data/IMG-HH-ALOS2225333200-180726-WWDR1.5RUA',
                                                [],
                                                []],
                                               ['path.is_dir', '<TMP>/cache/a/b', [], []],
                                               ['fsspec.get_mapper',
                                                "('file://<TMP>/data',)",
                                                '{}'],
                                               ['open_image',
                                                'FSMap',
                                                '<TMP>/data',
                                                "('IMG-HH-ALOS2225333200-180726-WWDR1.5RUA',)",
                                                "{'use_cache': False, 'create_cache': False, "
                                                "'records_per_chunk': 3}"],
                                               ['caching.encode', 'Group', 'HH'],
                                               ['path.write_text',
                                                '<TMP>/cache/a/b/IMG-HH-ALOS2225333200-180726-WWDR1.5RUA.index',
                                                ['<6723 characters>'],
                                                []]],
                                    'stdout': '',
                                    'stderr': '',
                                    'files': {'cache': '<dir>',
                                              'cache/a': '<dir>',
                                              'cache/a/b': '<dir>',
                                              'cache/a/b/IMG-HH-ALOS2225333200-180726-WWDR1.5RUA.index': {'length': 6712,
                                                                                                          'sha256': 'c0b1baaee7b6a9e6707639a7bc13fed59dc63bf9ef8080990404b2b0b8fe1cd5',
                                                                                                          'head': '{"__type__": '
                                                                                                                  '"group", '
                                                                                                                  '"url": '
                                                                                                                  'null, '
                                                                                                                  '"data": '
                                                                                                                  '{"rows": '
                                                                                                                  '{"__type__": '
                                                                                                                  '"variable", '
                                                                                                                  '"dims": '
                                                                                                                  '["rows"], '
                                                                                                                  '"data": '
                                                                                                                  '{"__type__": '
                                                                                                                  '"array", '
                                                                                                                  '"dtype": '
                                                                                                                  '"int64", '
                                                                                                                  '"data":'},
                                              'data': '<dir>',
                                              'data/IMG-HH-ALOS2225333200-180726-WWDR1.5RUA': '<1710 '
                                                                                              'bytes>'}},
 'create_cache/cache-root-is-data-dir': {'result': ['ok', 'None'],
                                         'events': [['path.is_file',
                                                     '<TMP>/data/IMG-HH-ALOS2225333200-180726-WWDR1.5RUA',
                                                     [],
                                                     []],
                                                    ['path.is_dir', '<TMP>/data', [], []],
                                                    ['fsspec.get_mapper',
                                                     "('file://<TMP>/data',)",
                                                     '{}'],
                                                    ['open_image',
                                                     'FSMap',
                                                     '<TMP>/data',
                                                     "('IMG-HH-ALOS2225333200-180726-WWDR1.5RUA',)",
                                                     "{'use_cache': False, 'create_cache': False, "
                                                     "'records_per_chunk': 2}"],
                                                    ['caching.encode', 'Group', 'HH'],
                                                    ['path.write_text',
                                                     '<TMP>/data/IMG-HH-ALOS2225333200-180726-WWDR1.5RUA.index',
                                                     ['<6723 characters>'],
                                                     []]],
                                         'stdout': '',
                                         'stderr': '',
                                         'files': {'data': '<dir>',
                                                   'data/IMG-HH-ALOS2225333200-180726-WWDR1.5RUA': '<1710 '
                                                                                                   'bytes>',
                                                   'data/IMG-HH-ALOS2225333200-180726-WWDR1.5RUA.index': {'length': 6712,
                                                                                                          'sha256': 'c0b1baaee7b6a9e6707639a7bc13fed59dc63bf9ef8080990404b2b0b8fe1cd5',
                                                                                                          'head': '{"__type__": '
                                                                                                                  '"group", '
                                                                                                                  '"url": '
                                                                                                                  'null, '
                                                                                                                  '"data": '
                                                                                                                  '{"rows": '
                                                                                                                  '{"__type__": '
                                                                                                                  '"variable", '
                                                                                                                  '"dims": '
                                                                                                                  '["rows"], '
                                                                                                                  '"data": '
                                                                                                                  '{"__type__": '
                                                                                                                  '"array", '
                                                                                                                  '"dtype": '
                                                                                                                  '"int64", '
                                                                                                                  '"data":'}}},
 'create_cache/scansar-name': {'result': ['ok', 'None'],
                               'events': [['path.is_file',
                                           '<TMP>/data/IMG-HV-ALOS2225333100-180726-WWDR1.1__D-B3',
                                           [],
                                           []],
                                          ['path.is_dir', '<TMP>/cache', [], []],
                                          ['fsspec.get_mapper', "('file://<TMP>/data',)", '{}'],
                                          ['open_image',
                                           'FSMap',
                                           '<TMP>/data',
                                           "('IMG-HV-ALOS2225333100-180726-WWDR1.1__D-B3',)",
                                           "{'use_cache': False, 'create_cache': False, "
                                           "'records_per_chunk': 2}"],
                                          ['caching.encode', 'Group', 'HV_scan3'],
                                          ['path.write_text',
                                           '<TMP>/cache/IMG-HV-ALOS2225333100-180726-WWDR1.1__D-B3.index',
                                           ['<6732 characters>'],
                                           []]],
                               'stdout': '',
                               'stderr': '',
                               'files': {'cache': '<dir>',
                                         'cache/IMG-HV-ALOS2225333100-180726-WWDR1.1__D-B3.index': {'length': 6721,
                                                                                                    'sha256': '883715b357ac04c8c9b82b936b49ff81356ddf3f258ca0d8ec0cbfb6a32b2413',
                                                                                                    'head': '{"__type__": '
                                                                                                            '"group", '
                                                                                                            '"url": '
                                                                                                            'null, '
                                                                                                            '"data": '
                                                                                                            '{"rows": '
                                                                                                            '{"__type__": '
                                                                                                            '"variable", '
                                                                                                            '"dims": '
                                                                                                            '["rows"], '
                                                                                                            '"data": '
                                                                                                            '{"__type__": '
                                                                                                            '"array", '
                                                                                                            '"dtype": '
                                                                                                            '"int64", '
                                                                                                            '"data":'},
                                         'data': '<dir>',
                                         'data/IMG-HV-ALOS2225333100-180726-WWDR1.1__D-B3': '<1710 '
                                                                                            'bytes>'}},
 'create_cache/single-line': {'result': ['ok', 'None'],
                              'events': [['path.is_file',
                                          '<TMP>/data/IMG-HH-ALOS2225333200-180726-WWDR1.5RUA',
                                          [],
                                          []],
                                         ['fsspec.get_mapper', "('file://<TMP>/data',)", '{}'],
                                         ['open_image',
                                          'FSMap',
                                          '<TMP>/data',
                                          "('IMG-HH-ALOS2225333200-180726-WWDR1.5RUA',)",
                                          "{'use_cache': False, 'create_cache': False, "
                                          "'records_per_chunk': 1}"],
                                         ['caching.encode', 'Group', 'HH'],
                                         ['path.write_text',
                                          '<TMP>/data/IMG-HH-ALOS2225333200-180726-WWDR1.5RUA.index',
                                          ['<5975 characters>'],
                                          []]],
                              'stdout': '',
                              'stderr': '',
                              'files': {'data': '<dir>',
                                        'data/IMG-HH-ALOS2225333200-180726-WWDR1.5RUA': '<920 '
                                                                                        'bytes>',
                                        'data/IMG-HH-ALOS2225333200-180726-WWDR1.5RUA.index': {'length': 5964,
                                                                                               'sha256': '925471bd50a0511ff11c1dce1fa0ec19bed126023b6cc75fef9a1fa9493a55a5',
                                                                                               'head': '{"__type__": '
                                                                                                       '"group", '
                                                                                                       '"url": '
                                                                                                       'null, '
                                                                                                       '"data": '
                                                                                                       '{"rows": '
                                                                                                       '{"__type__": '
                                                                                                       '"variable", '
                                                                                                       '"dims": '
                                                                                                       '["rows"], '
                                                                                                       '"data": '
                                                                                                       '{"__type__": '
                                                                                                       '"array", '
                                                                                                       '"dtype": '
                                                                                                       '"int64", '
                                                                                                       '"data":'}}},
 'create_cache/rpc-1': {'result': ['ok', 'None'],
                        'events': [['path.is_file',
                                    '<TMP>/data/IMG-HH-ALOS2225333200-180726-WWDR1.5RUA',
                                    [],
                                    []],
                                   ['fsspec.get_mapper', "('file://<TMP>/data',)", '{}'],
                                   ['open_image',
                                    'FSMap',
                                    '<TMP>/data',
                                    "('IMG-HH-ALOS2225333200-180726-WWDR1.5RUA',)",
                                    "{'use_cache': False, 'create_cache': False, "
                                    "'records_per_chunk': 1}"],
                                   ['caching.encode', 'Group', 'HH'],
                                   ['path.write_text',
                                    '<TMP>/data/IMG-HH-ALOS2225333200-180726-WWDR1.5RUA.index',
                                    ['<6723 characters>'],
                                    []]],
                        'stdout': '',
                        'stderr': '',
                        'files': {'data': '<dir>',
                                  'data/IMG-HH-ALOS2225333200-180726-WWDR1.5RUA': '<1710 bytes>',
                                  'data/IMG-HH-ALOS2225333200-180726-WWDR1.5RUA.index': {'length': 6712,
                                                                                         'sha256': 'c0b1baaee7b6a9e6707639a7bc13fed59dc63bf9ef8080990404b2b0b8fe1cd5',
                                                                                         'head': '{"__type__": '
                                                                                                 '"group", '
                                                                                                 '"url": '
                                                                                                 'null, '
                                                                                                 '"data": '
                                                                                                 '{"rows": '
                                                                                                 '{"__type__": '
                                                                                                 '"variable", '
                                                                                                 '"dims": '
                                                                                                 '["rows"], '
                                                                                                 '"data": '
                                                                                                 '{"__type__": '
                                                                                                 '"array", '
                                                                                                 '"dtype": '
                                                                                                 '"int64", '
                                                                                                 '"data":'}}},
 'create_cache/rpc-5': {'result': ['ok', 'None'],
                        'events': [['path.is_file',
                                    '<TMP>/data/IMG-HH-ALOS2225333200-180726-WWDR1.5RUA',
                                    [],
                                    []],
                                   ['fsspec.get_mapper', "('file://<TMP>/data',)", '{}'],
                                   ['open_image',
                                    'FSMap',
                                    '<TMP>/data',
                                    "('IMG-HH-ALOS2225333200-180726-WWDR1.5RUA',)",
                                    "{'use_cache': False, 'create_cache': False, "
                                    "'records_per_chunk': 5}"],
                                   ['caching.encode', 'Group', 'HH'],
                                   ['path.write_text',
                                    '<TMP>/data/IMG-HH-ALOS2225333200-180726-WWDR1.5RUA.index',
                                    ['<6723 characters>'],
                                    []]],
                        'stdout': '',
                        'stderr': '',
                        'files': {'data': '<dir>',
                                  'data/IMG-HH-ALOS2225333200-180726-WWDR1.5RUA': '<1710 bytes>',
                                  'data/IMG-HH-ALOS2225333200-180726-WWDR1.5RUA.index': {'length': 6712,
                                                                                         'sha256': 'c0b1baaee7b6a9e6707639a7bc13fed59dc63bf9ef8080990404b2b0b8fe1cd5',
                                                                                         'head': '{"__type__": '
                                                                                                 '"group", '
                                                                                                 '"url": '
                                                                                                 'null, '
                                                                                                 '"data": '
                                                                                                 '{"rows": '
                                                                                                 '{"__type__": '
                                                                                                 '"variable", '
                                                                                                 '"dims": '
                                                                                                 '["rows"], '
                                                                                                 '"data": '
                                                                                                 '{"__type__": '
                                                                                                 '"array", '
                                                                                                 '"dtype": '
                                                                                                 '"int64", '
                                                                                                 '"data":'}}},
 'create_cache/rpc-4096': {'result': ['ok', 'None'],
                           'events': [['path.is_file',
                                       '<TMP>/data/IMG-HH-ALOS2225333200-180726-WWDR1.5RUA',
                                       [],
                                       []],
                                      ['fsspec.get_mapper', "('file://<TMP>/data',)", '{}'],
                                      ['open_image',
                                       'FSMap',
                                       '<TMP>/data',
                                       "('IMG-HH-ALOS2225333200-180726-WWDR1.5RUA',)",
                                       "{'use_cache': False, 'create_cache': False, "
                                       "'records_per_chunk': 4096}"],
                                      ['caching.encode', 'Group', 'HH'],
                                      ['path.write_text',
                                       '<TMP>/data/IMG-HH-ALOS2225333200-180726-WWDR1.5RUA.index',
                                       ['<6723 characters>'],
                                       []]],
                           'stdout': '',
                           'stderr': '',
                           'files': {'data': '<dir>',
                                     'data/IMG-HH-ALOS2225333200-180726-WWDR1.5RUA': '<1710 bytes>',
                                     'data/IMG-HH-ALOS2225333200-180726-WWDR1.5RUA.index': {'length': 6712,
                                                                                            'sha256': 'c0b1baaee7b6a9e6707639a7bc13fed59dc63bf9ef8080990404b2b0b8fe1cd5',
                                                                                            'head': '{"__type__": '
                                                                                                    '"group", '
                                                                                                    '"url": '
                                                                                                    'null, '
                                                                                                    '"data": '
                                                                                                    '{"rows": '
                                                                                                    '{"__type__": '
                                                                                                    '"variable", '
                                                                                                    '"dims": '
                                                                                                    '["rows"], '
                                                                                                    '"data": '
                                                                                                    '{"__type__": '
                                                                                                    '"array", '
                                                                                                    '"dtype": '
                                                                                                    '"int64", '
                                                                                                    '"data":'}}},
 'create_cache/rpc-none': {'result': ['raise',
                                      'TypeError',
                                      "unsupported operand type(s) for /: 'int' and 'NoneType'",
                                      '("unsupported operand type(s) for /: \'int\' and '
                                      '\'NoneType\'",)',
                                      None,
                                      None],
                           'events': [['path.is_file',
                                       '<TMP>/data/IMG-HH-ALOS2225333200-180726-WWDR1.5RUA',
                                       [],
                                       []],
                                      ['fsspec.get_mapper', "('file://<TMP>/data',)", '{}'],
                                      ['open_image',
                                       'FSMap',
                                       '<TMP>/data',
                                       "('IMG-HH-ALOS2225333200-180726-WWDR1.5RUA',)",
                                       "{'use_cache': False, 'create_cache': False, "
                                       "'records_per_chunk': None}"]],
                           'stdout': '',
                           'stderr': '',
                           'files': {'data': '<dir>',
                                     'data/IMG-HH-ALOS2225333200-180726-WWDR1.5RUA': '<1710 '
                                                                                     'bytes>'}},
 'create_cache/rpc-0': {'result': ['raise',
                                   'ZeroDivisionError',
                                   'division by zero',
                                   "('division by zero',)",
                                   None,
                                   None],
                        'events': [['path.is_file',
                                    '<TMP>/data/IMG-HH-ALOS2225333200-180726-WWDR1.5RUA',
                                    [],
                                    []],
                                   ['fsspec.get_mapper', "('file://<TMP>/data',)", '{}'],
                                   ['open_image',
                                    'FSMap',
                                    '<TMP>/data',
                                    "('IMG-HH-ALOS2225333200-180726-WWDR1.5RUA',)",
                                    "{'use_cache': False, 'create_cache': False, "
                                    "'records_per_chunk': 0}"]],
                        'stdout': '',
                        'stderr': '',
                        'files': {'data': '<dir>',
                                  'data/IMG-HH-ALOS2225333200-180726-WWDR1.5RUA': '<1710 bytes>'}},
 'create_cache/rpc-negative': {'result': ['ok', 'None'],
                               'events': [['path.is_file',
                                           '<TMP>/data/IMG-HH-ALOS2225333200-180726-WWDR1.5RUA',
                                           [],
                                           []],
                                          ['fsspec.get_mapper', "('file://<TMP>/data',)", '{}'],
                                          ['open_image',
                                           'FSMap',
                                           '<TMP>/data',
                                           "('IMG-HH-ALOS2225333200-180726-WWDR1.5RUA',)",
                                           "{'use_cache': False, 'create_cache': False, "
                                           "'records_per_chunk': -1}"],
                                          ['caching.encode', 'Group', 'HH'],
                                          ['path.write_text',
                                           '<TMP>/data/IMG-HH-ALOS2225333200-180726-WWDR1.5RUA.index',
                                           ['<445 characters>'],
                                           []]],
                               'stdout': '',
                               'stderr': '',
                               'files': {'data': '<dir>',
                                         'data/IMG-HH-ALOS2225333200-180726-WWDR1.5RUA': '<1710 '
                                                                                         'bytes>',
                                         'data/IMG-HH-ALOS2225333200-180726-WWDR1.5RUA.index': {'length': 434,
                                                                                                'sha256': '1f653f01fbe03f6194bed352e032e48f07c2a6528eb062c3bdc602a8fb3358cd',
                                                                                                'head': '{"__type__": '
                                                                                                        '"group", '
                                                                                                        '"url": '
                                                                                                        'null, '
                                                                                                        '"data": '
                                                                                                        '{"data": '
                                                                                                        '{"__type__": '
                                                                                                        '"variable", '
                                                                                                        '"dims": '
                                                                                                        '["rows", '
                                                                                                        '"columns"], '
                                                                                                        '"data": '
                                                                                                        '{"__type__": '
                                                                                                        '"backend_array", '
                                                                                                        '"root"'}}},
 'create_cache/rpc-str': {'result': ['raise',
                                     'TypeError',
                                     "unsupported operand type(s) for /: 'int' and 'str'",
                                     '("unsupported operand type(s) for /: \'int\' and \'str\'",)',
                                     None,
                                     None],
                          'events': [['path.is_file',
                                      '<TMP>/data/IMG-HH-ALOS2225333200-180726-WWDR1.5RUA',
                                      [],
                                      []],
                                     ['fsspec.get_mapper', "('file://<TMP>/data',)", '{}'],
                                     ['open_image',
                                      'FSMap',
                                      '<TMP>/data',
                                      "('IMG-HH-ALOS2225333200-180726-WWDR1.5RUA',)",
                                      "{'use_cache': False, 'create_cache': False, "
                                      "'records_per_chunk': 'auto'}"]],
                          'stdout': '',
                          'stderr': '',
                          'files': {'data': '<dir>',
                                    'data/IMG-HH-ALOS2225333200-180726-WWDR1.5RUA': '<1710 '
                                                                                    'bytes>'}},
 'create_cache/overwrite': {'result': ['ok', 'None'],
                            'events': [['path.is_file',
                                        '<TMP>/data/IMG-HH-ALOS2225333200-180726-WWDR1.5RUA',
                                        [],
                                        []],
                                       ['fsspec.get_mapper', "('file://<TMP>/data',)", '{}'],
                                       ['open_image',
                                        'FSMap',
                                        '<TMP>/data',
                                        "('IMG-HH-ALOS2225333200-180726-WWDR1.5RUA',)",
                                        "{'use_cache': False, 'create_cache': False, "
                                        "'records_per_chunk': 2}"],
                                       ['caching.encode', 'Group', 'HH'],
                                       ['path.write_text',
                                        '<TMP>/data/IMG-HH-ALOS2225333200-180726-WWDR1.5RUA.index',
                                        ['<6723 characters>'],
                                        []]],
                            'stdout': '',
                            'stderr': '',
                            'files': {'data': '<dir>',
                                      'data/IMG-HH-ALOS2225333200-180726-WWDR1.5RUA': '<1710 '
                                                                                      'bytes>',
                                      'data/IMG-HH-ALOS2225333200-180726-WWDR1.5RUA.index': {'length': 6712,
                                                                                             'sha256': 'c0b1baaee7b6a9e6707639a7bc13fed59dc63bf9ef8080990404b2b0b8fe1cd5',
                                                                                             'head': '{"__type__": '
                                                                                                     '"group", '
                                                                                                     '"url": '
                                                                                                     'null, '
                                                                                                     '"data": '
                                                                                                     '{"rows": '
                                                                                                     '{"__type__": '
                                                                                                     '"variable", '
                                                                                                     '"dims": '
                                                                                                     '["rows"], '
                                                                                                     '"data": '
                                                                                                     '{"__type__": '
                                                                                                     '"array", '
                                                                                                     '"dtype": '
                                                                                                     '"int64", '
                                                                                                     '"data":'}}},
 'create_cache/overwrite-cache-root': {'result': ['ok', 'None'],
                                       'events': [['path.is_file',
                                                   '<TMP>/data/IMG-HH-ALOS2225333200-180726-WWDR1.5RUA',
                                                   [],
                                                   []],
                                                  ['path.is_dir', '<TMP>/cache', [], []],
                                                  ['fsspec.get_mapper',
                                                   "('file://<TMP>/data',)",
                                                   '{}'],
                                                  ['open_image',
                                                   'FSMap',
                                                   '<TMP>/data',
                                                   "('IMG-HH-ALOS2225333200-180726-WWDR1.5RUA',)",
                                                   "{'use_cache': False, 'create_cache': False, "
                                                   "'records_per_chunk': 2}"],
                                                  ['caching.encode', 'Group', 'HH'],
                                                  ['path.write_text',
                                                   '<TMP>/cache/IMG-HH-ALOS2225333200-180726-WWDR1.5RUA.index',
                                                   ['<6723 characters>'],
                                                   []]],
                                       'stdout': '',
                                       'stderr': '',
                                       'files': {'cache': '<dir>',
                                                 'cache/IMG-HH-ALOS2225333200-180726-WWDR1.5RUA.index': {'length': 6712,
                                                                                                         'sha256': 'c0b1baaee7b6a9e6707639a7bc13fed59dc63bf9ef8080990404b2b0b8fe1cd5',
                                                                                                         'head': '{"__type__": '
                                                                                                                 '"group", '
                                                                                                                 '"url": '
                                                                                                                 'null, '
                                                                                                                 '"data": '
                                                                                                                 '{"rows": '
                                                                                                                 '{"__type__": '
                                                                                                                 '"variable", '
                                                                                                                 '"dims": '
                                                                                                                 '["rows"], '
                                                                                                                 '"data": '
                                                                                                                 '{"__type__": '
                                                                                                                 '"array", '
                                                                                                                 '"dtype": '
                                                                                                                 '"int64", '
                                                                                                                 '"data":'},
                                                 'data': '<dir>',
                                                 'data/IMG-HH-ALOS2225333200-180726-WWDR1.5RUA': '<1710 '
                                                                                                 'bytes>',
                                                 'data/IMG-HH-ALOS2225333200-180726-WWDR1.5RUA.index': {'length': 3,
                                                                                                        'sha256': 'cba06b5736faf67e54b07b561eae94395e774c517a7d910a54369e1263ccfbd4',
                                                                                                        'head': 'old'}}},
 'create_cache/target-is-dir': {'result': ['raise',
                                           'IsADirectoryError',
                                           '[Errno 21] Is a directory: '
                                           "'<TMP>/data/IMG-HH-ALOS2225333200-180726-WWDR1.5RUA.index'",
                                           "(21, 'Is a directory')",
                                           None,
                                           None],
                                'events': [['path.is_file',
                                            '<TMP>/data/IMG-HH-ALOS2225333200-180726-WWDR1.5RUA',
                                            [],
                                            []],
                                           ['fsspec.get_mapper', "('file://<TMP>/data',)", '{}'],
                                           ['open_image',
                                            'FSMap',
                                            '<TMP>/data',
                                            "('IMG-HH-ALOS2225333200-180726-WWDR1.5RUA',)",
                                            "{'use_cache': False, 'create_cache': False, "
                                            "'records_per_chunk': 2}"],
                                           ['caching.encode', 'Group', 'HH'],
                                           ['path.write_text',
                                            '<TMP>/data/IMG-HH-ALOS2225333200-180726-WWDR1.5RUA.index',
                                            ['<6723 characters>'],
                                            []]],
                                'stdout': '',
                                'stderr': '',
                                'files': {'data': '<dir>',
                                          'data/IMG-HH-ALOS2225333200-180726-WWDR1.5RUA': '<1710 '
                                                                                          'bytes>',
                                          'data/IMG-HH-ALOS2225333200-180726-WWDR1.5RUA.index': '<dir>'}},
 'create_cache/target-is-dir-cache-root': {'result': ['raise',
                                                      'IsADirectoryError',
                                                      '[Errno 21] Is a directory: '
                                                      "'<TMP>/cache/IMG-HH-ALOS2225333200-180726-WWDR1.5RUA.index'",
                                                      "(21, 'Is a directory')",
                                                      None,
                                                      None],
                                           'events': [['path.is_file',
                                                       '<TMP>/data/IMG-HH-ALOS2225333200-180726-WWDR1.5RUA',
                                                       [],
                                                       []],
                                                      ['path.is_dir', '<TMP>/cache', [], []],
                                                      ['fsspec.get_mapper',
                                                       "('file://<TMP>/data',)",
                                                       '{}'],
                                                      ['open_image',
                                                       'FSMap',
                                                       '<TMP>/data',
                                                       "('IMG-HH-ALOS2225333200-180726-WWDR1.5RUA',)",
                                                       "{'use_cache': False, 'create_cache': "
                                                       "False, 'records_per_chunk': 2}"],
                                                      ['caching.encode', 'Group', 'HH'],
                                                      ['path.write_text',
                                                       '<TMP>/cache/IMG-HH-ALOS2225333200-180726-WWDR1.5RUA.index',
                                                       ['<6723 characters>'],
                                                       []]],
                                           'stdout': '',
                                           'stderr': '',
                                           'files': {'cache': '<dir>',
                                                     'cache/IMG-HH-ALOS2225333200-180726-WWDR1.5RUA.index': '<dir>',
                                                     'data': '<dir>',
                                                     'data/IMG-HH-ALOS2225333200-180726-WWDR1.5RUA': '<1710 '
                                                                                                     'bytes>',
                                                     'data/IMG-HH-ALOS2225333200-180726-WWDR1.5RUA.index': '<dir>'}},
 'create_cache/missing-image': {'result': ['raise',
                                           'FileNotFoundError',
                                           'Cannot find image file at given path: '
                                           '<TMP>/data/IMG-HH-ALOS2225333200-180726-WWDR1.5RUA',
                                           "('Cannot find image file at given path: "
                                           "<TMP>/data/IMG-HH-ALOS2225333200-180726-WWDR1.5RUA',)",
                                           None,
                                           None],
                                'events': [['path.is_file',
                                            '<TMP>/data/IMG-HH-ALOS2225333200-180726-WWDR1.5RUA',
                                            [],
                                            []]],
                                'stdout': '',
                                'stderr': '',
                                'files': {'data': '<dir>'}},
 'create_cache/image-is-dir': {'result': ['raise',
                                          'FileNotFoundError',
                                          'Cannot find image file at given path: '
                                          '<TMP>/data/IMG-HH-ALOS2225333200-180726-WWDR1.5RUA',
                                          "('Cannot find image file at given path: "
                                          "<TMP>/data/IMG-HH-ALOS2225333200-180726-WWDR1.5RUA',)",
                                          None,
                                          None],
                               'events': [['path.is_file',
                                           '<TMP>/data/IMG-HH-ALOS2225333200-180726-WWDR1.5RUA',
                                           [],
                                           []]],
                               'stdout': '',
                               'stderr': '',
                               'files': {'data': '<dir>',
                                         'data/IMG-HH-ALOS2225333200-180726-WWDR1.5RUA': '<dir>'}},
 'create_cache/missing-cache-root': {'result': ['raise',
                                                'OSError',
                                                'Cannot find the target cache root: <TMP>/cache',
                                                "('Cannot find the target cache root: "
                                                "<TMP>/cache',)",
                                                None,
                                                None],
                                     'events': [['path.is_file',
                                                 '<TMP>/data/IMG-HH-ALOS2225333200-180726-WWDR1.5RUA',
                                                 [],
                                                 []],
                                                ['path.is_dir', '<TMP>/cache', [], []]],
                                     'stdout': '',
                                     'stderr': '',
                                     'files': {'data': '<dir>',
                                               'data/IMG-HH-ALOS2225333200-180726-WWDR1.5RUA': '<1710 '
                                                                                               'bytes>'}},
 'create_cache/cache-root-is-file': {'result': ['raise',
                                                'OSError',
                                                'Cannot find the target cache root: <TMP>/cache',
                                                "('Cannot find the target cache root: "
                                                "<TMP>/cache',)",
                                                None,
                                                None],
                                     'events': [['path.is_file',
                                                 '<TMP>/data/IMG-HH-ALOS2225333200-180726-WWDR1.5RUA',
                                                 [],
                                                 []],
                                                ['path.is_dir', '<TMP>/cache', [], []]],
                                     'stdout': '',
                                     'stderr': '',
                                     'files': {'cache': '<15 bytes>',
                                               'data': '<dir>',
                                               'data/IMG-HH-ALOS2225333200-180726-WWDR1.5RUA': '<1710 '
                                                                                               'bytes>'}},
 'create_cache/missing-image-missing-cache-root': {'result': ['raise',
                                                              'FileNotFoundError',
                                                              'Cannot find image file at given '
                                                              'path: '
                                                              '<TMP>/data/IMG-HH-ALOS2225333200-180726-WWDR1.5RUA',
                                                              "('Cannot find image file at given "
                                                              'path: '
                                                              "<TMP>/data/IMG-HH-ALOS2225333200-180726-WWDR1.5RUA',)",
                                                              None,
                                                              None],
                                                   'events': [['path.is_file',
                                                               '<TMP>/data/IMG-HH-ALOS2225333200-180726-WWDR1.5RUA',
                                                               [],
                                                               []]],
                                                   'stdout': '',
                                                   'stderr': '',
                                                   'files': {'data': '<dir>'}},
 'create_cache/missing-image-valid-cache-root': {'result': ['raise',
                                                            'FileNotFoundError',
                                                            'Cannot find image file at given path: '
                                                            '<TMP>/data/IMG-HH-ALOS2225333200-180726-WWDR1.5RUA',
                                                            "('Cannot find image file at given "
                                                            'path: '
                                                            "<TMP>/data/IMG-HH-ALOS2225333200-180726-WWDR1.5RUA',)",
                                                            None,
                                                            None],
                                                 'events': [['path.is_file',
                                                             '<TMP>/data/IMG-HH-ALOS2225333200-180726-WWDR1.5RUA',
                                                             [],
                                                             []]],
                                                 'stdout': '',
                                                 'stderr': '',
                                                 'files': {'cache': '<dir>', 'data': '<dir>'}},
 'create_cache/relative': {'result': ['raise',
                                      'ValueError',
                                      "relative path can't be expressed as a file URI",
                                      '("relative path can\'t be expressed as a file URI",)',
                                      None,
                                      None],
                           'events': [['path.is_file',
                                       'data/IMG-HH-ALOS2225333200-180726-WWDR1.5RUA',
                                       [],
                                       []]],
                           'stdout': '',
                           'stderr': '',
                           'files': {'data': '<dir>',
                                     'data/IMG-HH-ALOS2225333200-180726-WWDR1.5RUA': '<1710 '
                                                                                     'bytes>'}},
 'create_cache/relative-cache-root': {'result': ['raise',
                                                 'ValueError',
                                                 "relative path can't be expressed as a file URI",
                                                 '("relative path can\'t be expressed as a file '
                                                 'URI",)',
                                                 None,
                                                 None],
                                      'events': [['path.is_file',
                                                  'data/IMG-HH-ALOS2225333200-180726-WWDR1.5RUA',
                                                  [],
                                                  []],
                                                 ['path.is_dir', 'cache', [], []]],
                                      'stdout': '',
                                      'stderr': '',
                                      'files': {'cache': '<dir>',
                                                'data': '<dir>',
                                                'data/IMG-HH-ALOS2225333200-180726-WWDR1.5RUA': '<1710 '
                                                                                                'bytes>'}},
 'create_cache/relative-missing-cache-root': {'result': ['raise',
                                                         'OSError',
                                                         'Cannot find the target cache root: cache',
                                                         "('Cannot find the target cache root: "
                                                         "cache',)",
                                                         None,
                                                         None],
                                              'events': [['path.is_file',
                                                          'data/IMG-HH-ALOS2225333200-180726-WWDR1.5RUA',
                                                          [],
                                                          []],
                                                         ['path.is_dir', 'cache', [], []]],
                                              'stdout': '',
                                              'stderr': '',
                                              'files': {'data': '<dir>',
                                                        'data/IMG-HH-ALOS2225333200-180726-WWDR1.5RUA': '<1710 '
                                                                                                        'bytes>'}},
 'create_cache/relative-missing-image': {'result': ['raise',
                                                    'FileNotFoundError',
                                                    'Cannot find image file at given path: '
                                                    'data/IMG-HH-ALOS2225333200-180726-WWDR1.5RUA',
                                                    "('Cannot find image file at given path: "
                                                    "data/IMG-HH-ALOS2225333200-180726-WWDR1.5RUA',)",
                                                    None,
                                                    None],
                                         'events': [['path.is_file',
                                                     'data/IMG-HH-ALOS2225333200-180726-WWDR1.5RUA',
                                                     [],
                                                     []]],
                                         'stdout': '',
                                         'stderr': '',
                                         'files': {'data': '<dir>'}},
 'create_cache/bad-name': {'result': ['raise',
                                      'ValueError',
                                      'invalid file name: image.bin',
                                      "('invalid file name: image.bin',)",
                                      None,
                                      None],
                           'events': [['path.is_file', '<TMP>/data/image.bin', [], []],
                                      ['fsspec.get_mapper', "('file://<TMP>/data',)", '{}'],
                                      ['open_image',
                                       'FSMap',
                                       '<TMP>/data',
                                       "('image.bin',)",
                                       "{'use_cache': False, 'create_cache': False, "
                                       "'records_per_chunk': 2}"]],
                           'stdout': '',
                           'stderr': '',
                           'files': {'data': '<dir>', 'data/image.bin': '<1710 bytes>'}},
 'create_cache/bad-name-missing-cache-root': {'result': ['raise',
                                                         'OSError',
                                                         'Cannot find the target cache root: '
                                                         '<TMP>/cache',
                                                         "('Cannot find the target cache root: "
                                                         "<TMP>/cache',)",
                                                         None,
                                                         None],
                                              'events': [['path.is_file',
                                                          '<TMP>/data/image.bin',
                                                          [],
                                                          []],
                                                         ['path.is_dir', '<TMP>/cache', [], []]],
                                              'stdout': '',
                                              'stderr': '',
                                              'files': {'data': '<dir>',
                                                        'data/image.bin': '<1710 bytes>'}},
 'create_cache/unknown-type-code': {'result': ['raise',
                                               'ValueError',
                                               'unknown type code: F*4',
                                               "('unknown type code: F*4',)",
                                               None,
                                               None],
                                    'events': [['path.is_file',
                                                '<TMP>/data/IMG-HH-ALOS2225333200-180726-WWDR1.5RUA',
                                                [],
                                                []],
                                               ['fsspec.get_mapper',
                                                "('file://<TMP>/data',)",
                                                '{}'],
                                               ['open_image',
                                                'FSMap',
                                                '<TMP>/data',
                                                "('IMG-HH-ALOS2225333200-180726-WWDR1.5RUA',)",
                                                "{'use_cache': False, 'create_cache': False, "
                                                "'records_per_chunk': 2}"]],
                                    'stdout': '',
                                    'stderr': '',
                                    'files': {'data': '<dir>',
                                              'data/IMG-HH-ALOS2225333200-180726-WWDR1.5RUA': '<1710 '
                                                                                              'bytes>'}},
 'create_cache/truncated': {'result': ['raise',
                                       'ValueError',
                                       'sizes mismatch: chunksize is 198 but got 280 bytes',
                                       "('sizes mismatch: chunksize is 198 but got 280 bytes',)",
                                       None,
                                       None],
                            'events': [['path.is_file',
                                        '<TMP>/data/IMG-HH-ALOS2225333200-180726-WWDR1.5RUA',
                                        [],
                                        []],
                                       ['fsspec.get_mapper', "('file://<TMP>/data',)", '{}'],
                                       ['open_image',
                                        'FSMap',
                                        '<TMP>/data',
                                        "('IMG-HH-ALOS2225333200-180726-WWDR1.5RUA',)",
                                        "{'use_cache': False, 'create_cache': False, "
                                        "'records_per_chunk': 2}"]],
                            'stdout': '',
                            'stderr': '',
                            'files': {'data': '<dir>',
                                      'data/IMG-HH-ALOS2225333200-180726-WWDR1.5RUA': '<1000 '
                                                                                      'bytes>'}},
 'create_cache/garbage': {'result': ['raise',
                                     'ValueError',
                                     "invalid literal for int() with base 10: 'age'",
                                     '("invalid literal for int() with base 10: \'age\'",)',
                                     None,
                                     None],
                          'events': [['path.is_file',
                                      '<TMP>/data/IMG-HH-ALOS2225333200-180726-WWDR1.5RUA',
                                      [],
                                      []],
                                     ['path.is_dir', '<TMP>/cache', [], []],
                                     ['fsspec.get_mapper', "('file://<TMP>/data',)", '{}'],
                                     ['open_image',
                                      'FSMap',
                                      '<TMP>/data',
                                      "('IMG-HH-ALOS2225333200-180726-WWDR1.5RUA',)",
                                      "{'use_cache': False, 'create_cache': False, "
                                      "'records_per_chunk': 2}"]],
                          'stdout': '',
                          'stderr': '',
                          'files': {'cache': '<dir>',
                                    'data': '<dir>',
                                    'data/IMG-HH-ALOS2225333200-180726-WWDR1.5RUA': '<1600 '
                                                                                    'bytes>'}},
 'create_cache/empty': {'result': ['raise',
                                   'StreamError',
                                   'Error in path (parsing) -> preamble -> record_sequence_number\n'
                                   'stream read less than specified amount, expected 4, found 0',
                                   "('Error in path (parsing) -> preamble -> "
                                   'record_sequence_number\\nstream read less than specified '
                                   "amount, expected 4, found 0',)",
                                   None,
                                   None],
                        'events': [['path.is_file',
                                    '<TMP>/data/IMG-HH-ALOS2225333200-180726-WWDR1.5RUA',
                                    [],
                                    []],
                                   ['fsspec.get_mapper', "('file://<TMP>/data',)", '{}'],
                                   ['open_image',
                                    'FSMap',
                                    '<TMP>/data',
                                    "('IMG-HH-ALOS2225333200-180726-WWDR1.5RUA',)",
                                    "{'use_cache': False, 'create_cache': False, "
                                    "'records_per_chunk': 2}"]],
                        'stdout': '',
                        'stderr': '',
                        'files': {'data': '<dir>',
                                  'data/IMG-HH-ALOS2225333200-180726-WWDR1.5RUA': '<0 bytes>'}},
 'create_cache/str-paths': {'result': ['raise',
                                       'AttributeError',
                                       "'str' object has no attribute 'is_file'",
                                       '("\'str\' object has no attribute \'is_file\'",)',
                                       None,
                                       None],
                            'events': [],
                            'stdout': '',
                            'stderr': '',
                            'files': {'data': '<dir>',
                                      'data/IMG-HH-ALOS2225333200-180726-WWDR1.5RUA': '<1710 '
                                                                                      'bytes>'}},
 'create_cache/str-cache-root': {'result': ['raise',
                                            'AttributeError',
                                            "'str' object has no attribute 'is_dir'",
                                            '("\'str\' object has no attribute \'is_dir\'",)',
                                            None,
                                            None],
                                 'events': [['path.is_file',
                                             '<TMP>/data/IMG-HH-ALOS2225333200-180726-WWDR1.5RUA',
                                             [],
                                             []]],
                                 'stdout': '',
                                 'stderr': '',
                                 'files': {'cache': '<dir>',
                                           'data': '<dir>',
                                           'data/IMG-HH-ALOS2225333200-180726-WWDR1.5RUA': '<1710 '
                                                                                           'bytes>'}},
 'create_cache/missing-arguments': {'result': ['raise',
                                               'TypeError',
                                               'create_cache() missing 2 required positional '
                                               "arguments: 'cache_root' and 'records_per_chunk'",
                                               '("create_cache() missing 2 required positional '
                                               "arguments: 'cache_root' and "
                                               '\'records_per_chunk\'",)',
                                               None,
                                               None],
                                    'events': [],
                                    'stdout': '',
                                    'stderr': '',
                                    'files': {'data': '<dir>',
                                              'data/IMG-HH-ALOS2225333200-180726-WWDR1.5RUA': '<1710 '
                                                                                              'bytes>'}},
 'main/default': {'result': ['ok', 'None'],
                  'events': [['path.is_file',
                              '<TMP>/data/IMG-HH-ALOS2225333200-180726-WWDR1.5RUA',
                              [],
                              []],
                             ['fsspec.get_mapper', "('file://<TMP>/data',)", '{}'],
                             ['open_image',
                              'FSMap',
                              '<TMP>/data',
                              "('IMG-HH-ALOS2225333200-180726-WWDR1.5RUA',)",
                              "{'use_cache': False, 'create_cache': False, 'records_per_chunk': "
                              '4096}'],
                             ['caching.encode', 'Group', 'HH'],
                             ['path.write_text',
                              '<TMP>/data/IMG-HH-ALOS2225333200-180726-WWDR1.5RUA.index',
                              ['<6723 characters>'],
                              []]],
                  'stdout': '',
                  'stderr': '',
                  'files': {'data': '<dir>',
                            'data/IMG-HH-ALOS2225333200-180726-WWDR1.5RUA': '<1710 bytes>',
                            'data/IMG-HH-ALOS2225333200-180726-WWDR1.5RUA.index': {'length': 6712,
                                                                                   'sha256': 'c0b1baaee7b6a9e6707639a7bc13fed59dc63bf9ef8080990404b2b0b8fe1cd5',
                                                                                   'head': '{"__type__": '
                                                                                           '"group", '
                                                                                           '"url": '
                                                                                           'null, '
                                                                                           '"data": '
                                                                                           '{"rows": '
                                                                                           '{"__type__": '
                                                                                           '"variable", '
                                                                                           '"dims": '
                                                                                           '["rows"], '
                                                                                           '"data": '
                                                                                           '{"__type__": '
                                                                                           '"array", '
                                                                                           '"dtype": '
                                                                                           '"int64", '
                                                                                           '"data":'}}},
 'main/cache-root': {'result': ['ok', 'None'],
                     'events': [['path.is_file',
                                 '<TMP>/data/IMG-HH-ALOS2225333200-180726-WWDR1.5RUA',
                                 [],
                                 []],
                                ['path.is_dir', '<TMP>/cache', [], []],
                                ['fsspec.get_mapper', "('file://<TMP>/data',)", '{}'],
                                ['open_image',
                                 'FSMap',
                                 '<TMP>/data',
                                 "('IMG-HH-ALOS2225333200-180726-WWDR1.5RUA',)",
                                 "{'use_cache': False, 'create_cache': False, 'records_per_chunk': "
                                 '4096}'],
                                ['caching.encode', 'Group', 'HH'],
                                ['path.write_text',
                                 '<TMP>/cache/IMG-HH-ALOS2225333200-180726-WWDR1.5RUA.index',
                                 ['<6723 characters>'],
                                 []]],
                     'stdout': '',
                     'stderr': '',
                     'files': {'cache': '<dir>',
                               'cache/IMG-HH-ALOS2225333200-180726-WWDR1.5RUA.index': {'length': 6712,
                                                                                       'sha256': 'c0b1baaee7b6a9e6707639a7bc13fed59dc63bf9ef8080990404b2b0b8fe1cd5',
                                                                                       'head': '{"__type__": '
                                                                                               '"group", '
                                                                                               '"url": '
                                                                                               'null, '
                                                                                               '"data": '
                                                                                               '{"rows": '
                                                                                               '{"__type__": '
                                                                                               '"variable", '
                                                                                               '"dims": '
                                                                                               '["rows"], '
                                                                                               '"data": '
                                                                                               '{"__type__": '
                                                                                               '"array", '
                                                                                               '"dtype": '
                                                                                               '"int64", '
                                                                                               '"data":'},
                               'data': '<dir>',
                               'data/IMG-HH-ALOS2225333200-180726-WWDR1.5RUA': '<1710 bytes>'}},
 'main/rpc-2': {'result': ['ok', 'None'],
                'events': [['path.is_file',
                            '<TMP>/data/IMG-HH-ALOS2225333200-180726-WWDR1.5RUA',
                            [],
                            []],
                           ['fsspec.get_mapper', "('file://<TMP>/data',)", '{}'],
                           ['open_image',
                            'FSMap',
                            '<TMP>/data',
                            "('IMG-HH-ALOS2225333200-180726-WWDR1.5RUA',)",
                            "{'use_cache': False, 'create_cache': False, 'records_per_chunk': 2}"],
                           ['caching.encode', 'Group', 'HH'],
                           ['path.write_text',
                            '<TMP>/data/IMG-HH-ALOS2225333200-180726-WWDR1.5RUA.index',
                            ['<6723 characters>'],
                            []]],
                'stdout': '',
                'stderr': '',
                'files': {'data': '<dir>',
                          'data/IMG-HH-ALOS2225333200-180726-WWDR1.5RUA': '<1710 bytes>',
                          'data/IMG-HH-ALOS2225333200-180726-WWDR1.5RUA.index': {'length': 6712,
                                                                                 'sha256': 'c0b1baaee7b6a9e6707639a7bc13fed59dc63bf9ef8080990404b2b0b8fe1cd5',
                                                                                 'head': '{"__type__": '
                                                                                         '"group", '
                                                                                         '"url": '
                                                                                         'null, '
                                                                                         '"data": '
                                                                                         '{"rows": '
                                                                                         '{"__type__": '
                                                                                         '"variable", '
                                                                                         '"dims": '
                                                                                         '["rows"], '
                                                                                         '"data": '
                                                                                         '{"__type__": '
                                                                                         '"array", '
                                                                                         '"dtype": '
                                                                                         '"int64", '
                                                                                         '"data":'}}},
 'main/rpc-equals': {'result': ['ok', 'None'],
                     'events': [['path.is_file',
                                 '<TMP>/data/IMG-HH-ALOS2225333200-180726-WWDR1.5RUA',
                                 [],
                                 []],
                                ['path.is_dir', '<TMP>/cache', [], []],
                                ['fsspec.get_mapper', "('file://<TMP>/data',)", '{}'],
                                ['open_image',
                                 'FSMap',
                                 '<TMP>/data',
                                 "('IMG-HH-ALOS2225333200-180726-WWDR1.5RUA',)",
                                 "{'use_cache': False, 'create_cache': False, 'records_per_chunk': "
                                 '3}'],
                                ['caching.encode', 'Group', 'HH'],
                                ['path.write_text',
                                 '<TMP>/cache/IMG-HH-ALOS2225333200-180726-WWDR1.5RUA.index',
                                 ['<6723 characters>'],
                                 []]],
                     'stdout': '',
                     'stderr': '',
                     'files': {'cache': '<dir>',
                               'cache/IMG-HH-ALOS2225333200-180726-WWDR1.5RUA.index': {'length': 6712,
                                                                                       'sha256': 'c0b1baaee7b6a9e6707639a7bc13fed59dc63bf9ef8080990404b2b0b8fe1cd5',
                                                                                       'head': '{"__type__": '
                                                                                               '"group", '
                                                                                               '"url": '
                                                                                               'null, '
                                                                                               '"data": '
                                                                                               '{"rows": '
                                                                                               '{"__type__": '
                                                                                               '"variable", '
                                                                                               '"dims": '
                                                                                               '["rows"], '
                                                                                               '"data": '
                                                                                               '{"__type__": '
                                                                                               '"array", '
                                                                                               '"dtype": '
                                                                                               '"int64", '
                                                                                               '"data":'},
                               'data': '<dir>',
                               'data/IMG-HH-ALOS2225333200-180726-WWDR1.5RUA': '<1710 bytes>'}},
 'main/rpc-last': {'result': ['ok', 'None'],
                   'events': [['path.is_file',
                               '<TMP>/data/IMG-HH-ALOS2225333200-180726-WWDR1.5RUA',
                               [],
                               []],
                              ['path.is_dir', '<TMP>/cache', [], []],
                              ['fsspec.get_mapper', "('file://<TMP>/data',)", '{}'],
                              ['open_image',
                               'FSMap',
                               '<TMP>/data',
                               "('IMG-HH-ALOS2225333200-180726-WWDR1.5RUA',)",
                               "{'use_cache': False, 'create_cache': False, 'records_per_chunk': "
                               '1}'],
                              ['caching.encode', 'Group', 'HH'],
                              ['path.write_text',
                               '<TMP>/cache/IMG-HH-ALOS2225333200-180726-WWDR1.5RUA.index',
                               ['<6723 characters>'],
                               []]],
                   'stdout': '',
                   'stderr': '',
                   'files': {'cache': '<dir>',
                             'cache/IMG-HH-ALOS2225333200-180726-WWDR1.5RUA.index': {'length': 6712,
                                                                                     'sha256': 'c0b1baaee7b6a9e6707639a7bc13fed59dc63bf9ef8080990404b2b0b8fe1cd5',
                                                                                     'head': '{"__type__": '
                                                                                             '"group", '
                                                                                             '"url": '
                                                                                             'null, '
                                                                                             '"data": '
                                                                                             '{"rows": '
                                                                                             '{"__type__": '
                                                                                             '"variable", '
                                                                                             '"dims": '
                                                                                             '["rows"], '
                                                                                             '"data": '
                                                                                             '{"__type__": '
                                                                                             '"array", '
                                                                                             '"dtype": '
                                                                                             '"int64", '
                                                                                             '"data":'},
                             'data': '<dir>',
                             'data/IMG-HH-ALOS2225333200-180726-WWDR1.5RUA': '<1710 bytes>'}},
 'main/rpc-between': {'result': ['raise', 'SystemExit', '2', '(2,)', None, 2],
                      'events': [],
                      'stdout': '',
                      'stderr': 'usage: ceos-alos2-create-cache [-h] [--rpc [RPC]] image_path '
                                '[cache_root]\n'
                                'ceos-alos2-create-cache: error: unrecognized arguments: '
                                '<TMP>/cache\n',
                      'files': {'cache': '<dir>',
                                'data': '<dir>',
                                'data/IMG-HH-ALOS2225333200-180726-WWDR1.5RUA': '<1710 bytes>'}},
 'main/rpc-without-value': {'result': ['raise',
                                       'TypeError',
                                       "unsupported operand type(s) for /: 'int' and 'NoneType'",
                                       '("unsupported operand type(s) for /: \'int\' and '
                                       '\'NoneType\'",)',
                                       None,
                                       None],
                            'events': [['path.is_file',
                                        '<TMP>/data/IMG-HH-ALOS2225333200-180726-WWDR1.5RUA',
                                        [],
                                        []],
                                       ['fsspec.get_mapper', "('file://<TMP>/data',)", '{}'],
                                       ['open_image',
                                        'FSMap',
                                        '<TMP>/data',
                                        "('IMG-HH-ALOS2225333200-180726-WWDR1.5RUA',)",
                                        "{'use_cache': False, 'create_cache': False, "
                                        "'records_per_chunk': None}"]],
                            'stdout': '',
                            'stderr': '',
                            'files': {'data': '<dir>',
                                      'data/IMG-HH-ALOS2225333200-180726-WWDR1.5RUA': '<1710 '
                                                                                      'bytes>'}},
 'main/rpc-negative': {'result': ['ok', 'None'],
                       'events': [['path.is_file',
                                   '<TMP>/data/IMG-HH-ALOS2225333200-180726-WWDR1.5RUA',
                                   [],
                                   []],
                                  ['fsspec.get_mapper', "('file://<TMP>/data',)", '{}'],
                                  ['open_image',
                                   'FSMap',
                                   '<TMP>/data',
                                   "('IMG-HH-ALOS2225333200-180726-WWDR1.5RUA',)",
                                   "{'use_cache': False, 'create_cache': False, "
                                   "'records_per_chunk': -1}"],
                                  ['caching.encode', 'Group', 'HH'],
                                  ['path.write_text',
                                   '<TMP>/data/IMG-HH-ALOS2225333200-180726-WWDR1.5RUA.index',
                                   ['<445 characters>'],
                                   []]],
                       'stdout': '',
                       'stderr': '',
                       'files': {'data': '<dir>',
                                 'data/IMG-HH-ALOS2225333200-180726-WWDR1.5RUA': '<1710 bytes>',
                                 'data/IMG-HH-ALOS2225333200-180726-WWDR1.5RUA.index': {'length': 434,
                                                                                        'sha256': '1f653f01fbe03f6194bed352e032e48f07c2a6528eb062c3bdc602a8fb3358cd',
                                                                                        'head': '{"__type__": '
                                                                                                '"group", '
                                                                                                '"url": '
                                                                                                'null, '
                                                                                                '"data": '
                                                                                                '{"data": '
                                                                                                '{"__type__": '
                                                                                                '"variable", '
                                                                                                '"dims": '
                                                                                                '["rows", '
                                                                                                '"columns"], '
                                                                                                '"data": '
                                                                                                '{"__type__": '
                                                                                                '"backend_array", '
                                                                                                '"root"'}}},
 'main/rpc-zero': {'result': ['raise',
                              'ZeroDivisionError',
                              'division by zero',
                              "('division by zero',)",
                              None,
                              None],
                   'events': [['path.is_file',
                               '<TMP>/data/IMG-HH-ALOS2225333200-180726-WWDR1.5RUA',
                               [],
                               []],
                              ['fsspec.get_mapper', "('file://<TMP>/data',)", '{}'],
                              ['open_image',
                               'FSMap',
                               '<TMP>/data',
                               "('IMG-HH-ALOS2225333200-180726-WWDR1.5RUA',)",
                               "{'use_cache': False, 'create_cache': False, 'records_per_chunk': "
                               '0}']],
                   'stdout': '',
                   'stderr': '',
                   'files': {'data': '<dir>',
                             'data/IMG-HH-ALOS2225333200-180726-WWDR1.5RUA': '<1710 bytes>'}},
 'main/rpc-invalid': {'result': ['raise', 'SystemExit', '2', '(2,)', 'ArgumentError', 2],
                      'events': [],
                      'stdout': '',
                      'stderr': 'usage: ceos-alos2-create-cache [-h] [--rpc [RPC]] image_path '
                                '[cache_root]\n'
                                'ceos-alos2-create-cache: error: argument --rpc: invalid int '
                                "value: 'abc'\n",
                      'files': {'data': '<dir>',
                                'data/IMG-HH-ALOS2225333200-180726-WWDR1.5RUA': '<1710 bytes>'}},
 'main/rpc-abbreviated': {'result': ['ok', 'None'],
                          'events': [['path.is_file',
                                      '<TMP>/data/IMG-HH-ALOS2225333200-180726-WWDR1.5RUA',
                                      [],
                                      []],
                                     ['fsspec.get_mapper', "('file://<TMP>/data',)", '{}'],
                                     ['open_image',
                                      'FSMap',
                                      '<TMP>/data',
                                      "('IMG-HH-ALOS2225333200-180726-WWDR1.5RUA',)",
                                      "{'use_cache': False, 'create_cache': False, "
                                      "'records_per_chunk': 2}"],
                                     ['caching.encode', 'Group', 'HH'],
                                     ['path.write_text',
                                      '<TMP>/data/IMG-HH-ALOS2225333200-180726-WWDR1.5RUA.index',
                                      ['<6723 characters>'],
                                      []]],
                          'stdout': '',
                          'stderr': '',
                          'files': {'data': '<dir>',
                                    'data/IMG-HH-ALOS2225333200-180726-WWDR1.5RUA': '<1710 bytes>',
                                    'data/IMG-HH-ALOS2225333200-180726-WWDR1.5RUA.index': {'length': 6712,
                                                                                           'sha256': 'c0b1baaee7b6a9e6707639a7bc13fed59dc63bf9ef8080990404b2b0b8fe1cd5',
                                                                                           'head': '{"__type__": '
                                                                                                   '"group", '
                                                                                                   '"url": '
                                                                                                   'null, '
                                                                                                   '"data": '
                                                                                                   '{"rows": '
                                                                                                   '{"__type__": '
                                                                                                   '"variable", '
                                                                                                   '"dims": '
                                                                                                   '["rows"], '
                                                                                                   '"data": '
                                                                                                   '{"__type__": '
                                                                                                   '"array", '
                                                                                                   '"dtype": '
                                                                                                   '"int64", '
                                                                                                   '"data":'}}},
 'main/scansar-name': {'result': ['ok', 'None'],
                       'events': [['path.is_file',
                                   '<TMP>/data/IMG-HV-ALOS2225333100-180726-WWDR1.1__D-B3',
                                   [],
                                   []],
                                  ['path.is_dir', '<TMP>/cache', [], []],
                                  ['fsspec.get_mapper', "('file://<TMP>/data',)", '{}'],
                                  ['open_image',
                                   'FSMap',
                                   '<TMP>/data',
                                   "('IMG-HV-ALOS2225333100-180726-WWDR1.1__D-B3',)",
                                   "{'use_cache': False, 'create_cache': False, "
                                   "'records_per_chunk': 4096}"],
                                  ['caching.encode', 'Group', 'HV_scan3'],
                                  ['path.write_text',
                                   '<TMP>/cache/IMG-HV-ALOS2225333100-180726-WWDR1.1__D-B3.index',
                                   ['<6732 characters>'],
                                   []]],
                       'stdout': '',
                       'stderr': '',
                       'files': {'cache': '<dir>',
                                 'cache/IMG-HV-ALOS2225333100-180726-WWDR1.1__D-B3.index': {'length': 6721,
                                                                                            'sha256': '883715b357ac04c8c9b82b936b49ff81356ddf3f258ca0d8ec0cbfb6a32b2413',
                                                                                            'head': '{"__type__": '
                                                                                                    '"group", '
                                                                                                    '"url": '
                                                                                                    'null, '
                                                                                                    '"data": '
                                                                                                    '{"rows": '
                                                                                                    '{"__type__": '
                                                                                                    '"variable", '
                                                                                                    '"dims": '
                                                                                                    '["rows"], '
                                                                                                    '"data": '
                                                                                                    '{"__type__": '
                                                                                                    '"array", '
                                                                                                    '"dtype": '
                                                                                                    '"int64", '
                                                                                                    '"data":'},
                                 'data': '<dir>',
                                 'data/IMG-HV-ALOS2225333100-180726-WWDR1.1__D-B3': '<1710 '
                                                                                    'bytes>'}},
 'main/overwrite': {'result': ['ok', 'None'],
                    'events': [['path.is_file',
                                '<TMP>/data/IMG-HH-ALOS2225333200-180726-WWDR1.5RUA',
                                [],
                                []],
                               ['fsspec.get_mapper', "('file://<TMP>/data',)", '{}'],
                               ['open_image',
                                'FSMap',
                                '<TMP>/data',
                                "('IMG-HH-ALOS2225333200-180726-WWDR1.5RUA',)",
                                "{'use_cache': False, 'create_cache': False, 'records_per_chunk': "
                                '4096}'],
                               ['caching.encode', 'Group', 'HH'],
                               ['path.write_text',
                                '<TMP>/data/IMG-HH-ALOS2225333200-180726-WWDR1.5RUA.index',
                                ['<6723 characters>'],
                                []]],
                    'stdout': '',
                    'stderr': '',
                    'files': {'data': '<dir>',
                              'data/IMG-HH-ALOS2225333200-180726-WWDR1.5RUA': '<1710 bytes>',
                              'data/IMG-HH-ALOS2225333200-180726-WWDR1.5RUA.index': {'length': 6712,
                                                                                     'sha256': 'c0b1baaee7b6a9e6707639a7bc13fed59dc63bf9ef8080990404b2b0b8fe1cd5',
                                                                                     'head': '{"__type__": '
                                                                                             '"group", '
                                                                                             '"url": '
                                                                                             'null, '
                                                                                             '"data": '
                                                                                             '{"rows": '
                                                                                             '{"__type__": '
                                                                                             '"variable", '
                                                                                             '"dims": '
                                                                                             '["rows"], '
                                                                                             '"data": '
                                                                                             '{"__type__": '
                                                                                             '"array", '
                                                                                             '"dtype": '
                                                                                             '"int64", '
                                                                                             '"data":'}}},
 'main/target-is-dir': {'result': ['raise', 'SystemExit', '1', '(1,)', 'IsADirectoryError', 1],
                        'events': [['path.is_file',
                                    '<TMP>/data/IMG-HH-ALOS2225333200-180726-WWDR1.5RUA',
                                    [],
                                    []],
                                   ['fsspec.get_mapper', "('file://<TMP>/data',)", '{}'],
                                   ['open_image',
                                    'FSMap',
                                    '<TMP>/data',
                                    "('IMG-HH-ALOS2225333200-180726-WWDR1.5RUA',)",
                                    "{'use_cache': False, 'create_cache': False, "
                                    "'records_per_chunk': 4096}"],
                                   ['caching.encode', 'Group', 'HH'],
                                   ['path.write_text',
                                    '<TMP>/data/IMG-HH-ALOS2225333200-180726-WWDR1.5RUA.index',
                                    ['<6723 characters>'],
                                    []]],
                        'stdout': '',
                        'stderr': '21\n',
                        'files': {'data': '<dir>',
                                  'data/IMG-HH-ALOS2225333200-180726-WWDR1.5RUA': '<1710 bytes>',
                                  'data/IMG-HH-ALOS2225333200-180726-WWDR1.5RUA.index': '<dir>'}},
 'main/missing-image': {'result': ['raise', 'SystemExit', '1', '(1,)', 'FileNotFoundError', 1],
                        'events': [['path.is_file',
                                    '<TMP>/data/IMG-HH-ALOS2225333200-180726-WWDR1.5RUA',
                                    [],
                                    []]],
                        'stdout': '',
                        'stderr': 'Cannot find image file at given path: '
                                  '<TMP>/data/IMG-HH-ALOS2225333200-180726-WWDR1.5RUA\n',
                        'files': {'data': '<dir>'}},
 'main/image-is-dir': {'result': ['raise', 'SystemExit', '1', '(1,)', 'FileNotFoundError', 1],
                       'events': [['path.is_file',
                                   '<TMP>/data/IMG-HH-ALOS2225333200-180726-WWDR1.5RUA',
                                   [],
                                   []]],
                       'stdout': '',
                       'stderr': 'Cannot find image file at given path: '
                                 '<TMP>/data/IMG-HH-ALOS2225333200-180726-WWDR1.5RUA\n',
                       'files': {'data': '<dir>',
                                 'data/IMG-HH-ALOS2225333200-180726-WWDR1.5RUA': '<dir>'}},
 'main/missing-cache-root': {'result': ['raise', 'SystemExit', '1', '(1,)', 'OSError', 1],
                             'events': [['path.is_file',
                                         '<TMP>/data/IMG-HH-ALOS2225333200-180726-WWDR1.5RUA',
                                         [],
                                         []],
                                        ['path.is_dir', '<TMP>/cache', [], []]],
                             'stdout': '',
                             'stderr': 'Cannot find the target cache root: <TMP>/cache\n',
                             'files': {'data': '<dir>',
                                       'data/IMG-HH-ALOS2225333200-180726-WWDR1.5RUA': '<1710 '
                                                                                       'bytes>'}},
 'main/cache-root-is-file': {'result': ['raise', 'SystemExit', '1', '(1,)', 'OSError', 1],
                             'events': [['path.is_file',
                                         '<TMP>/data/IMG-HH-ALOS2225333200-180726-WWDR1.5RUA',
                                         [],
                                         []],
                                        ['path.is_dir', '<TMP>/cache', [], []]],
                             'stdout': '',
                             'stderr': 'Cannot find the target cache root: <TMP>/cache\n',
                             'files': {'cache': '<15 bytes>',
                                       'data': '<dir>',
                                       'data/IMG-HH-ALOS2225333200-180726-WWDR1.5RUA': '<1710 '
                                                                                       'bytes>'}},
 'main/missing-both': {'result': ['raise', 'SystemExit', '1', '(1,)', 'FileNotFoundError', 1],
                       'events': [['path.is_file',
                                   '<TMP>/data/IMG-HH-ALOS2225333200-180726-WWDR1.5RUA',
                                   [],
                                   []]],
                       'stdout': '',
                       'stderr': 'Cannot find image file at given path: '
                                 '<TMP>/data/IMG-HH-ALOS2225333200-180726-WWDR1.5RUA\n',
                       'files': {'data': '<dir>'}},
 'main/relative': {'result': ['raise',
                              'ValueError',
                              "relative path can't be expressed as a file URI",
                              '("relative path can\'t be expressed as a file URI",)',
                              None,
                              None],
                   'events': [['path.is_file',
                               'data/IMG-HH-ALOS2225333200-180726-WWDR1.5RUA',
                               [],
                               []]],
                   'stdout': '',
                   'stderr': '',
                   'files': {'data': '<dir>',
                             'data/IMG-HH-ALOS2225333200-180726-WWDR1.5RUA': '<1710 bytes>'}},
 'main/relative-missing-image': {'result': ['raise',
                                            'SystemExit',
                                            '1',
                                            '(1,)',
                                            'FileNotFoundError',
                                            1],
                                 'events': [['path.is_file',
                                             'data/IMG-HH-ALOS2225333200-180726-WWDR1.5RUA',
                                             [],
                                             []]],
                                 'stdout': '',
                                 'stderr': 'Cannot find image file at given path: '
                                           'data/IMG-HH-ALOS2225333200-180726-WWDR1.5RUA\n',
                                 'files': {'data': '<dir>'}},
 'main/relative-missing-cache-root': {'result': ['raise', 'SystemExit', '1', '(1,)', 'OSError', 1],
                                      'events': [['path.is_file',
                                                  'data/IMG-HH-ALOS2225333200-180726-WWDR1.5RUA',
                                                  [],
                                                  []],
                                                 ['path.is_dir', 'cache', [], []]],
                                      'stdout': '',
                                      'stderr': 'Cannot find the target cache root: cache\n',
                                      'files': {'data': '<dir>',
                                                'data/IMG-HH-ALOS2225333200-180726-WWDR1.5RUA': '<1710 '
                                                                                                'bytes>'}},
 'main/relative-cache-root-only': {'result': ['ok', 'None'],
                                   'events': [['path.is_file',
                                               '<TMP>/data/IMG-HH-ALOS2225333200-180726-WWDR1.5RUA',
                                               [],
                                               []],
                                              ['path.is_dir', 'cache', [], []],
                                              ['fsspec.get_mapper', "('file://<TMP>/data',)", '{}'],
                                              ['open_image',
                                               'FSMap',
                                               '<TMP>/data',
                                               "('IMG-HH-ALOS2225333200-180726-WWDR1.5RUA',)",
                                               "{'use_cache': False, 'create_cache': False, "
                                               "'records_per_chunk': 4096}"],
                                              ['caching.encode', 'Group', 'HH'],
                                              ['path.write_text',
                                               'cache/IMG-HH-ALOS2225333200-180726-WWDR1.5RUA.index',
                                               ['<6723 characters>'],
                                               []]],
                                   'stdout': '',
                                   'stderr': '',
                                   'files': {'cache': '<dir>',
                                             'cache/IMG-HH-ALOS2225333200-180726-WWDR1.5RUA.index': {'length': 6712,
                                                                                                     'sha256': 'c0b1baaee7b6a9e6707639a7bc13fed59dc63bf9ef8080990404b2b0b8fe1cd5',
                                                                                                     'head': '{"__type__": '
                                                                                                             '"group", '
                                                                                                             '"url": '
                                                                                                             'null, '
                                                                                                             '"data": '
                                                                                                             '{"rows": '
                                                                                                             '{"__type__": '
                                                                                                             '"variable", '
                                                                                                             '"dims": '
                                                                                                             '["rows"], '
                                                                                                             '"data": '
                                                                                                             '{"__type__": '
                                                                                                             '"array", '
                                                                                                             '"dtype": '
                                                                                                             '"int64", '
                                                                                                             '"data":'},
                                             'data': '<dir>',
                                             'data/IMG-HH-ALOS2225333200-180726-WWDR1.5RUA': '<1710 '
                                                                                             'bytes>'}},
 'main/bad-name': {'result': ['raise',
                              'ValueError',
                              'invalid file name: image.bin',
                              "('invalid file name: image.bin',)",
                              None,
                              None],
                   'events': [['path.is_file', '<TMP>/data/image.bin', [], []],
                              ['fsspec.get_mapper', "('file://<TMP>/data',)", '{}'],
                              ['open_image',
                               'FSMap',
                               '<TMP>/data',
                               "('image.bin',)",
                               "{'use_cache': False, 'create_cache': False, 'records_per_chunk': "
                               '4096}']],
                   'stdout': '',
                   'stderr': '',
                   'files': {'data': '<dir>', 'data/image.bin': '<1710 bytes>'}},
 'main/garbage': {'result': ['raise',
                             'ValueError',
                             "invalid literal for int() with base 10: 'age'",
                             '("invalid literal for int() with base 10: \'age\'",)',
                             None,
                             None],
                  'events': [['path.is_file',
                              '<TMP>/data/IMG-HH-ALOS2225333200-180726-WWDR1.5RUA',
                              [],
                              []],
                             ['fsspec.get_mapper', "('file://<TMP>/data',)", '{}'],
                             ['open_image',
                              'FSMap',
                              '<TMP>/data',
                              "('IMG-HH-ALOS2225333200-180726-WWDR1.5RUA',)",
                              "{'use_cache': False, 'create_cache': False, 'records_per_chunk': "
                              '4096}']],
                  'stdout': '',
                  'stderr': '',
                  'files': {'data': '<dir>',
                            'data/IMG-HH-ALOS2225333200-180726-WWDR1.5RUA': '<1600 bytes>'}},
 'main/empty': {'result': ['raise',
                           'StreamError',
                           'Error in path (parsing) -> preamble -> record_sequence_number\n'
                           'stream read less than specified amount, expected 4, found 0',
                           "('Error in path (parsing) -> preamble -> "
                           'record_sequence_number\\nstream read less than specified amount, '
                           "expected 4, found 0',)",
                           None,
                           None],
                'events': [['path.is_file',
                            '<TMP>/data/IMG-HH-ALOS2225333200-180726-WWDR1.5RUA',
                            [],
                            []],
                           ['fsspec.get_mapper', "('file://<TMP>/data',)", '{}'],
                           ['open_image',
                            'FSMap',
                            '<TMP>/data',
                            "('IMG-HH-ALOS2225333200-180726-WWDR1.5RUA',)",
                            "{'use_cache': False, 'create_cache': False, 'records_per_chunk': "
                            '4096}']],
                'stdout': '',
                'stderr': '',
                'files': {'data': '<dir>',
                          'data/IMG-HH-ALOS2225333200-180726-WWDR1.5RUA': '<0 bytes>'}},
 'main/no-arguments': {'result': ['raise', 'SystemExit', '2', '(2,)', None, 2],
                       'events': [],
                       'stdout': '',
                       'stderr': 'usage: ceos-alos2-create-cache [-h] [--rpc [RPC]] image_path '
                                 '[cache_root]\n'
                                 'ceos-alos2-create-cache: error: the following arguments are '
                                 'required: image_path\n',
                       'files': {'data': '<dir>',
                                 'data/IMG-HH-ALOS2225333200-180726-WWDR1.5RUA': '<1710 bytes>'}},
 'main/too-many-arguments': {'result': ['raise', 'SystemExit', '2', '(2,)', None, 2],
                             'events': [],
                             'stdout': '',
                             'stderr': 'usage: ceos-alos2-create-cache [-h] [--rpc [RPC]] '
                                       'image_path [cache_root]\n'
                                       'ceos-alos2-create-cache: error: unrecognized arguments: '
                                       'x\n',
                             'files': {'cache': '<dir>',
                                       'data': '<dir>',
                                       'data/IMG-HH-ALOS2225333200-180726-WWDR1.5RUA': '<1710 '
                                                                                       'bytes>'}},
 'main/unknown-option': {'result': ['raise', 'SystemExit', '2', '(2,)', None, 2],
                         'events': [],
                         'stdout': '',
                         'stderr': 'usage: ceos-alos2-create-cache [-h] [--rpc [RPC]] image_path '
                                   '[cache_root]\n'
                                   'ceos-alos2-create-cache: error: unrecognized arguments: '
                                   '--unknown\n',
                         'files': {'data': '<dir>',
                                   'data/IMG-HH-ALOS2225333200-180726-WWDR1.5RUA': '<1710 bytes>'}},
 'main/help': {'result': ['raise', 'SystemExit', '0', '(0,)', None, 0],
               'events': [],
               'stdout': 'usage: ceos-alos2-create-cache [-h] [--rpc [RPC]] image_path '
                         '[cache_root]\n'
                         '\n'
                         'positional arguments:\n'
                         '  image_path   image path to create a cache file for\n'
                         '  cache_root   Root path to the new cache file. By default, it is '
                         'created in\n'
                         '               the same directory as the image file.\n'
                         '\n'
                         'options:\n'
                         '  -h, --help   show this help message and exit\n'
                         '  --rpc [RPC]  records-per-chunk size used to create the cache files\n',
               'stderr': '',
               'files': {'data': '<dir>',
                         'data/IMG-HH-ALOS2225333200-180726-WWDR1.5RUA': '<1710 bytes>'}},
 'main/short-help': {'result': ['raise', 'SystemExit', '0', '(0,)', None, 0],
                     'events': [],
                     'stdout': 'usage: ceos-alos2-create-cache [-h] [--rpc [RPC]] image_path '
                               '[cache_root]\n'
                               '\n'
                               'positional arguments:\n'
                               '  image_path   image path to create a cache file for\n'
                               '  cache_root   Root path to the new cache file. By default, it is '
                               'created in\n'
                               '               the same directory as the image file.\n'
                               '\n'
                               'options:\n'
                               '  -h, --help   show this help message and exit\n'
                               '  --rpc [RPC]  records-per-chunk size used to create the cache '
                               'files\n',
                     'stderr': '',
                     'files': {'data': '<dir>',
                               'data/IMG-HH-ALOS2225333200-180726-WWDR1.5RUA': '<1710 bytes>'}},
 'main/empty-image-path': {'result': ['raise', 'SystemExit', '1', '(1,)', 'FileNotFoundError', 1],
                           'events': [['path.is_file', '.', [], []]],
                           'stdout': '',
                           'stderr': 'Cannot find image file at given path: .\n',
                           'files': {'data': '<dir>',
                                     'data/IMG-HH-ALOS2225333200-180726-WWDR1.5RUA': '<1710 '
                                                                                     'bytes>'}},
 'main/signature': ['raise',
                    'TypeError',
                    'main() takes 0 positional arguments but 1 was given',
                    "('main() takes 0 positional arguments but 1 was given',)",
                    None,
                    None]}  # @@EXPECTED@@


def test_equivalence():
    actual = json.loads(json.dumps(collect()))
    expected = json.loads(json.dumps(EXPECTED))

    assert sorted(actual) == sorted(expected)
    mismatches = [key for key in expected if actual[key] != expected[key]]
    for key in mismatches:
        print(f"MISMATCH {key}:\n  expected: {expected[key]!r}\n  actual:   {actual[key]!r}")
    assert not mismatches


if __name__ == "__main__":
    if "--record" in sys.argv:
        import pprint

        print(pprint.pformat(json.loads(json.dumps(collect())), width=100, sort_dicts=False))
    else:
        test_equivalence()
        print(f"OK ({len(EXPECTED)} cases)")
