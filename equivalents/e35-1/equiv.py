"""Equivalence check for refactoring 1 (transformers.item_type / transformers.as_group).

Run as

    cd /tmp/wt5/e35 && PYTHONPATH=/tmp/wt5/e35 /venv/bin/python _eq/1/equiv.py

(or through pytest). The expected snapshots in ``expected.json``-like form at the
bottom of this file were recorded with the UNCHANGED code (``--record`` prints them).
"""

import collections
import json
import sys

import numpy as np

from ceos_alos2 import transformers
from ceos_alos2.hierarchy import Group, Variable


def snap(obj):
    """canonical, order- and type-preserving description of a result"""
    if isinstance(obj, Group):
        return {
            "Group": [obj.path, obj.url, snap(obj.data), snap(obj.attrs)],
        }
    if isinstance(obj, Variable):
        return {"Variable": [snap(obj.dims), snap(obj.data), snap(obj.attrs)]}
    if isinstance(obj, dict):
        return {type(obj).__name__: [[snap(k), snap(v)] for k, v in obj.items()]}
    if isinstance(obj, (list, tuple)):
        return {type(obj).__name__: [snap(v) for v in obj]}
    if isinstance(obj, np.ndarray):
        return {"ndarray": [str(obj.dtype), list(obj.shape), repr(obj.tolist())]}
    return {type(obj).__name__: repr(obj)}


def run(func, *args):
    try:
        result = func(*args)
    except BaseException as e:  # noqa: B902
        return {"raises": [type(e).__name__, str(e)]}
    return {"returns": snap(result)}


Point = collections.namedtuple("Point", ["first", "second"])


class OddMapping:
    def __init__(self, items):
        self._items = items

    def items(self):
        return self._items


def item_type_cases():
    values = {
        "list": [1, 2],
        "empty_list": [],
        "list_of_dicts": [{"a": 1}],
        "dict": {"a": 1},
        "empty_dict": {},
        "ordered_dict": collections.OrderedDict(a=1),
        "tuple2_var": (1, {"units": "m"}),
        "tuple3_var": ("x", [1, 2], {}),
        "tuple_dims_list": (["x"], [1, 2], {}),
        "tuple_group": ({"a": 1}, {"b": 2}),
        "tuple_group_empty": ({}, {}),
        "tuple_group_ordered": (collections.OrderedDict(a=1), {}),
        "tuple1_dict": ({},),
        "tuple1_scalar": (1,),
        "tuple_list_first": ([{"a": 1}], {}),
        "empty_tuple": (),
        "namedtuple_var": Point(1, {}),
        "namedtuple_group": Point({}, {}),
        "str": "abc",
        "empty_str": "",
        "int": 1,
        "zero": 0,
        "float": 1.5,
        "none": None,
        "bool": True,
        "bytes": b"ab",
        "array": np.arange(3),
        "set": {1},
        "frozenset": frozenset({1}),
    }
    cases = {}
    for name, value in values.items():
        cases[f"tuple-item:{name}"] = (("key", value),)
        cases[f"list-item:{name}"] = (["key", value],)
    cases["item:3-tuple"] = (("key", [1], "extra"),)
    cases["item:1-tuple"] = (("key",),)
    cases["item:empty"] = ((),)
    cases["item:str"] = ("ab",)
    cases["item:none"] = (None,)
    return cases


def as_group_cases():
    full = {
        "z_attr": "abc",
        "y_var": (1.5, {"units": "m"}),
        "x_group": {"inner_attr": 1, "inner_var": ("d", [1, 2], {"a": "b"})},
        "w_attr": 0,
        "v_list_var": ["d1", [1, 2, 3], {}],
        "u_group": ({"deep": {"deeper": ({"v": ((), 1, {})}, {"n": None})}}, {"formula": "def"}),
        "t_attr": None,
        "s_var": (["a", "b"], [[1, 2], [3, 4]], {}),
        "r_group": {},
    }
    cases = {
        "empty": ({},),
        "empty_with_attrs": (({}, {"a": 1}),),
        "empty_with_empty_attrs": (({}, {}),),
        "attrs_only": ({"a": 1, "b": "c", "c": None, "d": 1.5, "e": b"x"},),
        "attrs_merge_order": (({"b": 1, "a": 2}, {"c": 3, "a": 4}),),
        "variables_only": ({"b": (1, {}), "a": ("x", [1], {"u": 1})},),
        "groups_only": ({"b": {}, "a": ({}, {"k": "v"})},),
        "interleaved": (full,),
        "interleaved_with_attrs": ((full, {"z_attr": "overridden", "new": 1}),),
        "ordered_dict": (collections.OrderedDict([("g", {}), ("v", (1, {})), ("a", 1)]),),
        "array_var": ({"v": ("x", np.arange(3), {})},),
        "array_attr": ({"a": np.arange(2)},),
        "namedtuple_var": ({"v": Point(1, {"a": 1})},),
        "namedtuple_mapping": (Point({"a": 1}, {"b": 2}),),
        "str_dims": ({"v": ("xyz", [1], {})},),
        # errors
        "bad:empty_tuple_value": ({"a": 1, "v": ()},),
        "bad:var_1tuple": ({"v": (1,)},),
        "bad:var_4tuple": ({"v": (1, 2, 3, 4)},),
        "bad:list_len1": ({"v": [1]},),
        "bad:list_len0": ({"v": []},),
        "bad:list_len4": ({"v": [1, 2, 3, 4]},),
        "list_len2": ({"v": [[1, 2], {"a": 1}]},),
        "bad:group_1tuple": ({"g": ({},)},),
        "bad:group_3tuple": ({"g": ({}, {}, {})},),
        "bad:group_attrs_not_dict": ({"g": ({}, 1)},),
        "bad:mapping_none": (None,),
        "bad:mapping_list": ([("a", 1)],),
        "bad:mapping_str": ("abc",),
        "bad:mapping_3tuple": (({}, {}, {}),),
        "bad:mapping_1tuple": (({},),),
        "bad:mapping_tuple_nondict": ((1, {}),),
        "bad:classification_before_conversion": ({"v": (1,), "w": ()},),
        "bad:conversion_variables_before_groups": ({"g": ({},), "v": (1,)},),
        "bad:nested": ({"g": {"h": {"v": (1, 2, 3, 4)}}},),
        "bad:additional_attrs_none": (({"a": 1}, None),),
        "bad:unhashable_in_attrs_ok": ({"a": {1, 2}},),
        "odd:short_items": (OddMapping([("k",)]),),
        "odd:long_items": (OddMapping([("k", 1, 2)]),),
        "odd:duplicate_names": (OddMapping([("k", 1), ("k", 2), ("v", (1, {})), ("v", (2, {}))]),),
        "odd:iterator_items": (OddMapping(iter([("a", 1), ("v", (1, {})), ("g", {})])),),
        "odd:unhashable_name": (OddMapping([(["k"], 1)]),),
    }
    return cases


def collect():
    results = {}
    for name, args in item_type_cases().items():
        results[f"item_type/{name}"] = run(transformers.item_type, *args)
    for name, args in as_group_cases().items():
        results[f"as_group/{name}"] = run(transformers.as_group, *args)

    # inputs must not be modified
    data = {"a": 1, "v": (1, {"u": "m"}), "g": ({"x": ("d", [1], {})}, {"k": 1})}
    before = json.dumps(snap(data))
    transformers.as_group(data)
    results["as_group/input_unchanged"] = before == json.dumps(snap(data))

    # the group's attrs / data are new objects, the leaves are passed through
    attrs = {"k": 1}
    payload = [1, 2]
    var_attrs = {"u": "m"}
    marker = object()
    group = transformers.as_group(({"v": ("d", payload, var_attrs), "a": marker}, attrs))
    results["as_group/identity"] = [
        group.attrs is attrs,
        group.data["v"].data is payload,
        group.data["v"].attrs is var_attrs,
        group.attrs["a"] is marker,
    ]
    return results


def test_equivalence():
    actual = collect()
    expected = json.loads(EXPECTED)
    assert list(actual) == list(expected)
    for name in expected:
        assert actual[name] == expected[name], name


EXPECTED = r"""
{
 "item_type/tuple-item:list": {
  "returns": {
   "str": "'variable'"
  }
 },
 "item_type/list-item:list": {
  "returns": {
   "str": "'variable'"
  }
 },
 "item_type/tuple-item:empty_list": {
  "returns": {
   "str": "'variable'"
  }
 },
 "item_type/list-item:empty_list": {
  "returns": {
   "str": "'variable'"
  }
 },
 "item_type/tuple-item:list_of_dicts": {
  "returns": {
   "str": "'variable'"
  }
 },
 "item_type/list-item:list_of_dicts": {
  "returns": {
   "str": "'variable'"
  }
 },
 "item_type/tuple-item:dict": {
  "returns": {
   "str": "'group'"
  }
 },
 "item_type/list-item:dict": {
  "returns": {
   "str": "'group'"
  }
 },
 "item_type/tuple-item:empty_dict": {
  "returns": {
   "str": "'group'"
  }
 },
 "item_type/list-item:empty_dict": {
  "returns": {
   "str": "'group'"
  }
 },
 "item_type/tuple-item:ordered_dict": {
  "returns": {
   "str": "'group'"
  }
 },
 "item_type/list-item:ordered_dict": {
  "returns": {
   "str": "'group'"
  }
 },
 "item_type/tuple-item:tuple2_var": {
  "returns": {
   "str": "'variable'"
  }
 },
 "item_type/list-item:tuple2_var": {
  "returns": {
   "str": "'variable'"
  }
 },
 "item_type/tuple-item:tuple3_var": {
  "returns": {
   "str": "'variable'"
  }
 },
 "item_type/list-item:tuple3_var": {
  "returns": {
   "str": "'variable'"
  }
 },
 "item_type/tuple-item:tuple_dims_list": {
  "returns": {
   "str": "'variable'"
  }
 },
 "item_type/list-item:tuple_dims_list": {
  "returns": {
   "str": "'variable'"
  }
 },
 "item_type/tuple-item:tuple_group": {
  "returns": {
   "str": "'group'"
  }
 },
 "item_type/list-item:tuple_group": {
  "returns": {
   "str": "'group'"
  }
 },
 "item_type/tuple-item:tuple_group_empty": {
  "returns": {
   "str": "'group'"
  }
 },
 "item_type/list-item:tuple_group_empty": {
  "returns": {
   "str": "'group'"
  }
 },
 "item_type/tuple-item:tuple_group_ordered": {
  "returns": {
   "str": "'group'"
  }
 },
 "item_type/list-item:tuple_group_ordered": {
  "returns": {
   "str": "'group'"
  }
 },
 "item_type/tuple-item:tuple1_dict": {
  "returns": {
   "str": "'group'"
  }
 },
 "item_type/list-item:tuple1_dict": {
  "returns": {
   "str": "'group'"
  }
 },
 "item_type/tuple-item:tuple1_scalar": {
  "returns": {
   "str": "'variable'"
  }
 },
 "item_type/list-item:tuple1_scalar": {
  "returns": {
   "str": "'variable'"
  }
 },
 "item_type/tuple-item:tuple_list_first": {
  "returns": {
   "str": "'variable'"
  }
 },
 "item_type/list-item:tuple_list_first": {
  "returns": {
   "str": "'variable'"
  }
 },
 "item_type/tuple-item:empty_tuple": {
  "raises": [
   "IndexError",
   "tuple index out of range"
  ]
 },
 "item_type/list-item:empty_tuple": {
  "raises": [
   "IndexError",
   "tuple index out of range"
  ]
 },
 "item_type/tuple-item:namedtuple_var": {
  "returns": {
   "str": "'variable'"
  }
 },
 "item_type/list-item:namedtuple_var": {
  "returns": {
   "str": "'variable'"
  }
 },
 "item_type/tuple-item:namedtuple_group": {
  "returns": {
   "str": "'group'"
  }
 },
 "item_type/list-item:namedtuple_group": {
  "returns": {
   "str": "'group'"
  }
 },
 "item_type/tuple-item:str": {
  "returns": {
   "str": "'attribute'"
  }
 },
 "item_type/list-item:str": {
  "returns": {
   "str": "'attribute'"
  }
 },
 "item_type/tuple-item:empty_str": {
  "returns": {
   "str": "'attribute'"
  }
 },
 "item_type/list-item:empty_str": {
  "returns": {
   "str": "'attribute'"
  }
 },
 "item_type/tuple-item:int": {
  "returns": {
   "str": "'attribute'"
  }
 },
 "item_type/list-item:int": {
  "returns": {
   "str": "'attribute'"
  }
 },
 "item_type/tuple-item:zero": {
  "returns": {
   "str": "'attribute'"
  }
 },
 "item_type/list-item:zero": {
  "returns": {
   "str": "'attribute'"
  }
 },
 "item_type/tuple-item:float": {
  "returns": {
   "str": "'attribute'"
  }
 },
 "item_type/list-item:float": {
  "returns": {
   "str": "'attribute'"
  }
 },
 "item_type/tuple-item:none": {
  "returns": {
   "str": "'attribute'"
  }
 },
 "item_type/list-item:none": {
  "returns": {
   "str": "'attribute'"
  }
 },
 "item_type/tuple-item:bool": {
  "returns": {
   "str": "'attribute'"
  }
 },
 "item_type/list-item:bool": {
  "returns": {
   "str": "'attribute'"
  }
 },
 "item_type/tuple-item:bytes": {
  "returns": {
   "str": "'attribute'"
  }
 },
 "item_type/list-item:bytes": {
  "returns": {
   "str": "'attribute'"
  }
 },
 "item_type/tuple-item:array": {
  "returns": {
   "str": "'attribute'"
  }
 },
 "item_type/list-item:array": {
  "returns": {
   "str": "'attribute'"
  }
 },
 "item_type/tuple-item:set": {
  "returns": {
   "str": "'attribute'"
  }
 },
 "item_type/list-item:set": {
  "returns": {
   "str": "'attribute'"
  }
 },
 "item_type/tuple-item:frozenset": {
  "returns": {
   "str": "'attribute'"
  }
 },
 "item_type/list-item:frozenset": {
  "returns": {
   "str": "'attribute'"
  }
 },
 "item_type/item:3-tuple": {
  "returns": {
   "str": "'variable'"
  }
 },
 "item_type/item:1-tuple": {
  "raises": [
   "StopIteration",
   ""
  ]
 },
 "item_type/item:empty": {
  "raises": [
   "StopIteration",
   ""
  ]
 },
 "item_type/item:str": {
  "returns": {
   "str": "'attribute'"
  }
 },
 "item_type/item:none": {
  "raises": [
   "TypeError",
   "'NoneType' object is not iterable"
  ]
 },
 "as_group/empty": {
  "returns": {
   "Group": [
    "/",
    null,
    {
     "dict": []
    },
    {
     "dict": []
    }
   ]
  }
 },
 "as_group/empty_with_attrs": {
  "returns": {
   "Group": [
    "/",
    null,
    {
     "dict": []
    },
    {
     "dict": [
      [
       {
        "str": "'a'"
       },
       {
        "int": "1"
       }
      ]
     ]
    }
   ]
  }
 },
 "as_group/empty_with_empty_attrs": {
  "returns": {
   "Group": [
    "/",
    null,
    {
     "dict": []
    },
    {
     "dict": []
    }
   ]
  }
 },
 "as_group/attrs_only": {
  "returns": {
   "Group": [
    "/",
    null,
    {
     "dict": []
    },
    {
     "dict": [
      [
       {
        "str": "'a'"
       },
       {
        "int": "1"
       }
      ],
      [
       {
        "str": "'b'"
       },
       {
        "str": "'c'"
       }
      ],
      [
       {
        "str": "'c'"
       },
       {
        "NoneType": "None"
       }
      ],
      [
       {
        "str": "'d'"
       },
       {
        "float": "1.5"
       }
      ],
      [
       {
        "str": "'e'"
       },
       {
        "bytes": "b'x'"
       }
      ]
     ]
    }
   ]
  }
 },
 "as_group/attrs_merge_order": {
  "returns": {
   "Group": [
    "/",
    null,
    {
     "dict": []
    },
    {
     "dict": [
      [
       {
        "str": "'b'"
       },
       {
        "int": "1"
       }
      ],
      [
       {
        "str": "'a'"
       },
       {
        "int": "4"
       }
      ],
      [
       {
        "str": "'c'"
       },
       {
        "int": "3"
       }
      ]
     ]
    }
   ]
  }
 },
 "as_group/variables_only": {
  "returns": {
   "Group": [
    "/",
    null,
    {
     "dict": [
      [
       {
        "str": "'b'"
       },
       {
        "Variable": [
         {
          "tuple": []
         },
         {
          "int": "1"
         },
         {
          "dict": []
         }
        ]
       }
      ],
      [
       {
        "str": "'a'"
       },
       {
        "Variable": [
         {
          "list": [
           {
            "str": "'x'"
           }
          ]
         },
         {
          "list": [
           {
            "int": "1"
           }
          ]
         },
         {
          "dict": [
           [
            {
             "str": "'u'"
            },
            {
             "int": "1"
            }
           ]
          ]
         }
        ]
       }
      ]
     ]
    },
    {
     "dict": []
    }
   ]
  }
 },
 "as_group/groups_only": {
  "returns": {
   "Group": [
    "/",
    null,
    {
     "dict": [
      [
       {
        "str": "'b'"
       },
       {
        "Group": [
         "/b",
         null,
         {
          "dict": []
         },
         {
          "dict": []
         }
        ]
       }
      ],
      [
       {
        "str": "'a'"
       },
       {
        "Group": [
         "/a",
         null,
         {
          "dict": []
         },
         {
          "dict": [
           [
            {
             "str": "'k'"
            },
            {
             "str": "'v'"
            }
           ]
          ]
         }
        ]
       }
      ]
     ]
    },
    {
     "dict": []
    }
   ]
  }
 },
 "as_group/interleaved": {
  "returns": {
   "Group": [
    "/",
    null,
    {
     "dict": [
      [
       {
        "str": "'y_var'"
       },
       {
        "Variable": [
         {
          "tuple": []
         },
         {
          "float": "1.5"
         },
         {
          "dict": [
           [
            {
             "str": "'units'"
            },
            {
             "str": "'m'"
            }
           ]
          ]
         }
        ]
       }
      ],
      [
       {
        "str": "'v_list_var'"
       },
       {
        "Variable": [
         {
          "list": [
           {
            "str": "'d1'"
           }
          ]
         },
         {
          "list": [
           {
            "int": "1"
           },
           {
            "int": "2"
           },
           {
            "int": "3"
           }
          ]
         },
         {
          "dict": []
         }
        ]
       }
      ],
      [
       {
        "str": "'s_var'"
       },
       {
        "Variable": [
         {
          "list": [
           {
            "str": "'a'"
           },
           {
            "str": "'b'"
           }
          ]
         },
         {
          "list": [
           {
            "list": [
             {
              "int": "1"
             },
             {
              "int": "2"
             }
            ]
           },
           {
            "list": [
             {
              "int": "3"
             },
             {
              "int": "4"
             }
            ]
           }
          ]
         },
         {
          "dict": []
         }
        ]
       }
      ],
      [
       {
        "str": "'x_group'"
       },
       {
        "Group": [
         "/x_group",
         null,
         {
          "dict": [
           [
            {
             "str": "'inner_var'"
            },
            {
             "Variable": [
              {
               "list": [
                {
                 "str": "'d'"
                }
               ]
              },
              {
               "list": [
                {
                 "int": "1"
                },
                {
                 "int": "2"
                }
               ]
              },
              {
               "dict": [
                [
                 {
                  "str": "'a'"
                 },
                 {
                  "str": "'b'"
                 }
                ]
               ]
              }
             ]
            }
           ]
          ]
         },
         {
          "dict": [
           [
            {
             "str": "'inner_attr'"
            },
            {
             "int": "1"
            }
           ]
          ]
         }
        ]
       }
      ],
      [
       {
        "str": "'u_group'"
       },
       {
        "Group": [
         "/u_group",
         null,
         {
          "dict": [
           [
            {
             "str": "'deep'"
            },
            {
             "Group": [
              "/u_group/deep",
              null,
              {
               "dict": [
                [
                 {
                  "str": "'deeper'"
                 },
                 {
                  "Group": [
                   "/u_group/deep/deeper",
                   null,
                   {
                    "dict": [
                     [
                      {
                       "str": "'v'"
                      },
                      {
                       "Variable": [
                        {
                         "tuple": []
                        },
                        {
                         "int": "1"
                        },
                        {
                         "dict": []
                        }
                       ]
                      }
                     ]
                    ]
                   },
                   {
                    "dict": [
                     [
                      {
                       "str": "'n'"
                      },
                      {
                       "NoneType": "None"
                      }
                     ]
                    ]
                   }
                  ]
                 }
                ]
               ]
              },
              {
               "dict": []
              }
             ]
            }
           ]
          ]
         },
         {
          "dict": [
           [
            {
             "str": "'formula'"
            },
            {
             "str": "'def'"
            }
           ]
          ]
         }
        ]
       }
      ],
      [
       {
        "str": "'r_group'"
       },
       {
        "Group": [
         "/r_group",
         null,
         {
          "dict": []
         },
         {
          "dict": []
         }
        ]
       }
      ]
     ]
    },
    {
     "dict": [
      [
       {
        "str": "'z_attr'"
       },
       {
        "str": "'abc'"
       }
      ],
      [
       {
        "str": "'w_attr'"
       },
       {
        "int": "0"
       }
      ],
      [
       {
        "str": "'t_attr'"
       },
       {
        "NoneType": "None"
       }
      ]
     ]
    }
   ]
  }
 },
 "as_group/interleaved_with_attrs": {
  "returns": {
   "Group": [
    "/",
    null,
    {
     "dict": [
      [
       {
        "str": "'y_var'"
       },
       {
        "Variable": [
         {
          "tuple": []
         },
         {
          "float": "1.5"
         },
         {
          "dict": [
           [
            {
             "str": "'units'"
            },
            {
             "str": "'m'"
            }
           ]
          ]
         }
        ]
       }
      ],
      [
       {
        "str": "'v_list_var'"
       },
       {
        "Variable": [
         {
          "list": [
           {
            "str": "'d1'"
           }
          ]
         },
         {
          "list": [
           {
            "int": "1"
           },
           {
            "int": "2"
           },
           {
            "int": "3"
           }
          ]
         },
         {
          "dict": []
         }
        ]
       }
      ],
      [
       {
        "str": "'s_var'"
       },
       {
        "Variable": [
         {
          "list": [
           {
            "str": "'a'"
           },
           {
            "str": "'b'"
           }
          ]
         },
         {
          "list": [
           {
            "list": [
             {
              "int": "1"
             },
             {
              "int": "2"
             }
            ]
           },
           {
            "list": [
             {
              "int": "3"
             },
             {
              "int": "4"
             }
            ]
           }
          ]
         },
         {
          "dict": []
         }
        ]
       }
      ],
      [
       {
        "str": "'x_group'"
       },
       {
        "Group": [
         "/x_group",
         null,
         {
          "dict": [
           [
            {
             "str": "'inner_var'"
            },
            {
             "Variable": [
              {
               "list": [
                {
                 "str": "'d'"
                }
               ]
              },
              {
               "list": [
                {
                 "int": "1"
                },
                {
                 "int": "2"
                }
               ]
              },
              {
               "dict": [
                [
                 {
                  "str": "'a'"
                 },
                 {
                  "str": "'b'"
                 }
                ]
               ]
              }
             ]
            }
           ]
          ]
         },
         {
          "dict": [
           [
            {
             "str": "'inner_attr'"
            },
            {
             "int": "1"
            }
           ]
          ]
         }
        ]
       }
      ],
      [
       {
        "str": "'u_group'"
       },
       {
        "Group": [
         "/u_group",
         null,
         {
          "dict": [
           [
            {
             "str": "'deep'"
            },
            {
             "Group": [
              "/u_group/deep",
              null,
              {
               "dict": [
                [
                 {
                  "str": "'deeper'"
                 },
                 {
                  "Group": [
                   "/u_group/deep/deeper",
                   null,
                   {
                    "dict": [
                     [
                      {
                       "str": "'v'"
                      },
                      {
                       "Variable": [
                        {
                         "tuple": []
                        },
                        {
                         "int": "1"
                        },
                        {
                         "dict": []
                        }
                       ]
                      }
                     ]
                    ]
                   },
                   {
                    "dict": [
                     [
                      {
                       "str": "'n'"
                      },
                      {
                       "NoneType": "None"
                      }
                     ]
                    ]
                   }
                  ]
                 }
                ]
               ]
              },
              {
               "dict": []
              }
             ]
            }
           ]
          ]
         },
         {
          "dict": [
           [
            {
             "str": "'formula'"
            },
            {
             "str": "'def'"
            }
           ]
          ]
         }
        ]
       }
      ],
      [
       {
        "str": "'r_group'"
       },
       {
        "Group": [
         "/r_group",
         null,
         {
          "dict": []
         },
         {
          "dict": []
         }
        ]
       }
      ]
     ]
    },
    {
     "dict": [
      [
       {
        "str": "'z_attr'"
       },
       {
        "str": "'overridden'"
       }
      ],
      [
       {
        "str": "'w_attr'"
       },
       {
        "int": "0"
       }
      ],
      [
       {
        "str": "'t_attr'"
       },
       {
        "NoneType": "None"
       }
      ],
      [
       {
        "str": "'new'"
       },
       {
        "int": "1"
       }
      ]
     ]
    }
   ]
  }
 },
 "as_group/ordered_dict": {
  "returns": {
   "Group": [
    "/",
    null,
    {
     "dict": [
      [
       {
        "str": "'v'"
       },
       {
        "Variable": [
         {
          "tuple": []
         },
         {
          "int": "1"
         },
         {
          "dict": []
         }
        ]
       }
      ],
      [
       {
        "str": "'g'"
       },
       {
        "Group": [
         "/g",
         null,
         {
          "dict": []
         },
         {
          "dict": []
         }
        ]
       }
      ]
     ]
    },
    {
     "dict": [
      [
       {
        "str": "'a'"
       },
       {
        "int": "1"
       }
      ]
     ]
    }
   ]
  }
 },
 "as_group/array_var": {
  "returns": {
   "Group": [
    "/",
    null,
    {
     "dict": [
      [
       {
        "str": "'v'"
       },
       {
        "Variable": [
         {
          "list": [
           {
            "str": "'x'"
           }
          ]
         },
         {
          "ndarray": [
           "int64",
           [
            3
           ],
           "[0, 1, 2]"
          ]
         },
         {
          "dict": []
         }
        ]
       }
      ]
     ]
    },
    {
     "dict": []
    }
   ]
  }
 },
 "as_group/array_attr": {
  "returns": {
   "Group": [
    "/",
    null,
    {
     "dict": []
    },
    {
     "dict": [
      [
       {
        "str": "'a'"
       },
       {
        "ndarray": [
         "int64",
         [
          2
         ],
         "[0, 1]"
        ]
       }
      ]
     ]
    }
   ]
  }
 },
 "as_group/namedtuple_var": {
  "returns": {
   "Group": [
    "/",
    null,
    {
     "dict": [
      [
       {
        "str": "'v'"
       },
       {
        "Variable": [
         {
          "tuple": []
         },
         {
          "int": "1"
         },
         {
          "dict": [
           [
            {
             "str": "'a'"
            },
            {
             "int": "1"
            }
           ]
          ]
         }
        ]
       }
      ]
     ]
    },
    {
     "dict": []
    }
   ]
  }
 },
 "as_group/namedtuple_mapping": {
  "returns": {
   "Group": [
    "/",
    null,
    {
     "dict": []
    },
    {
     "dict": [
      [
       {
        "str": "'a'"
       },
       {
        "int": "1"
       }
      ],
      [
       {
        "str": "'b'"
       },
       {
        "int": "2"
       }
      ]
     ]
    }
   ]
  }
 },
 "as_group/str_dims": {
  "returns": {
   "Group": [
    "/",
    null,
    {
     "dict": [
      [
       {
        "str": "'v'"
       },
       {
        "Variable": [
         {
          "list": [
           {
            "str": "'xyz'"
           }
          ]
         },
         {
          "list": [
           {
            "int": "1"
           }
          ]
         },
         {
          "dict": []
         }
        ]
       }
      ]
     ]
    },
    {
     "dict": []
    }
   ]
  }
 },
 "as_group/bad:empty_tuple_value": {
  "raises": [
   "IndexError",
   "tuple index out of range"
  ]
 },
 "as_group/bad:var_1tuple": {
  "raises": [
   "ValueError",
   "not enough values to unpack (expected 3, got 1)"
  ]
 },
 "as_group/bad:var_4tuple": {
  "raises": [
   "ValueError",
   "too many values to unpack (expected 3)"
  ]
 },
 "as_group/bad:list_len1": {
  "raises": [
   "ValueError",
   "not enough values to unpack (expected 3, got 1)"
  ]
 },
 "as_group/bad:list_len0": {
  "raises": [
   "ValueError",
   "not enough values to unpack (expected 3, got 0)"
  ]
 },
 "as_group/bad:list_len4": {
  "raises": [
   "ValueError",
   "too many values to unpack (expected 3)"
  ]
 },
 "as_group/list_len2": {
  "returns": {
   "Group": [
    "/",
    null,
    {
     "dict": [
      [
       {
        "str": "'v'"
       },
       {
        "Variable": [
         {
          "tuple": []
         },
         {
          "list": [
           {
            "int": "1"
           },
           {
            "int": "2"
           }
          ]
         },
         {
          "dict": [
           [
            {
             "str": "'a'"
            },
            {
             "int": "1"
            }
           ]
          ]
         }
        ]
       }
      ]
     ]
    },
    {
     "dict": []
    }
   ]
  }
 },
 "as_group/bad:group_1tuple": {
  "raises": [
   "ValueError",
   "not enough values to unpack (expected 2, got 1)"
  ]
 },
 "as_group/bad:group_3tuple": {
  "raises": [
   "ValueError",
   "too many values to unpack (expected 2)"
  ]
 },
 "as_group/bad:group_attrs_not_dict": {
  "raises": [
   "TypeError",
   "unsupported operand type(s) for |: 'dict' and 'int'"
  ]
 },
 "as_group/bad:mapping_none": {
  "raises": [
   "AttributeError",
   "'NoneType' object has no attribute 'items'"
  ]
 },
 "as_group/bad:mapping_list": {
  "raises": [
   "AttributeError",
   "'list' object has no attribute 'items'"
  ]
 },
 "as_group/bad:mapping_str": {
  "raises": [
   "AttributeError",
   "'str' object has no attribute 'items'"
  ]
 },
 "as_group/bad:mapping_3tuple": {
  "raises": [
   "ValueError",
   "too many values to unpack (expected 2)"
  ]
 },
 "as_group/bad:mapping_1tuple": {
  "raises": [
   "ValueError",
   "not enough values to unpack (expected 2, got 1)"
  ]
 },
 "as_group/bad:mapping_tuple_nondict": {
  "raises": [
   "AttributeError",
   "'int' object has no attribute 'items'"
  ]
 },
 "as_group/bad:classification_before_conversion": {
  "raises": [
   "IndexError",
   "tuple index out of range"
  ]
 },
 "as_group/bad:conversion_variables_before_groups": {
  "raises": [
   "ValueError",
   "not enough values to unpack (expected 3, got 1)"
  ]
 },
 "as_group/bad:nested": {
  "raises": [
   "ValueError",
   "too many values to unpack (expected 3)"
  ]
 },
 "as_group/bad:additional_attrs_none": {
  "raises": [
   "TypeError",
   "unsupported operand type(s) for |: 'dict' and 'NoneType'"
  ]
 },
 "as_group/bad:unhashable_in_attrs_ok": {
  "returns": {
   "Group": [
    "/",
    null,
    {
     "dict": []
    },
    {
     "dict": [
      [
       {
        "str": "'a'"
       },
       {
        "set": "{1, 2}"
       }
      ]
     ]
    }
   ]
  }
 },
 "as_group/odd:short_items": {
  "raises": [
   "StopIteration",
   ""
  ]
 },
 "as_group/odd:long_items": {
  "raises": [
   "ValueError",
   "dictionary update sequence element #0 has length 3; 2 is required"
  ]
 },
 "as_group/odd:duplicate_names": {
  "returns": {
   "Group": [
    "/",
    null,
    {
     "dict": [
      [
       {
        "str": "'v'"
       },
       {
        "Variable": [
         {
          "tuple": []
         },
         {
          "int": "2"
         },
         {
          "dict": []
         }
        ]
       }
      ]
     ]
    },
    {
     "dict": [
      [
       {
        "str": "'k'"
       },
       {
        "int": "2"
       }
      ]
     ]
    }
   ]
  }
 },
 "as_group/odd:iterator_items": {
  "returns": {
   "Group": [
    "/",
    null,
    {
     "dict": [
      [
       {
        "str": "'v'"
       },
       {
        "Variable": [
         {
          "tuple": []
         },
         {
          "int": "1"
         },
         {
          "dict": []
         }
        ]
       }
      ],
      [
       {
        "str": "'g'"
       },
       {
        "Group": [
         "/g",
         null,
         {
          "dict": []
         },
         {
          "dict": []
         }
        ]
       }
      ]
     ]
    },
    {
     "dict": [
      [
       {
        "str": "'a'"
       },
       {
        "int": "1"
       }
      ]
     ]
    }
   ]
  }
 },
 "as_group/odd:unhashable_name": {
  "raises": [
   "TypeError",
   "unhashable type: 'list'"
  ]
 },
 "as_group/input_unchanged": true,
 "as_group/identity": [
  false,
  true,
  true,
  true
 ]
}
"""

if __name__ == "__main__":
    if "--record" in sys.argv:
        print(json.dumps(collect(), indent=1, ensure_ascii=True))
    else:
        test_equivalence()
        print(f"ok: {len(json.loads(EXPECTED))} snapshots identical")
