"""Equivalence check for refactoring 1 (ceos_alos2/sar_image/caching/encoders.py).

Run: PYTHONPATH=/tmp/wt13/e103 /venv/bin/python _eq/1/equiv.py
(`--record` prints the observed list; EXPECTED below was recorded on unchanged HEAD.)
"""

import collections
import datetime
import sys

import fsspec
import numpy as np
from fsspec.implementations.dirfs import DirFileSystem

from ceos_alos2.array import Array
from ceos_alos2.hierarchy import Group, Variable
from ceos_alos2.sar_image.caching import encoders


def describe(obj):
    """repr including the exact types at every level"""
    if isinstance(obj, dict):
        inner = ", ".join(f"{describe(k)}: {describe(v)}" for k, v in obj.items())
        return f"{type(obj).__name__}{{{inner}}}"
    if isinstance(obj, (list, tuple)):
        inner = ", ".join(describe(v) for v in obj)
        return f"{type(obj).__name__}[{inner}]"
    if isinstance(obj, np.ndarray):
        return f"ndarray<{obj.dtype}|{obj.shape}|{obj.tolist()!r}>"
    return f"{type(obj).__name__}({obj!r})"


def run(func, *args):
    try:
        return "ok: " + describe(func(*args))
    except Exception as e:  # noqa: BLE001
        chain = type(e.__cause__).__name__ if e.__cause__ is not None else None
        return f"err: {type(e).__name__}: {e} (cause={chain})"


Point = collections.namedtuple("Point", ["x", "y"])


class MyList(list):
    pass


class Weird:
    # has neither .data nor .tolist
    def __repr__(self):
        return "Weird()"


def make_array(records_per_chunk=None, dtype="uint16", type_code="IU2"):
    fs = DirFileSystem(path="/root-dir", fs=fsspec.filesystem("memory"))
    return Array(
        fs=fs,
        url="image",
        byte_ranges=[(0, 4), (10, 14), (20, 24)],
        shape=(3, 2),
        dtype=dtype,
        type_code=type_code,
        records_per_chunk=records_per_chunk,
    )


def array_inputs():
    return [
        [1, 2, 3],
        [],
        3,
        2.5,
        "abc",
        None,
        np.array([1.5, np.nan, np.inf]),
        np.arange(6, dtype="int8").reshape(2, 3),
        np.array([], dtype="float32"),
        np.array([True, False]),
        np.array(["a", "bc"]),
        np.array([b"a", b"bc"]),
        np.array([1 + 2j, 3j], dtype="complex64"),
        np.array([{"a": 1}, (1, 2)], dtype=object),
        np.array([1, 2, 3], dtype="timedelta64[s]"),
        np.array([[1, 2], [3, 4]], dtype="timedelta64[ns]"),
        np.array([1, 2], dtype="timedelta64[5m]"),
        np.array([1, 2], dtype="timedelta64"),
        np.array([], dtype="timedelta64[ms]"),
        np.array(7, dtype="timedelta64[h]"),
        np.array([1, "NaT"], dtype="timedelta64[s]"),
        [datetime.timedelta(seconds=1), datetime.timedelta(days=2)],
        np.array(["2020-01-01T00:00:00", "2020-01-01T00:00:01.5"], dtype="datetime64[ns]"),
        np.array(["2020-01-01", "2019-12-31"], dtype="datetime64[D]"),
        np.array(["2020-01-01T00:00:00", "2020-01-01T00:00:20"], dtype="datetime64[10s]"),
        np.array([["2020-01-01", "2020-01-02"], ["2021-01-01", "2021-01-02"]], dtype="M8[s]"),
        np.array([], dtype="datetime64[s]"),
        np.array("2020-01-01", dtype="datetime64[s]"),
        np.array(["NaT", "2020-01-01"], dtype="datetime64[s]"),
        np.array(["2020-01-01", "NaT"], dtype="datetime64[s]"),
        np.array(["2020-01-01"], dtype="datetime64"),
        [datetime.datetime(2020, 1, 1), datetime.datetime(2020, 1, 2, 3)],
        np.datetime64("2020-01-01", "s"),
        np.timedelta64(3, "s"),
        np.array([(1, 2.0)], dtype=[("a", "i4"), ("b", "f8")]),
        make_array(),
        make_array(records_per_chunk=2),
        make_array(dtype=np.dtype("complex64"), type_code="C*8"),
        Weird(),
    ]


def make_tree():
    sub2 = Group(
        path=None,
        url=None,
        data={"t": Variable("t", np.array([0, 5], dtype="m8[ms]"), {})},
        attrs={"deep": (1, 2)},
    )
    sub = Group(
        path="ignored",
        url="s3://bucket/other",
        data={
            "x": Variable(["x"], np.array([1, 2, 3]), {"units": "m"}),
            "sub2": sub2,
        },
        attrs={},
    )
    return Group(
        path=None,
        url="file:///a/b",
        data={
            "time": Variable(
                "time", np.array(["2020-01-01", "2020-01-03"], dtype="M8[ns]"), {"a": 1}
            ),
            "sub": sub,
            "image": Variable(["rows", "cols"], make_array(), {"k": [1, (2, 3)]}),
            "empty": Group(path=None, url=None, data={}, attrs={}),
        },
        attrs={"name": "root", "coords": ("a", "b")},
    )


def observe():
    out = []
    for index, value in enumerate(array_inputs()):
        out.append(f"encode_array[{index}] " + run(encoders.encode_array, value))

    variables = [
        Variable("x", [1, 2], {}),
        Variable(["x", "y"], np.zeros((1, 2)), {"a": {"b": (1,)}}),
        Variable(["t"], np.array([1, 2], dtype="m8[us]"), {}),
        Variable(["t"], np.array([], dtype="M8[us]"), {}),
        Variable(["rows", "cols"], make_array(records_per_chunk=1), {"x": 1}),
        Weird(),
    ]
    for index, var in enumerate(variables):
        out.append(f"encode_variable[{index}] " + run(encoders.encode_variable, var))

    tree = make_tree()
    bad = Group(path="/", url="u", data={}, attrs={})
    bad.data = {"a": 1}  # bypass adjustment: entry is neither group nor variable
    bad2 = Group(path="/", url="u", data={}, attrs={})
    bad2.data = None
    groups = [tree, tree["sub"], tree["empty"], bad, bad2, Weird()]
    for index, group in enumerate(groups):
        out.append(f"encode_group[{index}] " + run(encoders.encode_group, group))

    others = [tree, variables[0], variables[2], {"a": tree}, [tree], None, 1, "s", (1, 2), Weird()]
    for index, obj in enumerate(others):
        out.append(f"encode_hierarchy[{index}] " + run(encoders.encode_hierarchy, obj))
    sentinel = object()
    assert encoders.encode_hierarchy(sentinel) is sentinel

    gen = (i for i in range(2))
    data = [
        {},
        [],
        (),
        {"a": (1, 2), "b": [(), [()], {"c": ((1,),)}]},
        (1, [2, (3, {"k": (4,)})]),
        Point(1, (2, 3)),
        collections.OrderedDict([("z", (1,)), ("a", [Point(0, 0)])]),
        MyList([(1,), 2]),
        {1: (2,), (3, 4): (5,)},
        "abc",
        b"ab",
        None,
        1.5,
        {1, 2},
        frozenset([(1, 2)]),
        np.array([1, 2]),
        range(3),
        {"__type__": "tuple", "data": (1, 2)},
        encoders.encode_group(tree),
        [[[[(((),),)]]]],
    ]
    for index, obj in enumerate(data):
        out.append(f"preprocess[{index}] " + run(encoders.preprocess, obj))
    assert encoders.preprocess(gen) is gen
    arr = np.array([1])
    assert encoders.preprocess(arr) is arr

    # inputs are not modified, results are fresh objects
    original = {"a": [1, (2,)], "b": {"c": []}}
    result = encoders.preprocess(original)
    assert original == {"a": [1, (2,)], "b": {"c": []}}
    assert result is not original and result["a"] is not original["a"]
    assert result["b"] is not original["b"] and result["b"]["c"] is not original["b"]["c"]

    # every call gets its own encoding dict
    first = encoders.encode_array([1])
    second = encoders.encode_array([1])
    assert first["encoding"] == {} and first["encoding"] is not second["encoding"]

    # attrs / dims / byte ranges are passed through by identity
    var = variables[4]
    enc = encoders.encode_variable(var)
    assert enc["attrs"] is var.attrs and enc["dims"] is var.dims
    assert enc["data"]["byte_ranges"] is var.data.byte_ranges
    enc = encoders.encode_group(tree)
    assert enc["attrs"] is tree.attrs and type(enc["data"]) is dict
    assert list(enc["data"]) == ["time", "sub", "image", "empty"]

    # public names stay importable
    for name in [
        "encode_timedelta",
        "encode_datetime",
        "encode_array",
        "encode_variable",
        "encode_group",
        "encode_hierarchy",
        "preprocess",
        "Array",
        "Group",
        "Variable",
        "valmap",
        "np",
    ]:
        assert hasattr(encoders, name), name

    return out


EXPECTED = [
    # fmt: off
    "encode_array[0] ok: dict{str('__type__'): str('array'), str('dtype'): str('int64'), str('data'): list[int(1), int(2), int(3)], str('encoding'): dict{}}",
    "encode_array[1] ok: dict{str('__type__'): str('array'), str('dtype'): str('float64'), str('data'): list[], str('encoding'): dict{}}",
    "encode_array[2] ok: dict{str('__type__'): str('array'), str('dtype'): str('int64'), str('data'): int(3), str('encoding'): dict{}}",
    "encode_array[3] ok: dict{str('__type__'): str('array'), str('dtype'): str('float64'), str('data'): float(2.5), str('encoding'): dict{}}",
    "encode_array[4] ok: dict{str('__type__'): str('array'), str('dtype'): str('<U3'), str('data'): str('abc'), str('encoding'): dict{}}",
    "encode_array[5] ok: dict{str('__type__'): str('array'), str('dtype'): str('object'), str('data'): NoneType(None), str('encoding'): dict{}}",
    "encode_array[6] ok: dict{str('__type__'): str('array'), str('dtype'): str('float64'), str('data'): list[float(1.5), float(nan), float(inf)], str('encoding'): dict{}}",
    "encode_array[7] ok: dict{str('__type__'): str('array'), str('dtype'): str('int8'), str('data'): list[list[int(0), int(1), int(2)], list[int(3), int(4), int(5)]], str('encoding'): dict{}}",
    "encode_array[8] ok: dict{str('__type__'): str('array'), str('dtype'): str('float32'), str('data'): list[], str('encoding'): dict{}}",
    "encode_array[9] ok: dict{str('__type__'): str('array'), str('dtype'): str('bool'), str('data'): list[bool(True), bool(False)], str('encoding'): dict{}}",
    "encode_array[10] ok: dict{str('__type__'): str('array'), str('dtype'): str('<U2'), str('data'): list[str('a'), str('bc')], str('encoding'): dict{}}",
    "encode_array[11] ok: dict{str('__type__'): str('array'), str('dtype'): str('|S2'), str('data'): list[bytes(b'a'), bytes(b'bc')], str('encoding'): dict{}}",
    "encode_array[12] ok: dict{str('__type__'): str('array'), str('dtype'): str('complex64'), str('data'): list[complex((1+2j)), complex(3j)], str('encoding'): dict{}}",
    "encode_array[13] ok: dict{str('__type__'): str('array'), str('dtype'): str('object'), str('data'): list[dict{str('a'): int(1)}, tuple[int(1), int(2)]], str('encoding'): dict{}}",
    "encode_array[14] ok: dict{str('__type__'): str('array'), str('dtype'): str('timedelta64[s]'), str('data'): list[int(1), int(2), int(3)], str('encoding'): dict{str('units'): str('s')}}",
    "encode_array[15] ok: dict{str('__type__'): str('array'), str('dtype'): str('timedelta64[ns]'), str('data'): list[list[int(1), int(2)], list[int(3), int(4)]], str('encoding'): dict{str('units'): str('ns')}}",
    "encode_array[16] ok: dict{str('__type__'): str('array'), str('dtype'): str('timedelta64[5m]'), str('data'): list[int(1), int(2)], str('encoding'): dict{str('units'): str('m')}}",
    "encode_array[17] ok: dict{str('__type__'): str('array'), str('dtype'): str('timedelta64'), str('data'): list[int(1), int(2)], str('encoding'): dict{str('units'): str('generic')}}",
    "encode_array[18] ok: dict{str('__type__'): str('array'), str('dtype'): str('timedelta64[ms]'), str('data'): list[], str('encoding'): dict{str('units'): str('ms')}}",
    "encode_array[19] ok: dict{str('__type__'): str('array'), str('dtype'): str('timedelta64[h]'), str('data'): int(7), str('encoding'): dict{str('units'): str('h')}}",
    "encode_array[20] ok: dict{str('__type__'): str('array'), str('dtype'): str('timedelta64[s]'), str('data'): list[int(1), int(-9223372036854775808)], str('encoding'): dict{str('units'): str('s')}}",
    "encode_array[21] ok: dict{str('__type__'): str('array'), str('dtype'): str('object'), str('data'): list[timedelta(datetime.timedelta(seconds=1)), timedelta(datetime.timedelta(days=2))], str('encoding'): dict{}}",
    "encode_array[22] ok: dict{str('__type__'): str('array'), str('dtype'): str('datetime64[ns]'), str('data'): list[int(0), int(1500000000)], str('encoding'): dict{str('reference'): str('2020-01-01T00:00:00.000000000'), str('units'): str('ns')}}",
    "encode_array[23] ok: dict{str('__type__'): str('array'), str('dtype'): str('datetime64[D]'), str('data'): list[int(0), int(-1)], str('encoding'): dict{str('reference'): str('2020-01-01'), str('units'): str('D')}}",
    "encode_array[24] ok: dict{str('__type__'): str('array'), str('dtype'): str('datetime64[10s]'), str('data'): list[int(0), int(2)], str('encoding'): dict{str('reference'): str('2020-01-01T00:00:00'), str('units'): str('10s')}}",
    'encode_array[25] ok: dict{str(\'__type__\'): str(\'array\'), str(\'dtype\'): str(\'datetime64[s]\'), str(\'data\'): list[list[int(0), int(0)], list[int(31622400), int(31622400)]], str(\'encoding\'): dict{str(\'reference\'): str("[\'2020-01-01T00:00:00\' \'2020-01-02T00:00:00\']"), str(\'units\'): str(\'s\')}}',
    'encode_array[26] err: IndexError: index 0 is out of bounds for axis 0 with size 0 (cause=None)',
    'encode_array[27] err: IndexError: too many indices for array: array is 0-dimensional, but 1 were indexed (cause=None)',
    "encode_array[28] ok: dict{str('__type__'): str('array'), str('dtype'): str('datetime64[s]'), str('data'): list[int(-9223372036854775808), int(-9223372036854775808)], str('encoding'): dict{str('reference'): str('NaT'), str('units'): str('s')}}",
    "encode_array[29] ok: dict{str('__type__'): str('array'), str('dtype'): str('datetime64[s]'), str('data'): list[int(0), int(-9223372036854775808)], str('encoding'): dict{str('reference'): str('2020-01-01T00:00:00'), str('units'): str('s')}}",
    "encode_array[30] ok: dict{str('__type__'): str('array'), str('dtype'): str('datetime64[D]'), str('data'): list[int(0)], str('encoding'): dict{str('reference'): str('2020-01-01'), str('units'): str('D')}}",
    "encode_array[31] ok: dict{str('__type__'): str('array'), str('dtype'): str('object'), str('data'): list[datetime(datetime.datetime(2020, 1, 1, 0, 0)), datetime(datetime.datetime(2020, 1, 2, 3, 0))], str('encoding'): dict{}}",
    'encode_array[32] err: IndexError: too many indices for array: array is 0-dimensional, but 1 were indexed (cause=None)',
    "encode_array[33] ok: dict{str('__type__'): str('array'), str('dtype'): str('timedelta64[s]'), str('data'): int(3), str('encoding'): dict{str('units'): str('s')}}",
    'encode_array[34] ok: dict{str(\'__type__\'): str(\'array\'), str(\'dtype\'): str("[(\'a\', \'<i4\'), (\'b\', \'<f8\')]"), str(\'data\'): list[tuple[int(1), float(2.0)]], str(\'encoding\'): dict{}}',
    "encode_array[35] ok: dict{str('__type__'): str('backend_array'), str('root'): str('/root-dir'), str('url'): str('image'), str('shape'): tuple[int(3), int(2)], str('dtype'): str('uint16'), str('byte_ranges'): list[tuple[int(0), int(4)], tuple[int(10), int(14)], tuple[int(20), int(24)]], str('type_code'): str('IU2')}",
    "encode_array[36] ok: dict{str('__type__'): str('backend_array'), str('root'): str('/root-dir'), str('url'): str('image'), str('shape'): tuple[int(3), int(2)], str('dtype'): str('uint16'), str('byte_ranges'): list[tuple[int(0), int(4)], tuple[int(10), int(14)], tuple[int(20), int(24)]], str('type_code'): str('IU2')}",
    "encode_array[37] ok: dict{str('__type__'): str('backend_array'), str('root'): str('/root-dir'), str('url'): str('image'), str('shape'): tuple[int(3), int(2)], str('dtype'): str('complex64'), str('byte_ranges'): list[tuple[int(0), int(4)], tuple[int(10), int(14)], tuple[int(20), int(24)]], str('type_code'): str('C*8')}",
    "encode_array[38] ok: dict{str('__type__'): str('array'), str('dtype'): str('object'), str('data'): Weird(Weird()), str('encoding'): dict{}}",
    "encode_variable[0] ok: dict{str('__type__'): str('variable'), str('dims'): list[str('x')], str('data'): dict{str('__type__'): str('array'), str('dtype'): str('int64'), str('data'): list[int(1), int(2)], str('encoding'): dict{}}, str('attrs'): dict{}}",
    "encode_variable[1] ok: dict{str('__type__'): str('variable'), str('dims'): list[str('x'), str('y')], str('data'): dict{str('__type__'): str('array'), str('dtype'): str('float64'), str('data'): list[list[float(0.0), float(0.0)]], str('encoding'): dict{}}, str('attrs'): dict{str('a'): dict{str('b'): tuple[int(1)]}}}",
    "encode_variable[2] ok: dict{str('__type__'): str('variable'), str('dims'): list[str('t')], str('data'): dict{str('__type__'): str('array'), str('dtype'): str('timedelta64[us]'), str('data'): list[int(1), int(2)], str('encoding'): dict{str('units'): str('us')}}, str('attrs'): dict{}}",
    'encode_variable[3] err: IndexError: index 0 is out of bounds for axis 0 with size 0 (cause=None)',
    "encode_variable[4] ok: dict{str('__type__'): str('variable'), str('dims'): list[str('rows'), str('cols')], str('data'): dict{str('__type__'): str('backend_array'), str('root'): str('/root-dir'), str('url'): str('image'), str('shape'): tuple[int(3), int(2)], str('dtype'): str('uint16'), str('byte_ranges'): list[tuple[int(0), int(4)], tuple[int(10), int(14)], tuple[int(20), int(24)]], str('type_code'): str('IU2')}, str('attrs'): dict{str('x'): int(1)}}",
    "encode_variable[5] err: AttributeError: 'Weird' object has no attribute 'data' (cause=None)",
    "encode_group[0] ok: dict{str('__type__'): str('group'), str('url'): str('file:///a/b'), str('data'): dict{str('time'): dict{str('__type__'): str('variable'), str('dims'): list[str('time')], str('data'): dict{str('__type__'): str('array'), str('dtype'): str('datetime64[ns]'), str('data'): list[int(0), int(172800000000000)], str('encoding'): dict{str('reference'): str('2020-01-01T00:00:00.000000000'), str('units'): str('ns')}}, str('attrs'): dict{str('a'): int(1)}}, str('sub'): dict{str('__type__'): str('group'), str('url'): str('s3://bucket/other'), str('data'): dict{str('x'): dict{str('__type__'): str('variable'), str('dims'): list[str('x')], str('data'): dict{str('__type__'): str('array'), str('dtype'): str('int64'), str('data'): list[int(1), int(2), int(3)], str('encoding'): dict{}}, str('attrs'): dict{str('units'): str('m')}}, str('sub2'): dict{str('__type__'): str('group'), str('url'): str('s3://bucket/other'), str('data'): dict{str('t'): dict{str('__type__'): str('variable'), str('dims'): list[str('t')], str('data'): dict{str('__type__'): str('array'), str('dtype'): str('timedelta64[ms]'), str('data'): list[int(0), int(5)], str('encoding'): dict{str('units'): str('ms')}}, str('attrs'): dict{}}}, str('path'): str('/sub/sub2'), str('attrs'): dict{str('deep'): tuple[int(1), int(2)]}}}, str('path'): str('/sub'), str('attrs'): dict{}}, str('image'): dict{str('__type__'): str('variable'), str('dims'): list[str('rows'), str('cols')], str('data'): dict{str('__type__'): str('backend_array'), str('root'): str('/root-dir'), str('url'): str('image'), str('shape'): tuple[int(3), int(2)], str('dtype'): str('uint16'), str('byte_ranges'): list[tuple[int(0), int(4)], tuple[int(10), int(14)], tuple[int(20), int(24)]], str('type_code'): str('IU2')}, str('attrs'): dict{str('k'): list[int(1), tuple[int(2), int(3)]]}}, str('empty'): dict{str('__type__'): str('group'), str('url'): str('file:///a/b'), str('data'): dict{}, str('path'): str('/empty'), str('attrs'): dict{}}}, str('path'): str('/'), str('attrs'): dict{str('name'): str('root'), str('coords'): tuple[str('a'), str('b')]}}",
    "encode_group[1] ok: dict{str('__type__'): str('group'), str('url'): str('s3://bucket/other'), str('data'): dict{str('x'): dict{str('__type__'): str('variable'), str('dims'): list[str('x')], str('data'): dict{str('__type__'): str('array'), str('dtype'): str('int64'), str('data'): list[int(1), int(2), int(3)], str('encoding'): dict{}}, str('attrs'): dict{str('units'): str('m')}}, str('sub2'): dict{str('__type__'): str('group'), str('url'): str('s3://bucket/other'), str('data'): dict{str('t'): dict{str('__type__'): str('variable'), str('dims'): list[str('t')], str('data'): dict{str('__type__'): str('array'), str('dtype'): str('timedelta64[ms]'), str('data'): list[int(0), int(5)], str('encoding'): dict{str('units'): str('ms')}}, str('attrs'): dict{}}}, str('path'): str('/sub/sub2'), str('attrs'): dict{str('deep'): tuple[int(1), int(2)]}}}, str('path'): str('/sub'), str('attrs'): dict{}}",
    "encode_group[2] ok: dict{str('__type__'): str('group'), str('url'): str('file:///a/b'), str('data'): dict{}, str('path'): str('/empty'), str('attrs'): dict{}}",
    "encode_group[3] err: AttributeError: 'int' object has no attribute 'data' (cause=None)",
    "encode_group[4] err: AttributeError: 'NoneType' object has no attribute 'keys' (cause=None)",
    "encode_group[5] err: AttributeError: 'Weird' object has no attribute 'data' (cause=None)",
    "encode_hierarchy[0] ok: dict{str('__type__'): str('group'), str('url'): str('file:///a/b'), str('data'): dict{str('time'): dict{str('__type__'): str('variable'), str('dims'): list[str('time')], str('data'): dict{str('__type__'): str('array'), str('dtype'): str('datetime64[ns]'), str('data'): list[int(0), int(172800000000000)], str('encoding'): dict{str('reference'): str('2020-01-01T00:00:00.000000000'), str('units'): str('ns')}}, str('attrs'): dict{str('a'): int(1)}}, str('sub'): dict{str('__type__'): str('group'), str('url'): str('s3://bucket/other'), str('data'): dict{str('x'): dict{str('__type__'): str('variable'), str('dims'): list[str('x')], str('data'): dict{str('__type__'): str('array'), str('dtype'): str('int64'), str('data'): list[int(1), int(2), int(3)], str('encoding'): dict{}}, str('attrs'): dict{str('units'): str('m')}}, str('sub2'): dict{str('__type__'): str('group'), str('url'): str('s3://bucket/other'), str('data'): dict{str('t'): dict{str('__type__'): str('variable'), str('dims'): list[str('t')], str('data'): dict{str('__type__'): str('array'), str('dtype'): str('timedelta64[ms]'), str('data'): list[int(0), int(5)], str('encoding'): dict{str('units'): str('ms')}}, str('attrs'): dict{}}}, str('path'): str('/sub/sub2'), str('attrs'): dict{str('deep'): tuple[int(1), int(2)]}}}, str('path'): str('/sub'), str('attrs'): dict{}}, str('image'): dict{str('__type__'): str('variable'), str('dims'): list[str('rows'), str('cols')], str('data'): dict{str('__type__'): str('backend_array'), str('root'): str('/root-dir'), str('url'): str('image'), str('shape'): tuple[int(3), int(2)], str('dtype'): str('uint16'), str('byte_ranges'): list[tuple[int(0), int(4)], tuple[int(10), int(14)], tuple[int(20), int(24)]], str('type_code'): str('IU2')}, str('attrs'): dict{str('k'): list[int(1), tuple[int(2), int(3)]]}}, str('empty'): dict{str('__type__'): str('group'), str('url'): str('file:///a/b'), str('data'): dict{}, str('path'): str('/empty'), str('attrs'): dict{}}}, str('path'): str('/'), str('attrs'): dict{str('name'): str('root'), str('coords'): tuple[str('a'), str('b')]}}",
    "encode_hierarchy[1] ok: dict{str('__type__'): str('variable'), str('dims'): list[str('x')], str('data'): dict{str('__type__'): str('array'), str('dtype'): str('int64'), str('data'): list[int(1), int(2)], str('encoding'): dict{}}, str('attrs'): dict{}}",
    "encode_hierarchy[2] ok: dict{str('__type__'): str('variable'), str('dims'): list[str('t')], str('data'): dict{str('__type__'): str('array'), str('dtype'): str('timedelta64[us]'), str('data'): list[int(1), int(2)], str('encoding'): dict{str('units'): str('us')}}, str('attrs'): dict{}}",
    "encode_hierarchy[3] ok: dict{str('a'): Group(Group(path='/', url='file:///a/b', data={'time': Variable(dims=['time'], data=array(['2020-01-01T00:00:00.000000000', '2020-01-03T00:00:00.000000000'],\n      dtype='datetime64[ns]'), attrs={'a': 1}), 'sub': Group(path='/sub', url='s3://bucket/other', data={'x': Variable(dims=['x'], data=array([1, 2, 3]), attrs={'units': 'm'}), 'sub2': Group(path='/sub/sub2', url='s3://bucket/other', data={'t': Variable(dims=['t'], data=array([0, 5], dtype='timedelta64[ms]'), attrs={})}, attrs={'deep': (1, 2)})}, attrs={}), 'image': Variable(dims=['rows', 'cols'], data=Array(url='image', shape=(3, 2), dtype='uint16', records_per_chunk=1024), attrs={'k': [1, (2, 3)]}), 'empty': Group(path='/empty', url='file:///a/b', data={}, attrs={})}, attrs={'name': 'root', 'coords': ('a', 'b')}))}",
    "encode_hierarchy[4] ok: list[Group(Group(path='/', url='file:///a/b', data={'time': Variable(dims=['time'], data=array(['2020-01-01T00:00:00.000000000', '2020-01-03T00:00:00.000000000'],\n      dtype='datetime64[ns]'), attrs={'a': 1}), 'sub': Group(path='/sub', url='s3://bucket/other', data={'x': Variable(dims=['x'], data=array([1, 2, 3]), attrs={'units': 'm'}), 'sub2': Group(path='/sub/sub2', url='s3://bucket/other', data={'t': Variable(dims=['t'], data=array([0, 5], dtype='timedelta64[ms]'), attrs={})}, attrs={'deep': (1, 2)})}, attrs={}), 'image': Variable(dims=['rows', 'cols'], data=Array(url='image', shape=(3, 2), dtype='uint16', records_per_chunk=1024), attrs={'k': [1, (2, 3)]}), 'empty': Group(path='/empty', url='file:///a/b', data={}, attrs={})}, attrs={'name': 'root', 'coords': ('a', 'b')}))]",
    'encode_hierarchy[5] ok: NoneType(None)',
    'encode_hierarchy[6] ok: int(1)',
    "encode_hierarchy[7] ok: str('s')",
    'encode_hierarchy[8] ok: tuple[int(1), int(2)]',
    'encode_hierarchy[9] ok: Weird(Weird())',
    'preprocess[0] ok: dict{}',
    'preprocess[1] ok: list[]',
    "preprocess[2] ok: dict{str('__type__'): str('tuple'), str('data'): list[]}",
    "preprocess[3] ok: dict{str('a'): dict{str('__type__'): str('tuple'), str('data'): list[int(1), int(2)]}, str('b'): list[dict{str('__type__'): str('tuple'), str('data'): list[]}, list[dict{str('__type__'): str('tuple'), str('data'): list[]}], dict{str('c'): dict{str('__type__'): str('tuple'), str('data'): list[dict{str('__type__'): str('tuple'), str('data'): list[int(1)]}]}}]}",
    "preprocess[4] ok: dict{str('__type__'): str('tuple'), str('data'): list[int(1), list[int(2), dict{str('__type__'): str('tuple'), str('data'): list[int(3), dict{str('k'): dict{str('__type__'): str('tuple'), str('data'): list[int(4)]}}]}]]}",
    "preprocess[5] ok: dict{str('__type__'): str('tuple'), str('data'): list[int(1), dict{str('__type__'): str('tuple'), str('data'): list[int(2), int(3)]}]}",
    "preprocess[6] ok: dict{str('z'): dict{str('__type__'): str('tuple'), str('data'): list[int(1)]}, str('a'): list[dict{str('__type__'): str('tuple'), str('data'): list[int(0), int(0)]}]}",
    "preprocess[7] ok: list[dict{str('__type__'): str('tuple'), str('data'): list[int(1)]}, int(2)]",
    "preprocess[8] ok: dict{int(1): dict{str('__type__'): str('tuple'), str('data'): list[int(2)]}, tuple[int(3), int(4)]: dict{str('__type__'): str('tuple'), str('data'): list[int(5)]}}",
    "preprocess[9] ok: str('abc')",
    "preprocess[10] ok: bytes(b'ab')",
    'preprocess[11] ok: NoneType(None)',
    'preprocess[12] ok: float(1.5)',
    'preprocess[13] ok: set({1, 2})',
    'preprocess[14] ok: frozenset(frozenset({(1, 2)}))',
    'preprocess[15] ok: ndarray<int64|(2,)|[1, 2]>',
    'preprocess[16] ok: range(range(0, 3))',
    "preprocess[17] ok: dict{str('__type__'): str('tuple'), str('data'): dict{str('__type__'): str('tuple'), str('data'): list[int(1), int(2)]}}",
    "preprocess[18] ok: dict{str('__type__'): str('group'), str('url'): str('file:///a/b'), str('data'): dict{str('time'): dict{str('__type__'): str('variable'), str('dims'): list[str('time')], str('data'): dict{str('__type__'): str('array'), str('dtype'): str('datetime64[ns]'), str('data'): list[int(0), int(172800000000000)], str('encoding'): dict{str('reference'): str('2020-01-01T00:00:00.000000000'), str('units'): str('ns')}}, str('attrs'): dict{str('a'): int(1)}}, str('sub'): dict{str('__type__'): str('group'), str('url'): str('s3://bucket/other'), str('data'): dict{str('x'): dict{str('__type__'): str('variable'), str('dims'): list[str('x')], str('data'): dict{str('__type__'): str('array'), str('dtype'): str('int64'), str('data'): list[int(1), int(2), int(3)], str('encoding'): dict{}}, str('attrs'): dict{str('units'): str('m')}}, str('sub2'): dict{str('__type__'): str('group'), str('url'): str('s3://bucket/other'), str('data'): dict{str('t'): dict{str('__type__'): str('variable'), str('dims'): list[str('t')], str('data'): dict{str('__type__'): str('array'), str('dtype'): str('timedelta64[ms]'), str('data'): list[int(0), int(5)], str('encoding'): dict{str('units'): str('ms')}}, str('attrs'): dict{}}}, str('path'): str('/sub/sub2'), str('attrs'): dict{str('deep'): dict{str('__type__'): str('tuple'), str('data'): list[int(1), int(2)]}}}}, str('path'): str('/sub'), str('attrs'): dict{}}, str('image'): dict{str('__type__'): str('variable'), str('dims'): list[str('rows'), str('cols')], str('data'): dict{str('__type__'): str('backend_array'), str('root'): str('/root-dir'), str('url'): str('image'), str('shape'): dict{str('__type__'): str('tuple'), str('data'): list[int(3), int(2)]}, str('dtype'): str('uint16'), str('byte_ranges'): list[dict{str('__type__'): str('tuple'), str('data'): list[int(0), int(4)]}, dict{str('__type__'): str('tuple'), str('data'): list[int(10), int(14)]}, dict{str('__type__'): str('tuple'), str('data'): list[int(20), int(24)]}], str('type_code'): str('IU2')}, str('attrs'): dict{str('k'): list[int(1), dict{str('__type__'): str('tuple'), str('data'): list[int(2), int(3)]}]}}, str('empty'): dict{str('__type__'): str('group'), str('url'): str('file:///a/b'), str('data'): dict{}, str('path'): str('/empty'), str('attrs'): dict{}}}, str('path'): str('/'), str('attrs'): dict{str('name'): str('root'), str('coords'): dict{str('__type__'): str('tuple'), str('data'): list[str('a'), str('b')]}}}",
    "preprocess[19] ok: list[list[list[list[dict{str('__type__'): str('tuple'), str('data'): list[dict{str('__type__'): str('tuple'), str('data'): list[dict{str('__type__'): str('tuple'), str('data'): list[]}]}]}]]]]",
    # fmt: on
]


def test_equivalence():
    observed = observe()
    assert len(observed) == len(EXPECTED)
    for obs, exp in zip(observed, EXPECTED):
        assert obs == exp, f"\nobserved: {obs}\nexpected: {exp}"


if __name__ == "__main__":
    if "--record" in sys.argv:
        for line in observe():
            print(f"    {line!r},")
    else:
        test_equivalence()
        print(f"OK ({len(EXPECTED)} recorded observations match)")
