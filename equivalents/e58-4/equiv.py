"""Equivalence check for refactoring 4 (ceos_alos2.testing.diff_array).

Run as a script (``python equiv.py``) or through pytest. The expected values
below were recorded from the UNCHANGED code with ``python equiv.py --record``.
"""

import itertools
import sys
import types

import fsspec
import numpy as np

from ceos_alos2 import testing
from ceos_alos2.array import Array
from ceos_alos2.hierarchy import Group, Variable

ACCESS_LOG = []


class SpyArray(Array):
    """Array logging every (non-dunder) attribute access"""

    label = "?"

    def __getattribute__(self, name):
        if not name.startswith("__") and name != "label":
            ACCESS_LOG.append((object.__getattribute__(self, "label"), name))
        return object.__getattribute__(self, name)


def make_array(
    *,
    cls=Array,
    protocol="memory",
    byte_ranges=None,
    path="/path/to",
    url="file",
    shape=(4, 3),
    dtype="int16",
    records_per_chunk=2,
    type_code="IU2",
):
    if byte_ranges is None:
        byte_ranges = [(x * 10 + 5, (x + 1) * 10) for x in range(shape[0])]

    fs = fsspec.filesystem(protocol)
    dirfs = fsspec.filesystem("dir", path=path, fs=fs)

    return cls(
        fs=dirfs,
        url=url,
        byte_ranges=byte_ranges,
        shape=shape,
        dtype=dtype,
        type_code=type_code,
        records_per_chunk=records_per_chunk,
    )


def outcome(func, *args, **kwargs):
    try:
        result = func(*args, **kwargs)
    except BaseException as e:  # noqa: B902
        return ("raise", type(e).__name__, str(e))
    return ("return", type(result).__name__, result if isinstance(result, str) else repr(result))


VARIATIONS = {
    "protocol": {"protocol": "file"},
    "path": {"path": "/somewhere/else"},
    "url": {"url": "other"},
    "byte_ranges_values": {"byte_ranges": [(5, 10), (15, 21), (25, 30), (36, 40)]},
    "byte_ranges_longer": {
        "byte_ranges": [(5, 10), (15, 20), (25, 30), (35, 40), (45, 50), (55, 60)]
    },
    "byte_ranges_shorter": {"byte_ranges": [(5, 10), (15, 20)]},
    "byte_ranges_empty": {"byte_ranges": []},
    "byte_ranges_tuple": {"byte_ranges": ((5, 10), (15, 20), (25, 30), (35, 40))},
    "shape": {"shape": (6, 3)},
    "shape_cols": {"shape": (4, 5)},
    "dtype": {"dtype": "int8"},
    "dtype_complex": {"dtype": "complex64"},
    "dtype_object": {"dtype": np.dtype("int16")},
    "type_code": {"type_code": "C*8"},
    "rpc": {"records_per_chunk": 1},
    "rpc_none": {"records_per_chunk": None},
    "rpc_big": {"records_per_chunk": 100},
    "rpc_auto": {"records_per_chunk": "auto"},
    "rpc_bytes": {"records_per_chunk": "12B"},
}

NUMPY = {
    "small_int": np.array([1], dtype="int32"),
    "two_int8": np.array([2, 3], dtype="int8"),
    "seven": np.arange(7, dtype="int64"),
    "eight": np.arange(8, dtype="int64"),
    "big": np.arange(100, dtype="float32") / 3,
    "two_d": np.arange(12, dtype="uint8").reshape(3, 4),
    "empty": np.array([], dtype="float64"),
    "scalar": np.array(5, dtype="int16"),
    "dates": np.array(["2011-04-27", "2012-01-01"], dtype="datetime64[ms]"),
    "deltas": np.array([1, 2, 3, 4, 5, 6, 7, 8, 9], dtype="timedelta64[s]"),
    "strings": np.array(["a", "bc"]),
    "complex": np.array([1 + 2j, 3.5 - 1j], dtype="complex64"),
    "bools": np.array([True, False]),
}


def observe():
    results = {}
    base = make_array()

    # --- Array vs Array: single differences, both ways round, and identical
    results["array:identical"] = outcome(testing.diff_array, base, make_array())
    results["array:same_object"] = outcome(testing.diff_array, base, base)
    for name, kwargs in VARIATIONS.items():
        other = make_array(**kwargs)
        results[f"array:{name}:lr"] = outcome(testing.diff_array, base, other)
        results[f"array:{name}:rl"] = outcome(testing.diff_array, other, base)

    # --- Array vs Array: pairs of differences and everything at once
    for (n1, k1), (n2, k2) in itertools.combinations(VARIATIONS.items(), 2):
        if set(k1) & set(k2):
            continue
        try:
            other = make_array(**k1, **k2)
        except ValueError:
            # e.g. no byte ranges and a chunk size in bytes: cannot be constructed
            continue
        results[f"array:{n1}+{n2}"] = outcome(testing.diff_array, base, other)
    everything = make_array(
        protocol="file",
        path="/p",
        url="u",
        byte_ranges=[(0, 1)],
        shape=(1, 1),
        dtype="uint8",
        type_code="C*8",
        records_per_chunk=7,
    )
    results["array:everything:lr"] = outcome(testing.diff_array, base, everything)
    results["array:everything:rl"] = outcome(testing.diff_array, everything, base)
    results["array:kw"] = outcome(testing.diff_array, a=base, b=everything)

    # --- attribute access order
    for name, kwargs in list(VARIATIONS.items()) + [("identical", {}), ("everything", None)]:
        left = make_array(cls=SpyArray)
        left.label = "a"
        if kwargs is None:
            right = make_array(
                cls=SpyArray,
                protocol="file",
                path="/p",
                url="u",
                byte_ranges=[(0, 1)],
                shape=(1, 1),
                dtype="uint8",
                type_code="C*8",
                records_per_chunk=7,
            )
        else:
            right = make_array(cls=SpyArray, **kwargs)
        right.label = "b"
        del ACCESS_LOG[:]
        res = outcome(testing.diff_array, left, right)
        results[f"access:{name}"] = (res, list(ACCESS_LOG))

    # --- Array vs incomplete look-alikes: which attribute is needed first?
    other_fs = make_array(path="/elsewhere").fs
    attrs = ["url", "byte_ranges", "shape", "dtype", "type_code", "records_per_chunk"]
    for fs_name, fs in (("same_fs", base.fs), ("other_fs", other_fs)):
        for count in range(len(attrs) + 1):
            present = {name: getattr(base, name) for name in attrs[:count]}
            fake = types.SimpleNamespace(fs=fs, **present)
            results[f"partial:{fs_name}:{count}"] = outcome(testing.diff_array, base, fake)
    results["partial:no_fs"] = outcome(testing.diff_array, base, types.SimpleNamespace())
    results["partial:fs_without_fs"] = outcome(
        testing.diff_array, base, types.SimpleNamespace(fs=types.SimpleNamespace(path="/path/to"))
    )
    results["partial:fs_without_path"] = outcome(
        testing.diff_array,
        base,
        types.SimpleNamespace(fs=types.SimpleNamespace(fs=types.SimpleNamespace(protocol="x"))),
    )
    results["partial:byte_ranges_not_iterable"] = outcome(
        testing.diff_array, base, types.SimpleNamespace(fs=base.fs, url="file", byte_ranges=5)
    )
    results["partial:none"] = outcome(testing.diff_array, base, None)
    results["partial:numpy"] = outcome(testing.diff_array, base, NUMPY["two_int8"])

    # --- not an Array on the left
    for (n1, v1), (n2, v2) in itertools.product(NUMPY.items(), repeat=2):
        results[f"numpy:{n1}:{n2}"] = outcome(testing.diff_array, v1, v2)
    results["numpy:array_right"] = outcome(testing.diff_array, NUMPY["seven"], base)
    results["numpy:list_left"] = outcome(testing.diff_array, [1, 2, 3], NUMPY["seven"])
    results["numpy:list_both"] = outcome(testing.diff_array, [1, 2], [[1.5], [2.5]])
    results["numpy:none_left"] = outcome(testing.diff_array, None, base)
    results["numpy:missing_arg"] = outcome(testing.diff_array, base)

    # --- the callers of diff_array
    for name, kwargs in VARIATIONS.items():
        other = make_array(**kwargs)
        results[f"diff_data:{name}"] = outcome(testing.diff_data, base, other, name="Data")
        var_a = Variable(["rows", "columns"], base, {"a": 1})
        var_b = Variable(["rows", "columns"], other, {"a": 1})
        results[f"diff_variable:{name}"] = outcome(testing.diff_variable, var_a, var_b)
        results[f"assert_identical:array:{name}"] = outcome(testing.assert_identical, base, other)
        results[f"assert_identical:variable:{name}"] = outcome(
            testing.assert_identical, var_a, var_b
        )
        group_a = Group("/", "memory:///path", {"data": var_a, "sub": Group(None, None, {}, {})}, {})
        group_b = Group("/", "memory:///path", {"data": var_b, "sub": Group(None, None, {}, {})}, {})
        results[f"assert_identical:group:{name}"] = outcome(
            testing.assert_identical, group_a, group_b
        )
        results[f"diff_tree:{name}"] = outcome(testing.diff_tree, group_a, group_b)
    results["diff_data:numpy"] = outcome(
        testing.diff_data, NUMPY["seven"], NUMPY["eight"], name="Data2"
    )
    results["diff_data:types"] = outcome(testing.diff_data, NUMPY["seven"], base, name="Data1")
    results["assert_identical:array:equal"] = outcome(testing.assert_identical, base, make_array())
    results["assert_identical:types"] = outcome(testing.assert_identical, base, NUMPY["seven"])
    results["assert_identical:numpy"] = outcome(
        testing.assert_identical, NUMPY["seven"], NUMPY["seven"]
    )
    results["format_array"] = outcome(testing.format_array, everything)

    results["names"] = [
        name
        for name in (
            "dict_overlap format_item format_array format_variable format_inline"
            " diff_mapping_missing diff_mapping_not_equal diff_mapping diff_scalar compare_data"
            " diff_array diff_data format_sizes diff_variable diff_group diff_tree"
            " assert_identical newline Array Group Variable zip_longest textwrap np"
        ).split()
        if hasattr(testing, name)
    ]
    return results


EXPECTED = {'array:identical': ('return', 'str', ''),
 'array:same_object': ('return', 'str', ''),
 'array:protocol:lr': ('return',
                       'str',
                       'Differing filesystem:\n'
                       '  L protocol  memory\n'
                       "  R protocol  ('file', 'local')"),
 'array:protocol:rl': ('return',
                       'str',
                       'Differing filesystem:\n'
                       "  L protocol  ('file', 'local')\n"
                       '  R protocol  memory'),
 'array:path:lr': ('return',
                   'str',
                   'Differing filesystem:\n  L path  /path/to\n  R path  /somewhere/else'),
 'array:path:rl': ('return',
                   'str',
                   'Differing filesystem:\n  L path  /somewhere/else\n  R path  /path/to'),
 'array:url:lr': ('return', 'str', 'Differing urls:\n  L url  file\n  R url  other'),
 'array:url:rl': ('return', 'str', 'Differing urls:\n  L url  other\n  R url  file'),
 'array:byte_ranges_values:lr': ('return',
                                 'str',
                                 'Differing byte ranges:\n'
                                 '  L line 2  (15, 20)\n'
                                 '  R line 2  (15, 21)\n'
                                 '  L line 4  (35, 40)\n'
                                 '  R line 4  (36, 40)'),
 'array:byte_ranges_values:rl': ('return',
                                 'str',
                                 'Differing byte ranges:\n'
                                 '  L line 2  (15, 21)\n'
                                 '  R line 2  (15, 20)\n'
                                 '  L line 4  (36, 40)\n'
                                 '  R line 4  (35, 40)'),
 'array:byte_ranges_longer:lr': ('return',
                                 'str',
                                 'Differing byte ranges:\n'
                                 '  L line 5  None\n'
                                 '  R line 5  (45, 50)\n'
                                 '  L line 6  None\n'
                                 '  R line 6  (55, 60)'),
 'array:byte_ranges_longer:rl': ('return',
                                 'str',
                                 'Differing byte ranges:\n'
                                 '  L line 5  (45, 50)\n'
                                 '  R line 5  None\n'
                                 '  L line 6  (55, 60)\n'
                                 '  R line 6  None'),
 'array:byte_ranges_shorter:lr': ('return',
                                  'str',
                                  'Differing byte ranges:\n'
                                  '  L line 3  (25, 30)\n'
                                  '  R line 3  None\n'
                                  '  L line 4  (35, 40)\n'
                                  '  R line 4  None'),
 'array:byte_ranges_shorter:rl': ('return',
                                  'str',
                                  'Differing byte ranges:\n'
                                  '  L line 3  None\n'
                                  '  R line 3  (25, 30)\n'
                                  '  L line 4  None\n'
                                  '  R line 4  (35, 40)'),
 'array:byte_ranges_empty:lr': ('return',
                                'str',
                                'Differing byte ranges:\n'
                                '  L line 1  (5, 10)\n'
                                '  R line 1  None\n'
                                '  L line 2  (15, 20)\n'
                                '  R line 2  None\n'
                                '  L line 3  (25, 30)\n'
                                '  R line 3  None\n'
                                '  L line 4  (35, 40)\n'
                                '  R line 4  None'),
 'array:byte_ranges_empty:rl': ('return',
                                'str',
                                'Differing byte ranges:\n'
                                '  L line 1  None\n'
                                '  R line 1  (5, 10)\n'
                                '  L line 2  None\n'
                                '  R line 2  (15, 20)\n'
                                '  L line 3  None\n'
                                '  R line 3  (25, 30)\n'
                                '  L line 4  None\n'
                                '  R line 4  (35, 40)'),
 'array:byte_ranges_tuple:lr': ('return', 'str', 'Differing byte ranges:'),
 'array:byte_ranges_tuple:rl': ('return', 'str', 'Differing byte ranges:'),
 'array:shape:lr': ('return',
                    'str',
                    'Differing byte ranges:\n'
                    '  L line 5  None\n'
                    '  R line 5  (45, 50)\n'
                    '  L line 6  None\n'
                    '  R line 6  (55, 60)\n'
                    'Differing shapes:\n'
                    '  (4, 3) != (6, 3)'),
 'array:shape:rl': ('return',
                    'str',
                    'Differing byte ranges:\n'
                    '  L line 5  (45, 50)\n'
                    '  R line 5  None\n'
                    '  L line 6  (55, 60)\n'
                    '  R line 6  None\n'
                    'Differing shapes:\n'
                    '  (6, 3) != (4, 3)'),
 'array:shape_cols:lr': ('return', 'str', 'Differing shapes:\n  (4, 3) != (4, 5)'),
 'array:shape_cols:rl': ('return', 'str', 'Differing shapes:\n  (4, 5) != (4, 3)'),
 'array:dtype:lr': ('return', 'str', 'Differing dtypes:\n  int16 != int8'),
 'array:dtype:rl': ('return', 'str', 'Differing dtypes:\n  int8 != int16'),
 'array:dtype_complex:lr': ('return', 'str', 'Differing dtypes:\n  int16 != complex64'),
 'array:dtype_complex:rl': ('return', 'str', 'Differing dtypes:\n  complex64 != int16'),
 'array:dtype_object:lr': ('return', 'str', ''),
 'array:dtype_object:rl': ('return', 'str', ''),
 'array:type_code:lr': ('return',
                        'str',
                        'Differing type code:\n  L type_code  IU2\n  R type_code  C*8'),
 'array:type_code:rl': ('return',
                        'str',
                        'Differing type code:\n  L type_code  C*8\n  R type_code  IU2'),
 'array:rpc:lr': ('return',
                  'str',
                  'Differing chunksizes:\n  L records_per_chunk  2\n  R records_per_chunk  1'),
 'array:rpc:rl': ('return',
                  'str',
                  'Differing chunksizes:\n  L records_per_chunk  1\n  R records_per_chunk  2'),
 'array:rpc_none:lr': ('return',
                       'str',
                       'Differing chunksizes:\n'
                       '  L records_per_chunk  2\n'
                       '  R records_per_chunk  1024'),
 'array:rpc_none:rl': ('return',
                       'str',
                       'Differing chunksizes:\n'
                       '  L records_per_chunk  1024\n'
                       '  R records_per_chunk  2'),
 'array:rpc_big:lr': ('return',
                      'str',
                      'Differing chunksizes:\n  L records_per_chunk  2\n  R records_per_chunk  4'),
 'array:rpc_big:rl': ('return',
                      'str',
                      'Differing chunksizes:\n  L records_per_chunk  4\n  R records_per_chunk  2'),
 'array:rpc_auto:lr': ('return',
                       'str',
                       'Differing chunksizes:\n  L records_per_chunk  2\n  R records_per_chunk  4'),
 'array:rpc_auto:rl': ('return',
                       'str',
                       'Differing chunksizes:\n  L records_per_chunk  4\n  R records_per_chunk  2'),
 'array:rpc_bytes:lr': ('return', 'str', ''),
 'array:rpc_bytes:rl': ('return', 'str', ''),
 'array:protocol+path': ('return',
                         'str',
                         'Differing filesystem:\n'
                         '  L protocol  memory\n'
                         "  R protocol  ('file', 'local')\n"
                         '  L path  /path/to\n'
                         '  R path  /somewhere/else'),
 'array:protocol+url': ('return',
                        'str',
                        'Differing filesystem:\n'
                        '  L protocol  memory\n'
                        "  R protocol  ('file', 'local')\n"
                        'Differing urls:\n'
                        '  L url  file\n'
                        '  R url  other'),
 'array:protocol+byte_ranges_values': ('return',
                                       'str',
                                       'Differing filesystem:\n'
                                       '  L protocol  memory\n'
                                       "  R protocol  ('file', 'local')\n"
                                       'Differing byte ranges:\n'
                                       '  L line 2  (15, 20)\n'
                                       '  R line 2  (15, 21)\n'
                                       '  L line 4  (35, 40)\n'
                                       '  R line 4  (36, 40)'),
 'array:protocol+byte_ranges_longer': ('return',
                                       'str',
                                       'Differing filesystem:\n'
                                       '  L protocol  memory\n'
                                       "  R protocol  ('file', 'local')\n"
                                       'Differing byte ranges:\n'
                                       '  L line 5  None\n'
                                       '  R line 5  (45, 50)\n'
                                       '  L line 6  None\n'
                                       '  R line 6  (55, 60)'),
 'array:protocol+byte_ranges_shorter': ('return',
                                        'str',
                                        'Differing filesystem:\n'
                                        '  L protocol  memory\n'
                                        "  R protocol  ('file', 'local')\n"
                                        'Differing byte ranges:\n'
                                        '  L line 3  (25, 30)\n'
                                        '  R line 3  None\n'
                                        '  L line 4  (35, 40)\n'
                                        '  R line 4  None'),
 'array:protocol+byte_ranges_empty': ('return',
                                      'str',
                                      'Differing filesystem:\n'
                                      '  L protocol  memory\n'
                                      "  R protocol  ('file', 'local')\n"
                                      'Differing byte ranges:\n'
                                      '  L line 1  (5, 10)\n'
                                      '  R line 1  None\n'
                                      '  L line 2  (15, 20)\n'
                                      '  R line 2  None\n'
                                      '  L line 3  (25, 30)\n'
                                      '  R line 3  None\n'
                                      '  L line 4  (35, 40)\n'
                                      '  R line 4  None'),
 'array:protocol+byte_ranges_tuple': ('return',
                                      'str',
                                      'Differing filesystem:\n'
                                      '  L protocol  memory\n'
                                      "  R protocol  ('file', 'local')\n"
                                      'Differing byte ranges:'),
 'array:protocol+shape': ('return',
                          'str',
                          'Differing filesystem:\n'
                          '  L protocol  memory\n'
                          "  R protocol  ('file', 'local')\n"
                          'Differing byte ranges:\n'
                          '  L line 5  None\n'
                          '  R line 5  (45, 50)\n'
                          '  L line 6  None\n'
                          '  R line 6  (55, 60)\n'
                          'Differing shapes:\n'
                          '  (4, 3) != (6, 3)'),
 'array:protocol+shape_cols': ('return',
                               'str',
                               'Differing filesystem:\n'
                               '  L protocol  memory\n'
                               "  R protocol  ('file', 'local')\n"
                               'Differing shapes:\n'
                               '  (4, 3) != (4, 5)'),
 'array:protocol+dtype': ('return',
                          'str',
                          'Differing filesystem:\n'
                          '  L protocol  memory\n'
                          "  R protocol  ('file', 'local')\n"
                          'Differing dtypes:\n'
                          '  int16 != int8'),
 'array:protocol+dtype_complex': ('return',
                                  'str',
                                  'Differing filesystem:\n'
                                  '  L protocol  memory\n'
                                  "  R protocol  ('file', 'local')\n"
                                  'Differing dtypes:\n'
                                  '  int16 != complex64'),
 'array:protocol+dtype_object': ('return',
                                 'str',
                                 'Differing filesystem:\n'
                                 '  L protocol  memory\n'
                                 "  R protocol  ('file', 'local')"),
 'array:protocol+type_code': ('return',
                              'str',
                              'Differing filesystem:\n'
                              '  L protocol  memory\n'
                              "  R protocol  ('file', 'local')\n"
                              'Differing type code:\n'
                              '  L type_code  IU2\n'
                              '  R type_code  C*8'),
 'array:protocol+rpc': ('return',
                        'str',
                        'Differing filesystem:\n'
                        '  L protocol  memory\n'
                        "  R protocol  ('file', 'local')\n"
                        'Differing chunksizes:\n'
                        '  L records_per_chunk  2\n'
                        '  R records_per_chunk  1'),
 'array:protocol+rpc_none': ('return',
                             'str',
                             'Differing filesystem:\n'
                             '  L protocol  memory\n'
                             "  R protocol  ('file', 'local')\n"
                             'Differing chunksizes:\n'
                             '  L records_per_chunk  2\n'
                             '  R records_per_chunk  1024'),
 'array:protocol+rpc_big': ('return',
                            'str',
                            'Differing filesystem:\n'
                            '  L protocol  memory\n'
                            "  R protocol  ('file', 'local')\n"
                            'Differing chunksizes:\n'
                            '  L records_per_chunk  2\n'
                            '  R records_per_chunk  4'),
 'array:protocol+rpc_auto': ('return',
                             'str',
                             'Differing filesystem:\n'
                             '  L protocol  memory\n'
                             "  R protocol  ('file', 'local')\n"
                             'Differing chunksizes:\n'
                             '  L records_per_chunk  2\n'
                             '  R records_per_chunk  4'),
 'array:protocol+rpc_bytes': ('return',
                              'str',
                              'Differing filesystem:\n'
                              '  L protocol  memory\n'
                              "  R protocol  ('file', 'local')"),
 'array:path+url': ('return',
                    'str',
                    'Differing filesystem:\n'
                    '  L path  /path/to\n'
                    '  R path  /somewhere/else\n'
                    'Differing urls:\n'
                    '  L url  file\n'
                    '  R url  other'),
 'array:path+byte_ranges_values': ('return',
                                   'str',
                                   'Differing filesystem:\n'
                                   '  L path  /path/to\n'
                                   '  R path  /somewhere/else\n'
                                   'Differing byte ranges:\n'
                                   '  L line 2  (15, 20)\n'
                                   '  R line 2  (15, 21)\n'
                                   '  L line 4  (35, 40)\n'
                                   '  R line 4  (36, 40)'),
 'array:path+byte_ranges_longer': ('return',
                                   'str',
                                   'Differing filesystem:\n'
                                   '  L path  /path/to\n'
                                   '  R path  /somewhere/else\n'
                                   'Differing byte ranges:\n'
                                   '  L line 5  None\n'
                                   '  R line 5  (45, 50)\n'
                                   '  L line 6  None\n'
                                   '  R line 6  (55, 60)'),
 'array:path+byte_ranges_shorter': ('return',
                                    'str',
                                    'Differing filesystem:\n'
                                    '  L path  /path/to\n'
                                    '  R path  /somewhere/else\n'
                                    'Differing byte ranges:\n'
                                    '  L line 3  (25, 30)\n'
                                    '  R line 3  None\n'
                                    '  L line 4  (35, 40)\n'
                                    '  R line 4  None'),
 'array:path+byte_ranges_empty': ('return',
                                  'str',
                                  'Differing filesystem:\n'
                                  '  L path  /path/to\n'
                                  '  R path  /somewhere/else\n'
                                  'Differing byte ranges:\n'
                                  '  L line 1  (5, 10)\n'
                                  '  R line 1  None\n'
                                  '  L line 2  (15, 20)\n'
                                  '  R line 2  None\n'
                                  '  L line 3  (25, 30)\n'
                                  '  R line 3  None\n'
                                  '  L line 4  (35, 40)\n'
                                  '  R line 4  None'),
 'array:path+byte_ranges_tuple': ('return',
                                  'str',
                                  'Differing filesystem:\n'
                                  '  L path  /path/to\n'
                                  '  R path  /somewhere/else\n'
                                  'Differing byte ranges:'),
 'array:path+shape': ('return',
                      'str',
                      'Differing filesystem:\n'
                      '  L path  /path/to\n'
                      '  R path  /somewhere/else\n'
                      'Differing byte ranges:\n'
                      '  L line 5  None\n'
                      '  R line 5  (45, 50)\n'
                      '  L line 6  None\n'
                      '  R line 6  (55, 60)\n'
                      'Differing shapes:\n'
                      '  (4, 3) != (6, 3)'),
 'array:path+shape_cols': ('return',
                           'str',
                           'Differing filesystem:\n'
                           '  L path  /path/to\n'
                           '  R path  /somewhere/else\n'
                           'Differing shapes:\n'
                           '  (4, 3) != (4, 5)'),
 'array:path+dtype': ('return',
                      'str',
                      'Differing filesystem:\n'
                      '  L path  /path/to\n'
                      '  R path  /somewhere/else\n'
                      'Differing dtypes:\n'
                      '  int16 != int8'),
 'array:path+dtype_complex': ('return',
                              'str',
                              'Differing filesystem:\n'
                              '  L path  /path/to\n'
                              '  R path  /somewhere/else\n'
                              'Differing dtypes:\n'
                              '  int16 != complex64'),
 'array:path+dtype_object': ('return',
                             'str',
                             'Differing filesystem:\n'
                             '  L path  /path/to\n'
                             '  R path  /somewhere/else'),
 'array:path+type_code': ('return',
                          'str',
                          'Differing filesystem:\n'
                          '  L path  /path/to\n'
                          '  R path  /somewhere/else\n'
                          'Differing type code:\n'
                          '  L type_code  IU2\n'
                          '  R type_code  C*8'),
 'array:path+rpc': ('return',
                    'str',
                    'Differing filesystem:\n'
                    '  L path  /path/to\n'
                    '  R path  /somewhere/else\n'
                    'Differing chunksizes:\n'
                    '  L records_per_chunk  2\n'
                    '  R records_per_chunk  1'),
 'array:path+rpc_none': ('return',
                         'str',
                         'Differing filesystem:\n'
                         '  L path  /path/to\n'
                         '  R path  /somewhere/else\n'
                         'Differing chunksizes:\n'
                         '  L records_per_chunk  2\n'
                         '  R records_per_chunk  1024'),
 'array:path+rpc_big': ('return',
                        'str',
                        'Differing filesystem:\n'
                        '  L path  /path/to\n'
                        '  R path  /somewhere/else\n'
                        'Differing chunksizes:\n'
                        '  L records_per_chunk  2\n'
                        '  R records_per_chunk  4'),
 'array:path+rpc_auto': ('return',
                         'str',
                         'Differing filesystem:\n'
                         '  L path  /path/to\n'
                         '  R path  /somewhere/else\n'
                         'Differing chunksizes:\n'
                         '  L records_per_chunk  2\n'
                         '  R records_per_chunk  4'),
 'array:path+rpc_bytes': ('return',
                          'str',
                          'Differing filesystem:\n  L path  /path/to\n  R path  /somewhere/else'),
 'array:url+byte_ranges_values': ('return',
                                  'str',
                                  'Differing urls:\n'
                                  '  L url  file\n'
                                  '  R url  other\n'
                                  'Differing byte ranges:\n'
                                  '  L line 2  (15, 20)\n'
                                  '  R line 2  (15, 21)\n'
                                  '  L line 4  (35, 40)\n'
                                  '  R line 4  (36, 40)'),
 'array:url+byte_ranges_longer': ('return',
                                  'str',
                                  'Differing urls:\n'
                                  '  L url  file\n'
                                  '  R url  other\n'
                                  'Differing byte ranges:\n'
                                  '  L line 5  None\n'
                                  '  R line 5  (45, 50)\n'
                                  '  L line 6  None\n'
                                  '  R line 6  (55, 60)'),
 'array:url+byte_ranges_shorter': ('return',
                                   'str',
                                   'Differing urls:\n'
                                   '  L url  file\n'
                                   '  R url  other\n'
                                   'Differing byte ranges:\n'
                                   '  L line 3  (25, 30)\n'
                                   '  R line 3  None\n'
                                   '  L line 4  (35, 40)\n'
                                   '  R line 4  None'),
 'array:url+byte_ranges_empty': ('return',
                                 'str',
                                 'Differing urls:\n'
                                 '  L url  file\n'
                                 '  R url  other\n'
                                 'Differing byte ranges:\n'
                                 '  L line 1  (5, 10)\n'
                                 '  R line 1  None\n'
                                 '  L line 2  (15, 20)\n'
                                 '  R line 2  None\n'
                                 '  L line 3  (25, 30)\n'
                                 '  R line 3  None\n'
                                 '  L line 4  (35, 40)\n'
                                 '  R line 4  None'),
 'array:url+byte_ranges_tuple': ('return',
                                 'str',
                                 'Differing urls:\n'
                                 '  L url  file\n'
                                 '  R url  other\n'
                                 'Differing byte ranges:'),
 'array:url+shape': ('return',
                     'str',
                     'Differing urls:\n'
                     '  L url  file\n'
                     '  R url  other\n'
                     'Differing byte ranges:\n'
                     '  L line 5  None\n'
                     '  R line 5  (45, 50)\n'
                     '  L line 6  None\n'
                     '  R line 6  (55, 60)\n'
                     'Differing shapes:\n'
                     '  (4, 3) != (6, 3)'),
 'array:url+shape_cols': ('return',
                          'str',
                          'Differing urls:\n'
                          '  L url  file\n'
                          '  R url  other\n'
                          'Differing shapes:\n'
                          '  (4, 3) != (4, 5)'),
 'array:url+dtype': ('return',
                     'str',
                     'Differing urls:\n'
                     '  L url  file\n'
                     '  R url  other\n'
                     'Differing dtypes:\n'
                     '  int16 != int8'),
 'array:url+dtype_complex': ('return',
                             'str',
                             'Differing urls:\n'
                             '  L url  file\n'
                             '  R url  other\n'
                             'Differing dtypes:\n'
                             '  int16 != complex64'),
 'array:url+dtype_object': ('return', 'str', 'Differing urls:\n  L url  file\n  R url  other'),
 'array:url+type_code': ('return',
                         'str',
                         'Differing urls:\n'
                         '  L url  file\n'
                         '  R url  other\n'
                         'Differing type code:\n'
                         '  L type_code  IU2\n'
                         '  R type_code  C*8'),
 'array:url+rpc': ('return',
                   'str',
                   'Differing urls:\n'
                   '  L url  file\n'
                   '  R url  other\n'
                   'Differing chunksizes:\n'
                   '  L records_per_chunk  2\n'
                   '  R records_per_chunk  1'),
 'array:url+rpc_none': ('return',
                        'str',
                        'Differing urls:\n'
                        '  L url  file\n'
                        '  R url  other\n'
                        'Differing chunksizes:\n'
                        '  L records_per_chunk  2\n'
                        '  R records_per_chunk  1024'),
 'array:url+rpc_big': ('return',
                       'str',
                       'Differing urls:\n'
                       '  L url  file\n'
                       '  R url  other\n'
                       'Differing chunksizes:\n'
                       '  L records_per_chunk  2\n'
                       '  R records_per_chunk  4'),
 'array:url+rpc_auto': ('return',
                        'str',
                        'Differing urls:\n'
                        '  L url  file\n'
                        '  R url  other\n'
                        'Differing chunksizes:\n'
                        '  L records_per_chunk  2\n'
                        '  R records_per_chunk  4'),
 'array:url+rpc_bytes': ('return', 'str', 'Differing urls:\n  L url  file\n  R url  other'),
 'array:byte_ranges_values+shape': ('return',
                                    'str',
                                    'Differing byte ranges:\n'
                                    '  L line 2  (15, 20)\n'
                                    '  R line 2  (15, 21)\n'
                                    '  L line 4  (35, 40)\n'
                                    '  R line 4  (36, 40)\n'
                                    'Differing shapes:\n'
                                    '  (4, 3) != (6, 3)'),
 'array:byte_ranges_values+shape_cols': ('return',
                                         'str',
                                         'Differing byte ranges:\n'
                                         '  L line 2  (15, 20)\n'
                                         '  R line 2  (15, 21)\n'
                                         '  L line 4  (35, 40)\n'
                                         '  R line 4  (36, 40)\n'
                                         'Differing shapes:\n'
                                         '  (4, 3) != (4, 5)'),
 'array:byte_ranges_values+dtype': ('return',
                                    'str',
                                    'Differing byte ranges:\n'
                                    '  L line 2  (15, 20)\n'
                                    '  R line 2  (15, 21)\n'
                                    '  L line 4  (35, 40)\n'
                                    '  R line 4  (36, 40)\n'
                                    'Differing dtypes:\n'
                                    '  int16 != int8'),
 'array:byte_ranges_values+dtype_complex': ('return',
                                            'str',
                                            'Differing byte ranges:\n'
                                            '  L line 2  (15, 20)\n'
                                            '  R line 2  (15, 21)\n'
                                            '  L line 4  (35, 40)\n'
                                            '  R line 4  (36, 40)\n'
                                            'Differing dtypes:\n'
                                            '  int16 != complex64'),
 'array:byte_ranges_values+dtype_object': ('return',
                                           'str',
                                           'Differing byte ranges:\n'
                                           '  L line 2  (15, 20)\n'
                                           '  R line 2  (15, 21)\n'
                                           '  L line 4  (35, 40)\n'
                                           '  R line 4  (36, 40)'),
 'array:byte_ranges_values+type_code': ('return',
                                        'str',
                                        'Differing byte ranges:\n'
                                        '  L line 2  (15, 20)\n'
                                        '  R line 2  (15, 21)\n'
                                        '  L line 4  (35, 40)\n'
                                        '  R line 4  (36, 40)\n'
                                        'Differing type code:\n'
                                        '  L type_code  IU2\n'
                                        '  R type_code  C*8'),
 'array:byte_ranges_values+rpc': ('return',
                                  'str',
                                  'Differing byte ranges:\n'
                                  '  L line 2  (15, 20)\n'
                                  '  R line 2  (15, 21)\n'
                                  '  L line 4  (35, 40)\n'
                                  '  R line 4  (36, 40)\n'
                                  'Differing chunksizes:\n'
                                  '  L records_per_chunk  2\n'
                                  '  R records_per_chunk  1'),
 'array:byte_ranges_values+rpc_none': ('return',
                                       'str',
                                       'Differing byte ranges:\n'
                                       '  L line 2  (15, 20)\n'
                                       '  R line 2  (15, 21)\n'
                                       '  L line 4  (35, 40)\n'
                                       '  R line 4  (36, 40)\n'
                                       'Differing chunksizes:\n'
                                       '  L records_per_chunk  2\n'
                                       '  R records_per_chunk  1024'),
 'array:byte_ranges_values+rpc_big': ('return',
                                      'str',
                                      'Differing byte ranges:\n'
                                      '  L line 2  (15, 20)\n'
                                      '  R line 2  (15, 21)\n'
                                      '  L line 4  (35, 40)\n'
                                      '  R line 4  (36, 40)\n'
                                      'Differing chunksizes:\n'
                                      '  L records_per_chunk  2\n'
                                      '  R records_per_chunk  4'),
 'array:byte_ranges_values+rpc_auto': ('return',
                                       'str',
                                       'Differing byte ranges:\n'
                                       '  L line 2  (15, 20)\n'
                                       '  R line 2  (15, 21)\n'
                                       '  L line 4  (35, 40)\n'
                                       '  R line 4  (36, 40)\n'
                                       'Differing chunksizes:\n'
                                       '  L records_per_chunk  2\n'
                                       '  R records_per_chunk  4'),
 'array:byte_ranges_values+rpc_bytes': ('return',
                                        'str',
                                        'Differing byte ranges:\n'
                                        '  L line 2  (15, 20)\n'
                                        '  R line 2  (15, 21)\n'
                                        '  L line 4  (35, 40)\n'
                                        '  R line 4  (36, 40)'),
 'array:byte_ranges_longer+shape': ('return',
                                    'str',
                                    'Differing byte ranges:\n'
                                    '  L line 5  None\n'
                                    '  R line 5  (45, 50)\n'
                                    '  L line 6  None\n'
                                    '  R line 6  (55, 60)\n'
                                    'Differing shapes:\n'
                                    '  (4, 3) != (6, 3)'),
 'array:byte_ranges_longer+shape_cols': ('return',
                                         'str',
                                         'Differing byte ranges:\n'
                                         '  L line 5  None\n'
                                         '  R line 5  (45, 50)\n'
                                         '  L line 6  None\n'
                                         '  R line 6  (55, 60)\n'
                                         'Differing shapes:\n'
                                         '  (4, 3) != (4, 5)'),
 'array:byte_ranges_longer+dtype': ('return',
                                    'str',
                                    'Differing byte ranges:\n'
                                    '  L line 5  None\n'
                                    '  R line 5  (45, 50)\n'
                                    '  L line 6  None\n'
                                    '  R line 6  (55, 60)\n'
                                    'Differing dtypes:\n'
                                    '  int16 != int8'),
 'array:byte_ranges_longer+dtype_complex': ('return',
                                            'str',
                                            'Differing byte ranges:\n'
                                            '  L line 5  None\n'
                                            '  R line 5  (45, 50)\n'
                                            '  L line 6  None\n'
                                            '  R line 6  (55, 60)\n'
                                            'Differing dtypes:\n'
                                            '  int16 != complex64'),
 'array:byte_ranges_longer+dtype_object': ('return',
                                           'str',
                                           'Differing byte ranges:\n'
                                           '  L line 5  None\n'
                                           '  R line 5  (45, 50)\n'
                                           '  L line 6  None\n'
                                           '  R line 6  (55, 60)'),
 'array:byte_ranges_longer+type_code': ('return',
                                        'str',
                                        'Differing byte ranges:\n'
                                        '  L line 5  None\n'
                                        '  R line 5  (45, 50)\n'
                                        '  L line 6  None\n'
                                        '  R line 6  (55, 60)\n'
                                        'Differing type code:\n'
                                        '  L type_code  IU2\n'
                                        '  R type_code  C*8'),
 'array:byte_ranges_longer+rpc': ('return',
                                  'str',
                                  'Differing byte ranges:\n'
                                  '  L line 5  None\n'
                                  '  R line 5  (45, 50)\n'
                                  '  L line 6  None\n'
                                  '  R line 6  (55, 60)\n'
                                  'Differing chunksizes:\n'
                                  '  L records_per_chunk  2\n'
                                  '  R records_per_chunk  1'),
 'array:byte_ranges_longer+rpc_none': ('return',
                                       'str',
                                       'Differing byte ranges:\n'
                                       '  L line 5  None\n'
                                       '  R line 5  (45, 50)\n'
                                       '  L line 6  None\n'
                                       '  R line 6  (55, 60)\n'
                                       'Differing chunksizes:\n'
                                       '  L records_per_chunk  2\n'
                                       '  R records_per_chunk  1024'),
 'array:byte_ranges_longer+rpc_big': ('return',
                                      'str',
                                      'Differing byte ranges:\n'
                                      '  L line 5  None\n'
                                      '  R line 5  (45, 50)\n'
                                      '  L line 6  None\n'
                                      '  R line 6  (55, 60)\n'
                                      'Differing chunksizes:\n'
                                      '  L records_per_chunk  2\n'
                                      '  R records_per_chunk  4'),
 'array:byte_ranges_longer+rpc_auto': ('return',
                                       'str',
                                       'Differing byte ranges:\n'
                                       '  L line 5  None\n'
                                       '  R line 5  (45, 50)\n'
                                       '  L line 6  None\n'
                                       '  R line 6  (55, 60)\n'
                                       'Differing chunksizes:\n'
                                       '  L records_per_chunk  2\n'
                                       '  R records_per_chunk  6'),
 'array:byte_ranges_longer+rpc_bytes': ('return',
                                        'str',
                                        'Differing byte ranges:\n'
                                        '  L line 5  None\n'
                                        '  R line 5  (45, 50)\n'
                                        '  L line 6  None\n'
                                        '  R line 6  (55, 60)'),
 'array:byte_ranges_shorter+shape': ('return',
                                     'str',
                                     'Differing byte ranges:\n'
                                     '  L line 3  (25, 30)\n'
                                     '  R line 3  None\n'
                                     '  L line 4  (35, 40)\n'
                                     '  R line 4  None\n'
                                     'Differing shapes:\n'
                                     '  (4, 3) != (6, 3)'),
 'array:byte_ranges_shorter+shape_cols': ('return',
                                          'str',
                                          'Differing byte ranges:\n'
                                          '  L line 3  (25, 30)\n'
                                          '  R line 3  None\n'
                                          '  L line 4  (35, 40)\n'
                                          '  R line 4  None\n'
                                          'Differing shapes:\n'
                                          '  (4, 3) != (4, 5)'),
 'array:byte_ranges_shorter+dtype': ('return',
                                     'str',
                                     'Differing byte ranges:\n'
                                     '  L line 3  (25, 30)\n'
                                     '  R line 3  None\n'
                                     '  L line 4  (35, 40)\n'
                                     '  R line 4  None\n'
                                     'Differing dtypes:\n'
                                     '  int16 != int8'),
 'array:byte_ranges_shorter+dtype_complex': ('return',
                                             'str',
                                             'Differing byte ranges:\n'
                                             '  L line 3  (25, 30)\n'
                                             '  R line 3  None\n'
                                             '  L line 4  (35, 40)\n'
                                             '  R line 4  None\n'
                                             'Differing dtypes:\n'
                                             '  int16 != complex64'),
 'array:byte_ranges_shorter+dtype_object': ('return',
                                            'str',
                                            'Differing byte ranges:\n'
                                            '  L line 3  (25, 30)\n'
                                            '  R line 3  None\n'
                                            '  L line 4  (35, 40)\n'
                                            '  R line 4  None'),
 'array:byte_ranges_shorter+type_code': ('return',
                                         'str',
                                         'Differing byte ranges:\n'
                                         '  L line 3  (25, 30)\n'
                                         '  R line 3  None\n'
                                         '  L line 4  (35, 40)\n'
                                         '  R line 4  None\n'
                                         'Differing type code:\n'
                                         '  L type_code  IU2\n'
                                         '  R type_code  C*8'),
 'array:byte_ranges_shorter+rpc': ('return',
                                   'str',
                                   'Differing byte ranges:\n'
                                   '  L line 3  (25, 30)\n'
                                   '  R line 3  None\n'
                                   '  L line 4  (35, 40)\n'
                                   '  R line 4  None\n'
                                   'Differing chunksizes:\n'
                                   '  L records_per_chunk  2\n'
                                   '  R records_per_chunk  1'),
 'array:byte_ranges_shorter+rpc_none': ('return',
                                        'str',
                                        'Differing byte ranges:\n'
                                        '  L line 3  (25, 30)\n'
                                        '  R line 3  None\n'
                                        '  L line 4  (35, 40)\n'
                                        '  R line 4  None\n'
                                        'Differing chunksizes:\n'
                                        '  L records_per_chunk  2\n'
                                        '  R records_per_chunk  1024'),
 'array:byte_ranges_shorter+rpc_big': ('return',
                                       'str',
                                       'Differing byte ranges:\n'
                                       '  L line 3  (25, 30)\n'
                                       '  R line 3  None\n'
                                       '  L line 4  (35, 40)\n'
                                       '  R line 4  None\n'
                                       'Differing chunksizes:\n'
                                       '  L records_per_chunk  2\n'
                                       '  R records_per_chunk  4'),
 'array:byte_ranges_shorter+rpc_auto': ('return',
                                        'str',
                                        'Differing byte ranges:\n'
                                        '  L line 3  (25, 30)\n'
                                        '  R line 3  None\n'
                                        '  L line 4  (35, 40)\n'
                                        '  R line 4  None'),
 'array:byte_ranges_shorter+rpc_bytes': ('return',
                                         'str',
                                         'Differing byte ranges:\n'
                                         '  L line 3  (25, 30)\n'
                                         '  R line 3  None\n'
                                         '  L line 4  (35, 40)\n'
                                         '  R line 4  None'),
 'array:byte_ranges_empty+shape': ('return',
                                   'str',
                                   'Differing byte ranges:\n'
                                   '  L line 1  (5, 10)\n'
                                   '  R line 1  None\n'
                                   '  L line 2  (15, 20)\n'
                                   '  R line 2  None\n'
                                   '  L line 3  (25, 30)\n'
                                   '  R line 3  None\n'
                                   '  L line 4  (35, 40)\n'
                                   '  R line 4  None\n'
                                   'Differing shapes:\n'
                                   '  (4, 3) != (6, 3)'),
 'array:byte_ranges_empty+shape_cols': ('return',
                                        'str',
                                        'Differing byte ranges:\n'
                                        '  L line 1  (5, 10)\n'
                                        '  R line 1  None\n'
                                        '  L line 2  (15, 20)\n'
                                        '  R line 2  None\n'
                                        '  L line 3  (25, 30)\n'
                                        '  R line 3  None\n'
                                        '  L line 4  (35, 40)\n'
                                        '  R line 4  None\n'
                                        'Differing shapes:\n'
                                        '  (4, 3) != (4, 5)'),
 'array:byte_ranges_empty+dtype': ('return',
                                   'str',
                                   'Differing byte ranges:\n'
                                   '  L line 1  (5, 10)\n'
                                   '  R line 1  None\n'
                                   '  L line 2  (15, 20)\n'
                                   '  R line 2  None\n'
                                   '  L line 3  (25, 30)\n'
                                   '  R line 3  None\n'
                                   '  L line 4  (35, 40)\n'
                                   '  R line 4  None\n'
                                   'Differing dtypes:\n'
                                   '  int16 != int8'),
 'array:byte_ranges_empty+dtype_complex': ('return',
                                           'str',
                                           'Differing byte ranges:\n'
                                           '  L line 1  (5, 10)\n'
                                           '  R line 1  None\n'
                                           '  L line 2  (15, 20)\n'
                                           '  R line 2  None\n'
                                           '  L line 3  (25, 30)\n'
                                           '  R line 3  None\n'
                                           '  L line 4  (35, 40)\n'
                                           '  R line 4  None\n'
                                           'Differing dtypes:\n'
                                           '  int16 != complex64'),
 'array:byte_ranges_empty+dtype_object': ('return',
                                          'str',
                                          'Differing byte ranges:\n'
                                          '  L line 1  (5, 10)\n'
                                          '  R line 1  None\n'
                                          '  L line 2  (15, 20)\n'
                                          '  R line 2  None\n'
                                          '  L line 3  (25, 30)\n'
                                          '  R line 3  None\n'
                                          '  L line 4  (35, 40)\n'
                                          '  R line 4  None'),
 'array:byte_ranges_empty+type_code': ('return',
                                       'str',
                                       'Differing byte ranges:\n'
                                       '  L line 1  (5, 10)\n'
                                       '  R line 1  None\n'
                                       '  L line 2  (15, 20)\n'
                                       '  R line 2  None\n'
                                       '  L line 3  (25, 30)\n'
                                       '  R line 3  None\n'
                                       '  L line 4  (35, 40)\n'
                                       '  R line 4  None\n'
                                       'Differing type code:\n'
                                       '  L type_code  IU2\n'
                                       '  R type_code  C*8'),
 'array:byte_ranges_empty+rpc': ('return',
                                 'str',
                                 'Differing byte ranges:\n'
                                 '  L line 1  (5, 10)\n'
                                 '  R line 1  None\n'
                                 '  L line 2  (15, 20)\n'
                                 '  R line 2  None\n'
                                 '  L line 3  (25, 30)\n'
                                 '  R line 3  None\n'
                                 '  L line 4  (35, 40)\n'
                                 '  R line 4  None\n'
                                 'Differing chunksizes:\n'
                                 '  L records_per_chunk  2\n'
                                 '  R records_per_chunk  1'),
 'array:byte_ranges_empty+rpc_none': ('return',
                                      'str',
                                      'Differing byte ranges:\n'
                                      '  L line 1  (5, 10)\n'
                                      '  R line 1  None\n'
                                      '  L line 2  (15, 20)\n'
                                      '  R line 2  None\n'
                                      '  L line 3  (25, 30)\n'
                                      '  R line 3  None\n'
                                      '  L line 4  (35, 40)\n'
                                      '  R line 4  None\n'
                                      'Differing chunksizes:\n'
                                      '  L records_per_chunk  2\n'
                                      '  R records_per_chunk  1024'),
 'array:byte_ranges_empty+rpc_big': ('return',
                                     'str',
                                     'Differing byte ranges:\n'
                                     '  L line 1  (5, 10)\n'
                                     '  R line 1  None\n'
                                     '  L line 2  (15, 20)\n'
                                     '  R line 2  None\n'
                                     '  L line 3  (25, 30)\n'
                                     '  R line 3  None\n'
                                     '  L line 4  (35, 40)\n'
                                     '  R line 4  None\n'
                                     'Differing chunksizes:\n'
                                     '  L records_per_chunk  2\n'
                                     '  R records_per_chunk  4'),
 'array:byte_ranges_tuple+shape': ('return',
                                   'str',
                                   'Differing byte ranges:\nDiffering shapes:\n  (4, 3) != (6, 3)'),
 'array:byte_ranges_tuple+shape_cols': ('return',
                                        'str',
                                        'Differing byte ranges:\n'
                                        'Differing shapes:\n'
                                        '  (4, 3) != (4, 5)'),
 'array:byte_ranges_tuple+dtype': ('return',
                                   'str',
                                   'Differing byte ranges:\nDiffering dtypes:\n  int16 != int8'),
 'array:byte_ranges_tuple+dtype_complex': ('return',
                                           'str',
                                           'Differing byte ranges:\n'
                                           'Differing dtypes:\n'
                                           '  int16 != complex64'),
 'array:byte_ranges_tuple+dtype_object': ('return', 'str', 'Differing byte ranges:'),
 'array:byte_ranges_tuple+type_code': ('return',
                                       'str',
                                       'Differing byte ranges:\n'
                                       'Differing type code:\n'
                                       '  L type_code  IU2\n'
                                       '  R type_code  C*8'),
 'array:byte_ranges_tuple+rpc': ('return',
                                 'str',
                                 'Differing byte ranges:\n'
                                 'Differing chunksizes:\n'
                                 '  L records_per_chunk  2\n'
                                 '  R records_per_chunk  1'),
 'array:byte_ranges_tuple+rpc_none': ('return',
                                      'str',
                                      'Differing byte ranges:\n'
                                      'Differing chunksizes:\n'
                                      '  L records_per_chunk  2\n'
                                      '  R records_per_chunk  1024'),
 'array:byte_ranges_tuple+rpc_big': ('return',
                                     'str',
                                     'Differing byte ranges:\n'
                                     'Differing chunksizes:\n'
                                     '  L records_per_chunk  2\n'
                                     '  R records_per_chunk  4'),
 'array:byte_ranges_tuple+rpc_auto': ('return',
                                      'str',
                                      'Differing byte ranges:\n'
                                      'Differing chunksizes:\n'
                                      '  L records_per_chunk  2\n'
                                      '  R records_per_chunk  4'),
 'array:byte_ranges_tuple+rpc_bytes': ('return', 'str', 'Differing byte ranges:'),
 'array:shape+dtype': ('return',
                       'str',
                       'Differing byte ranges:\n'
                       '  L line 5  None\n'
                       '  R line 5  (45, 50)\n'
                       '  L line 6  None\n'
                       '  R line 6  (55, 60)\n'
                       'Differing shapes:\n'
                       '  (4, 3) != (6, 3)\n'
                       'Differing dtypes:\n'
                       '  int16 != int8'),
 'array:shape+dtype_complex': ('return',
                               'str',
                               'Differing byte ranges:\n'
                               '  L line 5  None\n'
                               '  R line 5  (45, 50)\n'
                               '  L line 6  None\n'
                               '  R line 6  (55, 60)\n'
                               'Differing shapes:\n'
                               '  (4, 3) != (6, 3)\n'
                               'Differing dtypes:\n'
                               '  int16 != complex64'),
 'array:shape+dtype_object': ('return',
                              'str',
                              'Differing byte ranges:\n'
                              '  L line 5  None\n'
                              '  R line 5  (45, 50)\n'
                              '  L line 6  None\n'
                              '  R line 6  (55, 60)\n'
                              'Differing shapes:\n'
                              '  (4, 3) != (6, 3)'),
 'array:shape+type_code': ('return',
                           'str',
                           'Differing byte ranges:\n'
                           '  L line 5  None\n'
                           '  R line 5  (45, 50)\n'
                           '  L line 6  None\n'
                           '  R line 6  (55, 60)\n'
                           'Differing shapes:\n'
                           '  (4, 3) != (6, 3)\n'
                           'Differing type code:\n'
                           '  L type_code  IU2\n'
                           '  R type_code  C*8'),
 'array:shape+rpc': ('return',
                     'str',
                     'Differing byte ranges:\n'
                     '  L line 5  None\n'
                     '  R line 5  (45, 50)\n'
                     '  L line 6  None\n'
                     '  R line 6  (55, 60)\n'
                     'Differing shapes:\n'
                     '  (4, 3) != (6, 3)\n'
                     'Differing chunksizes:\n'
                     '  L records_per_chunk  2\n'
                     '  R records_per_chunk  1'),
 'array:shape+rpc_none': ('return',
                          'str',
                          'Differing byte ranges:\n'
                          '  L line 5  None\n'
                          '  R line 5  (45, 50)\n'
                          '  L line 6  None\n'
                          '  R line 6  (55, 60)\n'
                          'Differing shapes:\n'
                          '  (4, 3) != (6, 3)\n'
                          'Differing chunksizes:\n'
                          '  L records_per_chunk  2\n'
                          '  R records_per_chunk  1024'),
 'array:shape+rpc_big': ('return',
                         'str',
                         'Differing byte ranges:\n'
                         '  L line 5  None\n'
                         '  R line 5  (45, 50)\n'
                         '  L line 6  None\n'
                         '  R line 6  (55, 60)\n'
                         'Differing shapes:\n'
                         '  (4, 3) != (6, 3)\n'
                         'Differing chunksizes:\n'
                         '  L records_per_chunk  2\n'
                         '  R records_per_chunk  6'),
 'array:shape+rpc_auto': ('return',
                          'str',
                          'Differing byte ranges:\n'
                          '  L line 5  None\n'
                          '  R line 5  (45, 50)\n'
                          '  L line 6  None\n'
                          '  R line 6  (55, 60)\n'
                          'Differing shapes:\n'
                          '  (4, 3) != (6, 3)\n'
                          'Differing chunksizes:\n'
                          '  L records_per_chunk  2\n'
                          '  R records_per_chunk  6'),
 'array:shape+rpc_bytes': ('return',
                           'str',
                           'Differing byte ranges:\n'
                           '  L line 5  None\n'
                           '  R line 5  (45, 50)\n'
                           '  L line 6  None\n'
                           '  R line 6  (55, 60)\n'
                           'Differing shapes:\n'
                           '  (4, 3) != (6, 3)'),
 'array:shape_cols+dtype': ('return',
                            'str',
                            'Differing shapes:\n'
                            '  (4, 3) != (4, 5)\n'
                            'Differing dtypes:\n'
                            '  int16 != int8'),
 'array:shape_cols+dtype_complex': ('return',
                                    'str',
                                    'Differing shapes:\n'
                                    '  (4, 3) != (4, 5)\n'
                                    'Differing dtypes:\n'
                                    '  int16 != complex64'),
 'array:shape_cols+dtype_object': ('return', 'str', 'Differing shapes:\n  (4, 3) != (4, 5)'),
 'array:shape_cols+type_code': ('return',
                                'str',
                                'Differing shapes:\n'
                                '  (4, 3) != (4, 5)\n'
                                'Differing type code:\n'
                                '  L type_code  IU2\n'
                                '  R type_code  C*8'),
 'array:shape_cols+rpc': ('return',
                          'str',
                          'Differing shapes:\n'
                          '  (4, 3) != (4, 5)\n'
                          'Differing chunksizes:\n'
                          '  L records_per_chunk  2\n'
                          '  R records_per_chunk  1'),
 'array:shape_cols+rpc_none': ('return',
                               'str',
                               'Differing shapes:\n'
                               '  (4, 3) != (4, 5)\n'
                               'Differing chunksizes:\n'
                               '  L records_per_chunk  2\n'
                               '  R records_per_chunk  1024'),
 'array:shape_cols+rpc_big': ('return',
                              'str',
                              'Differing shapes:\n'
                              '  (4, 3) != (4, 5)\n'
                              'Differing chunksizes:\n'
                              '  L records_per_chunk  2\n'
                              '  R records_per_chunk  4'),
 'array:shape_cols+rpc_auto': ('return',
                               'str',
                               'Differing shapes:\n'
                               '  (4, 3) != (4, 5)\n'
                               'Differing chunksizes:\n'
                               '  L records_per_chunk  2\n'
                               '  R records_per_chunk  4'),
 'array:shape_cols+rpc_bytes': ('return', 'str', 'Differing shapes:\n  (4, 3) != (4, 5)'),
 'array:dtype+type_code': ('return',
                           'str',
                           'Differing dtypes:\n'
                           '  int16 != int8\n'
                           'Differing type code:\n'
                           '  L type_code  IU2\n'
                           '  R type_code  C*8'),
 'array:dtype+rpc': ('return',
                     'str',
                     'Differing dtypes:\n'
                     '  int16 != int8\n'
                     'Differing chunksizes:\n'
                     '  L records_per_chunk  2\n'
                     '  R records_per_chunk  1'),
 'array:dtype+rpc_none': ('return',
                          'str',
                          'Differing dtypes:\n'
                          '  int16 != int8\n'
                          'Differing chunksizes:\n'
                          '  L records_per_chunk  2\n'
                          '  R records_per_chunk  1024'),
 'array:dtype+rpc_big': ('return',
                         'str',
                         'Differing dtypes:\n'
                         '  int16 != int8\n'
                         'Differing chunksizes:\n'
                         '  L records_per_chunk  2\n'
                         '  R records_per_chunk  4'),
 'array:dtype+rpc_auto': ('return',
                          'str',
                          'Differing dtypes:\n'
                          '  int16 != int8\n'
                          'Differing chunksizes:\n'
                          '  L records_per_chunk  2\n'
                          '  R records_per_chunk  4'),
 'array:dtype+rpc_bytes': ('return', 'str', 'Differing dtypes:\n  int16 != int8'),
 'array:dtype_complex+type_code': ('return',
                                   'str',
                                   'Differing dtypes:\n'
                                   '  int16 != complex64\n'
                                   'Differing type code:\n'
                                   '  L type_code  IU2\n'
                                   '  R type_code  C*8'),
 'array:dtype_complex+rpc': ('return',
                             'str',
                             'Differing dtypes:\n'
                             '  int16 != complex64\n'
                             'Differing chunksizes:\n'
                             '  L records_per_chunk  2\n'
                             '  R records_per_chunk  1'),
 'array:dtype_complex+rpc_none': ('return',
                                  'str',
                                  'Differing dtypes:\n'
                                  '  int16 != complex64\n'
                                  'Differing chunksizes:\n'
                                  '  L records_per_chunk  2\n'
                                  '  R records_per_chunk  1024'),
 'array:dtype_complex+rpc_big': ('return',
                                 'str',
                                 'Differing dtypes:\n'
                                 '  int16 != complex64\n'
                                 'Differing chunksizes:\n'
                                 '  L records_per_chunk  2\n'
                                 '  R records_per_chunk  4'),
 'array:dtype_complex+rpc_auto': ('return',
                                  'str',
                                  'Differing dtypes:\n'
                                  '  int16 != complex64\n'
                                  'Differing chunksizes:\n'
                                  '  L records_per_chunk  2\n'
                                  '  R records_per_chunk  4'),
 'array:dtype_complex+rpc_bytes': ('return', 'str', 'Differing dtypes:\n  int16 != complex64'),
 'array:dtype_object+type_code': ('return',
                                  'str',
                                  'Differing type code:\n  L type_code  IU2\n  R type_code  C*8'),
 'array:dtype_object+rpc': ('return',
                            'str',
                            'Differing chunksizes:\n'
                            '  L records_per_chunk  2\n'
                            '  R records_per_chunk  1'),
 'array:dtype_object+rpc_none': ('return',
                                 'str',
                                 'Differing chunksizes:\n'
                                 '  L records_per_chunk  2\n'
                                 '  R records_per_chunk  1024'),
 'array:dtype_object+rpc_big': ('return',
                                'str',
                                'Differing chunksizes:\n'
                                '  L records_per_chunk  2\n'
                                '  R records_per_chunk  4'),
 'array:dtype_object+rpc_auto': ('return',
                                 'str',
                                 'Differing chunksizes:\n'
                                 '  L records_per_chunk  2\n'
                                 '  R records_per_chunk  4'),
 'array:dtype_object+rpc_bytes': ('return', 'str', ''),
 'array:type_code+rpc': ('return',
                         'str',
                         'Differing type code:\n'
                         '  L type_code  IU2\n'
                         '  R type_code  C*8\n'
                         'Differing chunksizes:\n'
                         '  L records_per_chunk  2\n'
                         '  R records_per_chunk  1'),
 'array:type_code+rpc_none': ('return',
                              'str',
                              'Differing type code:\n'
                              '  L type_code  IU2\n'
                              '  R type_code  C*8\n'
                              'Differing chunksizes:\n'
                              '  L records_per_chunk  2\n'
                              '  R records_per_chunk  1024'),
 'array:type_code+rpc_big': ('return',
                             'str',
                             'Differing type code:\n'
                             '  L type_code  IU2\n'
                             '  R type_code  C*8\n'
                             'Differing chunksizes:\n'
                             '  L records_per_chunk  2\n'
                             '  R records_per_chunk  4'),
 'array:type_code+rpc_auto': ('return',
                              'str',
                              'Differing type code:\n'
                              '  L type_code  IU2\n'
                              '  R type_code  C*8\n'
                              'Differing chunksizes:\n'
                              '  L records_per_chunk  2\n'
                              '  R records_per_chunk  4'),
 'array:type_code+rpc_bytes': ('return',
                               'str',
                               'Differing type code:\n  L type_code  IU2\n  R type_code  C*8'),
 'array:everything:lr': ('return',
                         'str',
                         'Differing filesystem:\n'
                         '  L protocol  memory\n'
                         "  R protocol  ('file', 'local')\n"
                         '  L path  /path/to\n'
                         '  R path  /p\n'
                         'Differing urls:\n'
                         '  L url  file\n'
                         '  R url  u\n'
                         'Differing byte ranges:\n'
                         '  L line 1  (5, 10)\n'
                         '  R line 1  (0, 1)\n'
                         '  L line 2  (15, 20)\n'
                         '  R line 2  None\n'
                         '  L line 3  (25, 30)\n'
                         '  R line 3  None\n'
                         '  L line 4  (35, 40)\n'
                         '  R line 4  None\n'
                         'Differing shapes:\n'
                         '  (4, 3) != (1, 1)\n'
                         'Differing dtypes:\n'
                         '  int16 != uint8\n'
                         'Differing type code:\n'
                         '  L type_code  IU2\n'
                         '  R type_code  C*8\n'
                         'Differing chunksizes:\n'
                         '  L records_per_chunk  2\n'
                         '  R records_per_chunk  1'),
 'array:everything:rl': ('return',
                         'str',
                         'Differing filesystem:\n'
                         "  L protocol  ('file', 'local')\n"
                         '  R protocol  memory\n'
                         '  L path  /p\n'
                         '  R path  /path/to\n'
                         'Differing urls:\n'
                         '  L url  u\n'
                         '  R url  file\n'
                         'Differing byte ranges:\n'
                         '  L line 1  (0, 1)\n'
                         '  R line 1  (5, 10)\n'
                         '  L line 2  None\n'
                         '  R line 2  (15, 20)\n'
                         '  L line 3  None\n'
                         '  R line 3  (25, 30)\n'
                         '  L line 4  None\n'
                         '  R line 4  (35, 40)\n'
                         'Differing shapes:\n'
                         '  (1, 1) != (4, 3)\n'
                         'Differing dtypes:\n'
                         '  uint8 != int16\n'
                         'Differing type code:\n'
                         '  L type_code  C*8\n'
                         '  R type_code  IU2\n'
                         'Differing chunksizes:\n'
                         '  L records_per_chunk  1\n'
                         '  R records_per_chunk  2'),
 'array:kw': ('return',
              'str',
              'Differing filesystem:\n'
              '  L protocol  memory\n'
              "  R protocol  ('file', 'local')\n"
              '  L path  /path/to\n'
              '  R path  /p\n'
              'Differing urls:\n'
              '  L url  file\n'
              '  R url  u\n'
              'Differing byte ranges:\n'
              '  L line 1  (5, 10)\n'
              '  R line 1  (0, 1)\n'
              '  L line 2  (15, 20)\n'
              '  R line 2  None\n'
              '  L line 3  (25, 30)\n'
              '  R line 3  None\n'
              '  L line 4  (35, 40)\n'
              '  R line 4  None\n'
              'Differing shapes:\n'
              '  (4, 3) != (1, 1)\n'
              'Differing dtypes:\n'
              '  int16 != uint8\n'
              'Differing type code:\n'
              '  L type_code  IU2\n'
              '  R type_code  C*8\n'
              'Differing chunksizes:\n'
              '  L records_per_chunk  2\n'
              '  R records_per_chunk  1'),
 'access:protocol': (('return',
                      'str',
                      'Differing filesystem:\n'
                      '  L protocol  memory\n'
                      "  R protocol  ('file', 'local')"),
                     [('a', 'fs'),
                      ('b', 'fs'),
                      ('a', 'fs'),
                      ('b', 'fs'),
                      ('a', 'fs'),
                      ('b', 'fs'),
                      ('a', 'fs'),
                      ('b', 'fs'),
                      ('a', 'url'),
                      ('b', 'url'),
                      ('a', 'byte_ranges'),
                      ('b', 'byte_ranges'),
                      ('a', 'shape'),
                      ('b', 'shape'),
                      ('a', 'dtype'),
                      ('b', 'dtype'),
                      ('a', 'type_code'),
                      ('b', 'type_code'),
                      ('a', 'records_per_chunk'),
                      ('b', 'records_per_chunk')]),
 'access:path': (('return',
                  'str',
                  'Differing filesystem:\n  L path  /path/to\n  R path  /somewhere/else'),
                 [('a', 'fs'),
                  ('b', 'fs'),
                  ('a', 'fs'),
                  ('b', 'fs'),
                  ('a', 'fs'),
                  ('b', 'fs'),
                  ('a', 'fs'),
                  ('b', 'fs'),
                  ('a', 'url'),
                  ('b', 'url'),
                  ('a', 'byte_ranges'),
                  ('b', 'byte_ranges'),
                  ('a', 'shape'),
                  ('b', 'shape'),
                  ('a', 'dtype'),
                  ('b', 'dtype'),
                  ('a', 'type_code'),
                  ('b', 'type_code'),
                  ('a', 'records_per_chunk'),
                  ('b', 'records_per_chunk')]),
 'access:url': (('return', 'str', 'Differing urls:\n  L url  file\n  R url  other'),
                [('a', 'fs'),
                 ('b', 'fs'),
                 ('a', 'url'),
                 ('b', 'url'),
                 ('a', 'url'),
                 ('b', 'url'),
                 ('a', 'byte_ranges'),
                 ('b', 'byte_ranges'),
                 ('a', 'shape'),
                 ('b', 'shape'),
                 ('a', 'dtype'),
                 ('b', 'dtype'),
                 ('a', 'type_code'),
                 ('b', 'type_code'),
                 ('a', 'records_per_chunk'),
                 ('b', 'records_per_chunk')]),
 'access:byte_ranges_values': (('return',
                                'str',
                                'Differing byte ranges:\n'
                                '  L line 2  (15, 20)\n'
                                '  R line 2  (15, 21)\n'
                                '  L line 4  (35, 40)\n'
                                '  R line 4  (36, 40)'),
                               [('a', 'fs'),
                                ('b', 'fs'),
                                ('a', 'url'),
                                ('b', 'url'),
                                ('a', 'byte_ranges'),
                                ('b', 'byte_ranges'),
                                ('a', 'byte_ranges'),
                                ('b', 'byte_ranges'),
                                ('a', 'shape'),
                                ('b', 'shape'),
                                ('a', 'dtype'),
                                ('b', 'dtype'),
                                ('a', 'type_code'),
                                ('b', 'type_code'),
                                ('a', 'records_per_chunk'),
                                ('b', 'records_per_chunk')]),
 'access:byte_ranges_longer': (('return',
                                'str',
                                'Differing byte ranges:\n'
                                '  L line 5  None\n'
                                '  R line 5  (45, 50)\n'
                                '  L line 6  None\n'
                                '  R line 6  (55, 60)'),
                               [('a', 'fs'),
                                ('b', 'fs'),
                                ('a', 'url'),
                                ('b', 'url'),
                                ('a', 'byte_ranges'),
                                ('b', 'byte_ranges'),
                                ('a', 'byte_ranges'),
                                ('b', 'byte_ranges'),
                                ('a', 'shape'),
                                ('b', 'shape'),
                                ('a', 'dtype'),
                                ('b', 'dtype'),
                                ('a', 'type_code'),
                                ('b', 'type_code'),
                                ('a', 'records_per_chunk'),
                                ('b', 'records_per_chunk')]),
 'access:byte_ranges_shorter': (('return',
                                 'str',
                                 'Differing byte ranges:\n'
                                 '  L line 3  (25, 30)\n'
                                 '  R line 3  None\n'
                                 '  L line 4  (35, 40)\n'
                                 '  R line 4  None'),
                                [('a', 'fs'),
                                 ('b', 'fs'),
                                 ('a', 'url'),
                                 ('b', 'url'),
                                 ('a', 'byte_ranges'),
                                 ('b', 'byte_ranges'),
                                 ('a', 'byte_ranges'),
                                 ('b', 'byte_ranges'),
                                 ('a', 'shape'),
                                 ('b', 'shape'),
                                 ('a', 'dtype'),
                                 ('b', 'dtype'),
                                 ('a', 'type_code'),
                                 ('b', 'type_code'),
                                 ('a', 'records_per_chunk'),
                                 ('b', 'records_per_chunk')]),
 'access:byte_ranges_empty': (('return',
                               'str',
                               'Differing byte ranges:\n'
                               '  L line 1  (5, 10)\n'
                               '  R line 1  None\n'
                               '  L line 2  (15, 20)\n'
                               '  R line 2  None\n'
                               '  L line 3  (25, 30)\n'
                               '  R line 3  None\n'
                               '  L line 4  (35, 40)\n'
                               '  R line 4  None'),
                              [('a', 'fs'),
                               ('b', 'fs'),
                               ('a', 'url'),
                               ('b', 'url'),
                               ('a', 'byte_ranges'),
                               ('b', 'byte_ranges'),
                               ('a', 'byte_ranges'),
                               ('b', 'byte_ranges'),
                               ('a', 'shape'),
                               ('b', 'shape'),
                               ('a', 'dtype'),
                               ('b', 'dtype'),
                               ('a', 'type_code'),
                               ('b', 'type_code'),
                               ('a', 'records_per_chunk'),
                               ('b', 'records_per_chunk')]),
 'access:byte_ranges_tuple': (('return', 'str', 'Differing byte ranges:'),
                              [('a', 'fs'),
                               ('b', 'fs'),
                               ('a', 'url'),
                               ('b', 'url'),
                               ('a', 'byte_ranges'),
                               ('b', 'byte_ranges'),
                               ('a', 'byte_ranges'),
                               ('b', 'byte_ranges'),
                               ('a', 'shape'),
                               ('b', 'shape'),
                               ('a', 'dtype'),
                               ('b', 'dtype'),
                               ('a', 'type_code'),
                               ('b', 'type_code'),
                               ('a', 'records_per_chunk'),
                               ('b', 'records_per_chunk')]),
 'access:shape': (('return',
                   'str',
                   'Differing byte ranges:\n'
                   '  L line 5  None\n'
                   '  R line 5  (45, 50)\n'
                   '  L line 6  None\n'
                   '  R line 6  (55, 60)\n'
                   'Differing shapes:\n'
                   '  (4, 3) != (6, 3)'),
                  [('a', 'fs'),
                   ('b', 'fs'),
                   ('a', 'url'),
                   ('b', 'url'),
                   ('a', 'byte_ranges'),
                   ('b', 'byte_ranges'),
                   ('a', 'byte_ranges'),
                   ('b', 'byte_ranges'),
                   ('a', 'shape'),
                   ('b', 'shape'),
                   ('a', 'shape'),
                   ('b', 'shape'),
                   ('a', 'dtype'),
                   ('b', 'dtype'),
                   ('a', 'type_code'),
                   ('b', 'type_code'),
                   ('a', 'records_per_chunk'),
                   ('b', 'records_per_chunk')]),
 'access:shape_cols': (('return', 'str', 'Differing shapes:\n  (4, 3) != (4, 5)'),
                       [('a', 'fs'),
                        ('b', 'fs'),
                        ('a', 'url'),
                        ('b', 'url'),
                        ('a', 'byte_ranges'),
                        ('b', 'byte_ranges'),
                        ('a', 'shape'),
                        ('b', 'shape'),
                        ('a', 'shape'),
                        ('b', 'shape'),
                        ('a', 'dtype'),
                        ('b', 'dtype'),
                        ('a', 'type_code'),
                        ('b', 'type_code'),
                        ('a', 'records_per_chunk'),
                        ('b', 'records_per_chunk')]),
 'access:dtype': (('return', 'str', 'Differing dtypes:\n  int16 != int8'),
                  [('a', 'fs'),
                   ('b', 'fs'),
                   ('a', 'url'),
                   ('b', 'url'),
                   ('a', 'byte_ranges'),
                   ('b', 'byte_ranges'),
                   ('a', 'shape'),
                   ('b', 'shape'),
                   ('a', 'dtype'),
                   ('b', 'dtype'),
                   ('a', 'dtype'),
                   ('b', 'dtype'),
                   ('a', 'type_code'),
                   ('b', 'type_code'),
                   ('a', 'records_per_chunk'),
                   ('b', 'records_per_chunk')]),
 'access:dtype_complex': (('return', 'str', 'Differing dtypes:\n  int16 != complex64'),
                          [('a', 'fs'),
                           ('b', 'fs'),
                           ('a', 'url'),
                           ('b', 'url'),
                           ('a', 'byte_ranges'),
                           ('b', 'byte_ranges'),
                           ('a', 'shape'),
                           ('b', 'shape'),
                           ('a', 'dtype'),
                           ('b', 'dtype'),
                           ('a', 'dtype'),
                           ('b', 'dtype'),
                           ('a', 'type_code'),
                           ('b', 'type_code'),
                           ('a', 'records_per_chunk'),
                           ('b', 'records_per_chunk')]),
 'access:dtype_object': (('return', 'str', ''),
                         [('a', 'fs'),
                          ('b', 'fs'),
                          ('a', 'url'),
                          ('b', 'url'),
                          ('a', 'byte_ranges'),
                          ('b', 'byte_ranges'),
                          ('a', 'shape'),
                          ('b', 'shape'),
                          ('a', 'dtype'),
                          ('b', 'dtype'),
                          ('a', 'type_code'),
                          ('b', 'type_code'),
                          ('a', 'records_per_chunk'),
                          ('b', 'records_per_chunk')]),
 'access:type_code': (('return',
                       'str',
                       'Differing type code:\n  L type_code  IU2\n  R type_code  C*8'),
                      [('a', 'fs'),
                       ('b', 'fs'),
                       ('a', 'url'),
                       ('b', 'url'),
                       ('a', 'byte_ranges'),
                       ('b', 'byte_ranges'),
                       ('a', 'shape'),
                       ('b', 'shape'),
                       ('a', 'dtype'),
                       ('b', 'dtype'),
                       ('a', 'type_code'),
                       ('b', 'type_code'),
                       ('a', 'type_code'),
                       ('b', 'type_code'),
                       ('a', 'records_per_chunk'),
                       ('b', 'records_per_chunk')]),
 'access:rpc': (('return',
                 'str',
                 'Differing chunksizes:\n  L records_per_chunk  2\n  R records_per_chunk  1'),
                [('a', 'fs'),
                 ('b', 'fs'),
                 ('a', 'url'),
                 ('b', 'url'),
                 ('a', 'byte_ranges'),
                 ('b', 'byte_ranges'),
                 ('a', 'shape'),
                 ('b', 'shape'),
                 ('a', 'dtype'),
                 ('b', 'dtype'),
                 ('a', 'type_code'),
                 ('b', 'type_code'),
                 ('a', 'records_per_chunk'),
                 ('b', 'records_per_chunk'),
                 ('a', 'records_per_chunk'),
                 ('b', 'records_per_chunk')]),
 'access:rpc_none': (('return',
                      'str',
                      'Differing chunksizes:\n'
                      '  L records_per_chunk  2\n'
                      '  R records_per_chunk  1024'),
                     [('a', 'fs'),
                      ('b', 'fs'),
                      ('a', 'url'),
                      ('b', 'url'),
                      ('a', 'byte_ranges'),
                      ('b', 'byte_ranges'),
                      ('a', 'shape'),
                      ('b', 'shape'),
                      ('a', 'dtype'),
                      ('b', 'dtype'),
                      ('a', 'type_code'),
                      ('b', 'type_code'),
                      ('a', 'records_per_chunk'),
                      ('b', 'records_per_chunk'),
                      ('a', 'records_per_chunk'),
                      ('b', 'records_per_chunk')]),
 'access:rpc_big': (('return',
                     'str',
                     'Differing chunksizes:\n  L records_per_chunk  2\n  R records_per_chunk  4'),
                    [('a', 'fs'),
                     ('b', 'fs'),
                     ('a', 'url'),
                     ('b', 'url'),
                     ('a', 'byte_ranges'),
                     ('b', 'byte_ranges'),
                     ('a', 'shape'),
                     ('b', 'shape'),
                     ('a', 'dtype'),
                     ('b', 'dtype'),
                     ('a', 'type_code'),
                     ('b', 'type_code'),
                     ('a', 'records_per_chunk'),
                     ('b', 'records_per_chunk'),
                     ('a', 'records_per_chunk'),
                     ('b', 'records_per_chunk')]),
 'access:rpc_auto': (('return',
                      'str',
                      'Differing chunksizes:\n  L records_per_chunk  2\n  R records_per_chunk  4'),
                     [('a', 'fs'),
                      ('b', 'fs'),
                      ('a', 'url'),
                      ('b', 'url'),
                      ('a', 'byte_ranges'),
                      ('b', 'byte_ranges'),
                      ('a', 'shape'),
                      ('b', 'shape'),
                      ('a', 'dtype'),
                      ('b', 'dtype'),
                      ('a', 'type_code'),
                      ('b', 'type_code'),
                      ('a', 'records_per_chunk'),
                      ('b', 'records_per_chunk'),
                      ('a', 'records_per_chunk'),
                      ('b', 'records_per_chunk')]),
 'access:rpc_bytes': (('return', 'str', ''),
                      [('a', 'fs'),
                       ('b', 'fs'),
                       ('a', 'url'),
                       ('b', 'url'),
                       ('a', 'byte_ranges'),
                       ('b', 'byte_ranges'),
                       ('a', 'shape'),
                       ('b', 'shape'),
                       ('a', 'dtype'),
                       ('b', 'dtype'),
                       ('a', 'type_code'),
                       ('b', 'type_code'),
                       ('a', 'records_per_chunk'),
                       ('b', 'records_per_chunk')]),
 'access:identical': (('return', 'str', ''),
                      [('a', 'fs'),
                       ('b', 'fs'),
                       ('a', 'url'),
                       ('b', 'url'),
                       ('a', 'byte_ranges'),
                       ('b', 'byte_ranges'),
                       ('a', 'shape'),
                       ('b', 'shape'),
                       ('a', 'dtype'),
                       ('b', 'dtype'),
                       ('a', 'type_code'),
                       ('b', 'type_code'),
                       ('a', 'records_per_chunk'),
                       ('b', 'records_per_chunk')]),
 'access:everything': (('return',
                        'str',
                        'Differing filesystem:\n'
                        '  L protocol  memory\n'
                        "  R protocol  ('file', 'local')\n"
                        '  L path  /path/to\n'
                        '  R path  /p\n'
                        'Differing urls:\n'
                        '  L url  file\n'
                        '  R url  u\n'
                        'Differing byte ranges:\n'
                        '  L line 1  (5, 10)\n'
                        '  R line 1  (0, 1)\n'
                        '  L line 2  (15, 20)\n'
                        '  R line 2  None\n'
                        '  L line 3  (25, 30)\n'
                        '  R line 3  None\n'
                        '  L line 4  (35, 40)\n'
                        '  R line 4  None\n'
                        'Differing shapes:\n'
                        '  (4, 3) != (1, 1)\n'
                        'Differing dtypes:\n'
                        '  int16 != uint8\n'
                        'Differing type code:\n'
                        '  L type_code  IU2\n'
                        '  R type_code  C*8\n'
                        'Differing chunksizes:\n'
                        '  L records_per_chunk  2\n'
                        '  R records_per_chunk  1'),
                       [('a', 'fs'),
                        ('b', 'fs'),
                        ('a', 'fs'),
                        ('b', 'fs'),
                        ('a', 'fs'),
                        ('b', 'fs'),
                        ('a', 'fs'),
                        ('b', 'fs'),
                        ('a', 'fs'),
                        ('b', 'fs'),
                        ('a', 'url'),
                        ('b', 'url'),
                        ('a', 'url'),
                        ('b', 'url'),
                        ('a', 'byte_ranges'),
                        ('b', 'byte_ranges'),
                        ('a', 'byte_ranges'),
                        ('b', 'byte_ranges'),
                        ('a', 'shape'),
                        ('b', 'shape'),
                        ('a', 'shape'),
                        ('b', 'shape'),
                        ('a', 'dtype'),
                        ('b', 'dtype'),
                        ('a', 'dtype'),
                        ('b', 'dtype'),
                        ('a', 'type_code'),
                        ('b', 'type_code'),
                        ('a', 'type_code'),
                        ('b', 'type_code'),
                        ('a', 'records_per_chunk'),
                        ('b', 'records_per_chunk'),
                        ('a', 'records_per_chunk'),
                        ('b', 'records_per_chunk')]),
 'partial:same_fs:0': ('raise',
                       'AttributeError',
                       "'types.SimpleNamespace' object has no attribute 'url'"),
 'partial:same_fs:1': ('raise',
                       'AttributeError',
                       "'types.SimpleNamespace' object has no attribute 'byte_ranges'"),
 'partial:same_fs:2': ('raise',
                       'AttributeError',
                       "'types.SimpleNamespace' object has no attribute 'shape'"),
 'partial:same_fs:3': ('raise',
                       'AttributeError',
                       "'types.SimpleNamespace' object has no attribute 'dtype'"),
 'partial:same_fs:4': ('raise',
                       'AttributeError',
                       "'types.SimpleNamespace' object has no attribute 'type_code'"),
 'partial:same_fs:5': ('raise',
                       'AttributeError',
                       "'types.SimpleNamespace' object has no attribute 'records_per_chunk'"),
 'partial:same_fs:6': ('return', 'str', ''),
 'partial:other_fs:0': ('raise',
                        'AttributeError',
                        "'types.SimpleNamespace' object has no attribute 'url'"),
 'partial:other_fs:1': ('raise',
                        'AttributeError',
                        "'types.SimpleNamespace' object has no attribute 'byte_ranges'"),
 'partial:other_fs:2': ('raise',
                        'AttributeError',
                        "'types.SimpleNamespace' object has no attribute 'shape'"),
 'partial:other_fs:3': ('raise',
                        'AttributeError',
                        "'types.SimpleNamespace' object has no attribute 'dtype'"),
 'partial:other_fs:4': ('raise',
                        'AttributeError',
                        "'types.SimpleNamespace' object has no attribute 'type_code'"),
 'partial:other_fs:5': ('raise',
                        'AttributeError',
                        "'types.SimpleNamespace' object has no attribute 'records_per_chunk'"),
 'partial:other_fs:6': ('return',
                        'str',
                        'Differing filesystem:\n  L path  /path/to\n  R path  /elsewhere'),
 'partial:no_fs': ('raise',
                   'AttributeError',
                   "'types.SimpleNamespace' object has no attribute 'fs'"),
 'partial:fs_without_fs': ('raise',
                           'AttributeError',
                           "'types.SimpleNamespace' object has no attribute 'fs'"),
 'partial:fs_without_path': ('raise',
                             'AttributeError',
                             "'types.SimpleNamespace' object has no attribute 'path'"),
 'partial:byte_ranges_not_iterable': ('raise', 'TypeError', "'int' object is not iterable"),
 'partial:none': ('raise', 'AttributeError', "'NoneType' object has no attribute 'fs'"),
 'partial:numpy': ('raise', 'AttributeError', "'numpy.ndarray' object has no attribute 'fs'"),
 'numpy:small_int:small_int': ('return', 'str', '  L int32  1\n  R int32  1'),
 'numpy:small_int:two_int8': ('return', 'str', '  L int32  1\n  R int8  2 3'),
 'numpy:small_int:seven': ('return', 'str', '  L int32  1\n  R int64  0 1 2 3 4 5 6'),
 'numpy:small_int:eight': ('return', 'str', '  L int32  1\n  R int64  0 1 2 ... 6 7'),
 'numpy:small_int:big': ('return',
                         'str',
                         '  L int32  1\n'
                         '  R float32  0.0 0.3333333432674408 0.6666666865348816 ... '
                         '32.66666793823242 33.0'),
 'numpy:small_int:two_d': ('return', 'str', '  L int32  1\n  R uint8  0 1 2 ... 10 11'),
 'numpy:small_int:empty': ('return', 'str', '  L int32  1\n  R float64  '),
 'numpy:small_int:scalar': ('return', 'str', '  L int32  1\n  R int16  5'),
 'numpy:small_int:dates': ('return',
                           'str',
                           '  L int32  1\n'
                           '  R datetime64[ms]  2011-04-27T00:00:00.000 2012-01-01T00:00:00.000'),
 'numpy:small_int:deltas': ('return',
                            'str',
                            '  L int32  1\n'
                            '  R timedelta64[s]  1 seconds 2 seconds 3 seconds ... 8 seconds 9 '
                            'seconds'),
 'numpy:small_int:strings': ('return', 'str', "  L int32  1\n  R <U2  'a' 'bc'"),
 'numpy:small_int:complex': ('return', 'str', '  L int32  1\n  R complex64  (1+2j) (3.5-1j)'),
 'numpy:small_int:bools': ('return', 'str', '  L int32  1\n  R bool  True False'),
 'numpy:two_int8:small_int': ('return', 'str', '  L int8  2 3\n  R int32  1'),
 'numpy:two_int8:two_int8': ('return', 'str', '  L int8  2 3\n  R int8  2 3'),
 'numpy:two_int8:seven': ('return', 'str', '  L int8  2 3\n  R int64  0 1 2 3 4 5 6'),
 'numpy:two_int8:eight': ('return', 'str', '  L int8  2 3\n  R int64  0 1 2 ... 6 7'),
 'numpy:two_int8:big': ('return',
                        'str',
                        '  L int8  2 3\n'
                        '  R float32  0.0 0.3333333432674408 0.6666666865348816 ... '
                        '32.66666793823242 33.0'),
 'numpy:two_int8:two_d': ('return', 'str', '  L int8  2 3\n  R uint8  0 1 2 ... 10 11'),
 'numpy:two_int8:empty': ('return', 'str', '  L int8  2 3\n  R float64  '),
 'numpy:two_int8:scalar': ('return', 'str', '  L int8  2 3\n  R int16  5'),
 'numpy:two_int8:dates': ('return',
                          'str',
                          '  L int8  2 3\n'
                          '  R datetime64[ms]  2011-04-27T00:00:00.000 2012-01-01T00:00:00.000'),
 'numpy:two_int8:deltas': ('return',
                           'str',
                           '  L int8  2 3\n'
                           '  R timedelta64[s]  1 seconds 2 seconds 3 seconds ... 8 seconds 9 '
                           'seconds'),
 'numpy:two_int8:strings': ('return', 'str', "  L int8  2 3\n  R <U2  'a' 'bc'"),
 'numpy:two_int8:complex': ('return', 'str', '  L int8  2 3\n  R complex64  (1+2j) (3.5-1j)'),
 'numpy:two_int8:bools': ('return', 'str', '  L int8  2 3\n  R bool  True False'),
 'numpy:seven:small_int': ('return', 'str', '  L int64  0 1 2 3 4 5 6\n  R int32  1'),
 'numpy:seven:two_int8': ('return', 'str', '  L int64  0 1 2 3 4 5 6\n  R int8  2 3'),
 'numpy:seven:seven': ('return', 'str', '  L int64  0 1 2 3 4 5 6\n  R int64  0 1 2 3 4 5 6'),
 'numpy:seven:eight': ('return', 'str', '  L int64  0 1 2 3 4 5 6\n  R int64  0 1 2 ... 6 7'),
 'numpy:seven:big': ('return',
                     'str',
                     '  L int64  0 1 2 3 4 5 6\n'
                     '  R float32  0.0 0.3333333432674408 0.6666666865348816 ... 32.66666793823242 '
                     '33.0'),
 'numpy:seven:two_d': ('return', 'str', '  L int64  0 1 2 3 4 5 6\n  R uint8  0 1 2 ... 10 11'),
 'numpy:seven:empty': ('return', 'str', '  L int64  0 1 2 3 4 5 6\n  R float64  '),
 'numpy:seven:scalar': ('return', 'str', '  L int64  0 1 2 3 4 5 6\n  R int16  5'),
 'numpy:seven:dates': ('return',
                       'str',
                       '  L int64  0 1 2 3 4 5 6\n'
                       '  R datetime64[ms]  2011-04-27T00:00:00.000 2012-01-01T00:00:00.000'),
 'numpy:seven:deltas': ('return',
                        'str',
                        '  L int64  0 1 2 3 4 5 6\n'
                        '  R timedelta64[s]  1 seconds 2 seconds 3 seconds ... 8 seconds 9 '
                        'seconds'),
 'numpy:seven:strings': ('return', 'str', "  L int64  0 1 2 3 4 5 6\n  R <U2  'a' 'bc'"),
 'numpy:seven:complex': ('return',
                         'str',
                         '  L int64  0 1 2 3 4 5 6\n  R complex64  (1+2j) (3.5-1j)'),
 'numpy:seven:bools': ('return', 'str', '  L int64  0 1 2 3 4 5 6\n  R bool  True False'),
 'numpy:eight:small_int': ('return', 'str', '  L int64  0 1 2 ... 6 7\n  R int32  1'),
 'numpy:eight:two_int8': ('return', 'str', '  L int64  0 1 2 ... 6 7\n  R int8  2 3'),
 'numpy:eight:seven': ('return', 'str', '  L int64  0 1 2 ... 6 7\n  R int64  0 1 2 3 4 5 6'),
 'numpy:eight:eight': ('return', 'str', '  L int64  0 1 2 ... 6 7\n  R int64  0 1 2 ... 6 7'),
 'numpy:eight:big': ('return',
                     'str',
                     '  L int64  0 1 2 ... 6 7\n'
                     '  R float32  0.0 0.3333333432674408 0.6666666865348816 ... 32.66666793823242 '
                     '33.0'),
 'numpy:eight:two_d': ('return', 'str', '  L int64  0 1 2 ... 6 7\n  R uint8  0 1 2 ... 10 11'),
 'numpy:eight:empty': ('return', 'str', '  L int64  0 1 2 ... 6 7\n  R float64  '),
 'numpy:eight:scalar': ('return', 'str', '  L int64  0 1 2 ... 6 7\n  R int16  5'),
 'numpy:eight:dates': ('return',
                       'str',
                       '  L int64  0 1 2 ... 6 7\n'
                       '  R datetime64[ms]  2011-04-27T00:00:00.000 2012-01-01T00:00:00.000'),
 'numpy:eight:deltas': ('return',
                        'str',
                        '  L int64  0 1 2 ... 6 7\n'
                        '  R timedelta64[s]  1 seconds 2 seconds 3 seconds ... 8 seconds 9 '
                        'seconds'),
 'numpy:eight:strings': ('return', 'str', "  L int64  0 1 2 ... 6 7\n  R <U2  'a' 'bc'"),
 'numpy:eight:complex': ('return',
                         'str',
                         '  L int64  0 1 2 ... 6 7\n  R complex64  (1+2j) (3.5-1j)'),
 'numpy:eight:bools': ('return', 'str', '  L int64  0 1 2 ... 6 7\n  R bool  True False'),
 'numpy:big:small_int': ('return',
                         'str',
                         '  L float32  0.0 0.3333333432674408 0.6666666865348816 ... '
                         '32.66666793823242 33.0\n'
                         '  R int32  1'),
 'numpy:big:two_int8': ('return',
                        'str',
                        '  L float32  0.0 0.3333333432674408 0.6666666865348816 ... '
                        '32.66666793823242 33.0\n'
                        '  R int8  2 3'),
 'numpy:big:seven': ('return',
                     'str',
                     '  L float32  0.0 0.3333333432674408 0.6666666865348816 ... 32.66666793823242 '
                     '33.0\n'
                     '  R int64  0 1 2 3 4 5 6'),
 'numpy:big:eight': ('return',
                     'str',
                     '  L float32  0.0 0.3333333432674408 0.6666666865348816 ... 32.66666793823242 '
                     '33.0\n'
                     '  R int64  0 1 2 ... 6 7'),
 'numpy:big:big': ('return',
                   'str',
                   '  L float32  0.0 0.3333333432674408 0.6666666865348816 ... 32.66666793823242 '
                   '33.0\n'
                   '  R float32  0.0 0.3333333432674408 0.6666666865348816 ... 32.66666793823242 '
                   '33.0'),
 'numpy:big:two_d': ('return',
                     'str',
                     '  L float32  0.0 0.3333333432674408 0.6666666865348816 ... 32.66666793823242 '
                     '33.0\n'
                     '  R uint8  0 1 2 ... 10 11'),
 'numpy:big:empty': ('return',
                     'str',
                     '  L float32  0.0 0.3333333432674408 0.6666666865348816 ... 32.66666793823242 '
                     '33.0\n'
                     '  R float64  '),
 'numpy:big:scalar': ('return',
                      'str',
                      '  L float32  0.0 0.3333333432674408 0.6666666865348816 ... '
                      '32.66666793823242 33.0\n'
                      '  R int16  5'),
 'numpy:big:dates': ('return',
                     'str',
                     '  L float32  0.0 0.3333333432674408 0.6666666865348816 ... 32.66666793823242 '
                     '33.0\n'
                     '  R datetime64[ms]  2011-04-27T00:00:00.000 2012-01-01T00:00:00.000'),
 'numpy:big:deltas': ('return',
                      'str',
                      '  L float32  0.0 0.3333333432674408 0.6666666865348816 ... '
                      '32.66666793823242 33.0\n'
                      '  R timedelta64[s]  1 seconds 2 seconds 3 seconds ... 8 seconds 9 seconds'),
 'numpy:big:strings': ('return',
                       'str',
                       '  L float32  0.0 0.3333333432674408 0.6666666865348816 ... '
                       '32.66666793823242 33.0\n'
                       "  R <U2  'a' 'bc'"),
 'numpy:big:complex': ('return',
                       'str',
                       '  L float32  0.0 0.3333333432674408 0.6666666865348816 ... '
                       '32.66666793823242 33.0\n'
                       '  R complex64  (1+2j) (3.5-1j)'),
 'numpy:big:bools': ('return',
                     'str',
                     '  L float32  0.0 0.3333333432674408 0.6666666865348816 ... 32.66666793823242 '
                     '33.0\n'
                     '  R bool  True False'),
 'numpy:two_d:small_int': ('return', 'str', '  L uint8  0 1 2 ... 10 11\n  R int32  1'),
 'numpy:two_d:two_int8': ('return', 'str', '  L uint8  0 1 2 ... 10 11\n  R int8  2 3'),
 'numpy:two_d:seven': ('return', 'str', '  L uint8  0 1 2 ... 10 11\n  R int64  0 1 2 3 4 5 6'),
 'numpy:two_d:eight': ('return', 'str', '  L uint8  0 1 2 ... 10 11\n  R int64  0 1 2 ... 6 7'),
 'numpy:two_d:big': ('return',
                     'str',
                     '  L uint8  0 1 2 ... 10 11\n'
                     '  R float32  0.0 0.3333333432674408 0.6666666865348816 ... 32.66666793823242 '
                     '33.0'),
 'numpy:two_d:two_d': ('return', 'str', '  L uint8  0 1 2 ... 10 11\n  R uint8  0 1 2 ... 10 11'),
 'numpy:two_d:empty': ('return', 'str', '  L uint8  0 1 2 ... 10 11\n  R float64  '),
 'numpy:two_d:scalar': ('return', 'str', '  L uint8  0 1 2 ... 10 11\n  R int16  5'),
 'numpy:two_d:dates': ('return',
                       'str',
                       '  L uint8  0 1 2 ... 10 11\n'
                       '  R datetime64[ms]  2011-04-27T00:00:00.000 2012-01-01T00:00:00.000'),
 'numpy:two_d:deltas': ('return',
                        'str',
                        '  L uint8  0 1 2 ... 10 11\n'
                        '  R timedelta64[s]  1 seconds 2 seconds 3 seconds ... 8 seconds 9 '
                        'seconds'),
 'numpy:two_d:strings': ('return', 'str', "  L uint8  0 1 2 ... 10 11\n  R <U2  'a' 'bc'"),
 'numpy:two_d:complex': ('return',
                         'str',
                         '  L uint8  0 1 2 ... 10 11\n  R complex64  (1+2j) (3.5-1j)'),
 'numpy:two_d:bools': ('return', 'str', '  L uint8  0 1 2 ... 10 11\n  R bool  True False'),
 'numpy:empty:small_int': ('return', 'str', '  L float64  \n  R int32  1'),
 'numpy:empty:two_int8': ('return', 'str', '  L float64  \n  R int8  2 3'),
 'numpy:empty:seven': ('return', 'str', '  L float64  \n  R int64  0 1 2 3 4 5 6'),
 'numpy:empty:eight': ('return', 'str', '  L float64  \n  R int64  0 1 2 ... 6 7'),
 'numpy:empty:big': ('return',
                     'str',
                     '  L float64  \n'
                     '  R float32  0.0 0.3333333432674408 0.6666666865348816 ... 32.66666793823242 '
                     '33.0'),
 'numpy:empty:two_d': ('return', 'str', '  L float64  \n  R uint8  0 1 2 ... 10 11'),
 'numpy:empty:empty': ('return', 'str', '  L float64  \n  R float64  '),
 'numpy:empty:scalar': ('return', 'str', '  L float64  \n  R int16  5'),
 'numpy:empty:dates': ('return',
                       'str',
                       '  L float64  \n'
                       '  R datetime64[ms]  2011-04-27T00:00:00.000 2012-01-01T00:00:00.000'),
 'numpy:empty:deltas': ('return',
                        'str',
                        '  L float64  \n'
                        '  R timedelta64[s]  1 seconds 2 seconds 3 seconds ... 8 seconds 9 '
                        'seconds'),
 'numpy:empty:strings': ('return', 'str', "  L float64  \n  R <U2  'a' 'bc'"),
 'numpy:empty:complex': ('return', 'str', '  L float64  \n  R complex64  (1+2j) (3.5-1j)'),
 'numpy:empty:bools': ('return', 'str', '  L float64  \n  R bool  True False'),
 'numpy:scalar:small_int': ('return', 'str', '  L int16  5\n  R int32  1'),
 'numpy:scalar:two_int8': ('return', 'str', '  L int16  5\n  R int8  2 3'),
 'numpy:scalar:seven': ('return', 'str', '  L int16  5\n  R int64  0 1 2 3 4 5 6'),
 'numpy:scalar:eight': ('return', 'str', '  L int16  5\n  R int64  0 1 2 ... 6 7'),
 'numpy:scalar:big': ('return',
                      'str',
                      '  L int16  5\n'
                      '  R float32  0.0 0.3333333432674408 0.6666666865348816 ... '
                      '32.66666793823242 33.0'),
 'numpy:scalar:two_d': ('return', 'str', '  L int16  5\n  R uint8  0 1 2 ... 10 11'),
 'numpy:scalar:empty': ('return', 'str', '  L int16  5\n  R float64  '),
 'numpy:scalar:scalar': ('return', 'str', '  L int16  5\n  R int16  5'),
 'numpy:scalar:dates': ('return',
                        'str',
                        '  L int16  5\n'
                        '  R datetime64[ms]  2011-04-27T00:00:00.000 2012-01-01T00:00:00.000'),
 'numpy:scalar:deltas': ('return',
                         'str',
                         '  L int16  5\n'
                         '  R timedelta64[s]  1 seconds 2 seconds 3 seconds ... 8 seconds 9 '
                         'seconds'),
 'numpy:scalar:strings': ('return', 'str', "  L int16  5\n  R <U2  'a' 'bc'"),
 'numpy:scalar:complex': ('return', 'str', '  L int16  5\n  R complex64  (1+2j) (3.5-1j)'),
 'numpy:scalar:bools': ('return', 'str', '  L int16  5\n  R bool  True False'),
 'numpy:dates:small_int': ('return',
                           'str',
                           '  L datetime64[ms]  2011-04-27T00:00:00.000 2012-01-01T00:00:00.000\n'
                           '  R int32  1'),
 'numpy:dates:two_int8': ('return',
                          'str',
                          '  L datetime64[ms]  2011-04-27T00:00:00.000 2012-01-01T00:00:00.000\n'
                          '  R int8  2 3'),
 'numpy:dates:seven': ('return',
                       'str',
                       '  L datetime64[ms]  2011-04-27T00:00:00.000 2012-01-01T00:00:00.000\n'
                       '  R int64  0 1 2 3 4 5 6'),
 'numpy:dates:eight': ('return',
                       'str',
                       '  L datetime64[ms]  2011-04-27T00:00:00.000 2012-01-01T00:00:00.000\n'
                       '  R int64  0 1 2 ... 6 7'),
 'numpy:dates:big': ('return',
                     'str',
                     '  L datetime64[ms]  2011-04-27T00:00:00.000 2012-01-01T00:00:00.000\n'
                     '  R float32  0.0 0.3333333432674408 0.6666666865348816 ... 32.66666793823242 '
                     '33.0'),
 'numpy:dates:two_d': ('return',
                       'str',
                       '  L datetime64[ms]  2011-04-27T00:00:00.000 2012-01-01T00:00:00.000\n'
                       '  R uint8  0 1 2 ... 10 11'),
 'numpy:dates:empty': ('return',
                       'str',
                       '  L datetime64[ms]  2011-04-27T00:00:00.000 2012-01-01T00:00:00.000\n'
                       '  R float64  '),
 'numpy:dates:scalar': ('return',
                        'str',
                        '  L datetime64[ms]  2011-04-27T00:00:00.000 2012-01-01T00:00:00.000\n'
                        '  R int16  5'),
 'numpy:dates:dates': ('return',
                       'str',
                       '  L datetime64[ms]  2011-04-27T00:00:00.000 2012-01-01T00:00:00.000\n'
                       '  R datetime64[ms]  2011-04-27T00:00:00.000 2012-01-01T00:00:00.000'),
 'numpy:dates:deltas': ('return',
                        'str',
                        '  L datetime64[ms]  2011-04-27T00:00:00.000 2012-01-01T00:00:00.000\n'
                        '  R timedelta64[s]  1 seconds 2 seconds 3 seconds ... 8 seconds 9 '
                        'seconds'),
 'numpy:dates:strings': ('return',
                         'str',
                         '  L datetime64[ms]  2011-04-27T00:00:00.000 2012-01-01T00:00:00.000\n'
                         "  R <U2  'a' 'bc'"),
 'numpy:dates:complex': ('return',
                         'str',
                         '  L datetime64[ms]  2011-04-27T00:00:00.000 2012-01-01T00:00:00.000\n'
                         '  R complex64  (1+2j) (3.5-1j)'),
 'numpy:dates:bools': ('return',
                       'str',
                       '  L datetime64[ms]  2011-04-27T00:00:00.000 2012-01-01T00:00:00.000\n'
                       '  R bool  True False'),
 'numpy:deltas:small_int': ('return',
                            'str',
                            '  L timedelta64[s]  1 seconds 2 seconds 3 seconds ... 8 seconds 9 '
                            'seconds\n'
                            '  R int32  1'),
 'numpy:deltas:two_int8': ('return',
                           'str',
                           '  L timedelta64[s]  1 seconds 2 seconds 3 seconds ... 8 seconds 9 '
                           'seconds\n'
                           '  R int8  2 3'),
 'numpy:deltas:seven': ('return',
                        'str',
                        '  L timedelta64[s]  1 seconds 2 seconds 3 seconds ... 8 seconds 9 '
                        'seconds\n'
                        '  R int64  0 1 2 3 4 5 6'),
 'numpy:deltas:eight': ('return',
                        'str',
                        '  L timedelta64[s]  1 seconds 2 seconds 3 seconds ... 8 seconds 9 '
                        'seconds\n'
                        '  R int64  0 1 2 ... 6 7'),
 'numpy:deltas:big': ('return',
                      'str',
                      '  L timedelta64[s]  1 seconds 2 seconds 3 seconds ... 8 seconds 9 seconds\n'
                      '  R float32  0.0 0.3333333432674408 0.6666666865348816 ... '
                      '32.66666793823242 33.0'),
 'numpy:deltas:two_d': ('return',
                        'str',
                        '  L timedelta64[s]  1 seconds 2 seconds 3 seconds ... 8 seconds 9 '
                        'seconds\n'
                        '  R uint8  0 1 2 ... 10 11'),
 'numpy:deltas:empty': ('return',
                        'str',
                        '  L timedelta64[s]  1 seconds 2 seconds 3 seconds ... 8 seconds 9 '
                        'seconds\n'
                        '  R float64  '),
 'numpy:deltas:scalar': ('return',
                         'str',
                         '  L timedelta64[s]  1 seconds 2 seconds 3 seconds ... 8 seconds 9 '
                         'seconds\n'
                         '  R int16  5'),
 'numpy:deltas:dates': ('return',
                        'str',
                        '  L timedelta64[s]  1 seconds 2 seconds 3 seconds ... 8 seconds 9 '
                        'seconds\n'
                        '  R datetime64[ms]  2011-04-27T00:00:00.000 2012-01-01T00:00:00.000'),
 'numpy:deltas:deltas': ('return',
                         'str',
                         '  L timedelta64[s]  1 seconds 2 seconds 3 seconds ... 8 seconds 9 '
                         'seconds\n'
                         '  R timedelta64[s]  1 seconds 2 seconds 3 seconds ... 8 seconds 9 '
                         'seconds'),
 'numpy:deltas:strings': ('return',
                          'str',
                          '  L timedelta64[s]  1 seconds 2 seconds 3 seconds ... 8 seconds 9 '
                          'seconds\n'
                          "  R <U2  'a' 'bc'"),
 'numpy:deltas:complex': ('return',
                          'str',
                          '  L timedelta64[s]  1 seconds 2 seconds 3 seconds ... 8 seconds 9 '
                          'seconds\n'
                          '  R complex64  (1+2j) (3.5-1j)'),
 'numpy:deltas:bools': ('return',
                        'str',
                        '  L timedelta64[s]  1 seconds 2 seconds 3 seconds ... 8 seconds 9 '
                        'seconds\n'
                        '  R bool  True False'),
 'numpy:strings:small_int': ('return', 'str', "  L <U2  'a' 'bc'\n  R int32  1"),
 'numpy:strings:two_int8': ('return', 'str', "  L <U2  'a' 'bc'\n  R int8  2 3"),
 'numpy:strings:seven': ('return', 'str', "  L <U2  'a' 'bc'\n  R int64  0 1 2 3 4 5 6"),
 'numpy:strings:eight': ('return', 'str', "  L <U2  'a' 'bc'\n  R int64  0 1 2 ... 6 7"),
 'numpy:strings:big': ('return',
                       'str',
                       "  L <U2  'a' 'bc'\n"
                       '  R float32  0.0 0.3333333432674408 0.6666666865348816 ... '
                       '32.66666793823242 33.0'),
 'numpy:strings:two_d': ('return', 'str', "  L <U2  'a' 'bc'\n  R uint8  0 1 2 ... 10 11"),
 'numpy:strings:empty': ('return', 'str', "  L <U2  'a' 'bc'\n  R float64  "),
 'numpy:strings:scalar': ('return', 'str', "  L <U2  'a' 'bc'\n  R int16  5"),
 'numpy:strings:dates': ('return',
                         'str',
                         "  L <U2  'a' 'bc'\n"
                         '  R datetime64[ms]  2011-04-27T00:00:00.000 2012-01-01T00:00:00.000'),
 'numpy:strings:deltas': ('return',
                          'str',
                          "  L <U2  'a' 'bc'\n"
                          '  R timedelta64[s]  1 seconds 2 seconds 3 seconds ... 8 seconds 9 '
                          'seconds'),
 'numpy:strings:strings': ('return', 'str', "  L <U2  'a' 'bc'\n  R <U2  'a' 'bc'"),
 'numpy:strings:complex': ('return', 'str', "  L <U2  'a' 'bc'\n  R complex64  (1+2j) (3.5-1j)"),
 'numpy:strings:bools': ('return', 'str', "  L <U2  'a' 'bc'\n  R bool  True False"),
 'numpy:complex:small_int': ('return', 'str', '  L complex64  (1+2j) (3.5-1j)\n  R int32  1'),
 'numpy:complex:two_int8': ('return', 'str', '  L complex64  (1+2j) (3.5-1j)\n  R int8  2 3'),
 'numpy:complex:seven': ('return',
                         'str',
                         '  L complex64  (1+2j) (3.5-1j)\n  R int64  0 1 2 3 4 5 6'),
 'numpy:complex:eight': ('return',
                         'str',
                         '  L complex64  (1+2j) (3.5-1j)\n  R int64  0 1 2 ... 6 7'),
 'numpy:complex:big': ('return',
                       'str',
                       '  L complex64  (1+2j) (3.5-1j)\n'
                       '  R float32  0.0 0.3333333432674408 0.6666666865348816 ... '
                       '32.66666793823242 33.0'),
 'numpy:complex:two_d': ('return',
                         'str',
                         '  L complex64  (1+2j) (3.5-1j)\n  R uint8  0 1 2 ... 10 11'),
 'numpy:complex:empty': ('return', 'str', '  L complex64  (1+2j) (3.5-1j)\n  R float64  '),
 'numpy:complex:scalar': ('return', 'str', '  L complex64  (1+2j) (3.5-1j)\n  R int16  5'),
 'numpy:complex:dates': ('return',
                         'str',
                         '  L complex64  (1+2j) (3.5-1j)\n'
                         '  R datetime64[ms]  2011-04-27T00:00:00.000 2012-01-01T00:00:00.000'),
 'numpy:complex:deltas': ('return',
                          'str',
                          '  L complex64  (1+2j) (3.5-1j)\n'
                          '  R timedelta64[s]  1 seconds 2 seconds 3 seconds ... 8 seconds 9 '
                          'seconds'),
 'numpy:complex:strings': ('return', 'str', "  L complex64  (1+2j) (3.5-1j)\n  R <U2  'a' 'bc'"),
 'numpy:complex:complex': ('return',
                           'str',
                           '  L complex64  (1+2j) (3.5-1j)\n  R complex64  (1+2j) (3.5-1j)'),
 'numpy:complex:bools': ('return', 'str', '  L complex64  (1+2j) (3.5-1j)\n  R bool  True False'),
 'numpy:bools:small_int': ('return', 'str', '  L bool  True False\n  R int32  1'),
 'numpy:bools:two_int8': ('return', 'str', '  L bool  True False\n  R int8  2 3'),
 'numpy:bools:seven': ('return', 'str', '  L bool  True False\n  R int64  0 1 2 3 4 5 6'),
 'numpy:bools:eight': ('return', 'str', '  L bool  True False\n  R int64  0 1 2 ... 6 7'),
 'numpy:bools:big': ('return',
                     'str',
                     '  L bool  True False\n'
                     '  R float32  0.0 0.3333333432674408 0.6666666865348816 ... 32.66666793823242 '
                     '33.0'),
 'numpy:bools:two_d': ('return', 'str', '  L bool  True False\n  R uint8  0 1 2 ... 10 11'),
 'numpy:bools:empty': ('return', 'str', '  L bool  True False\n  R float64  '),
 'numpy:bools:scalar': ('return', 'str', '  L bool  True False\n  R int16  5'),
 'numpy:bools:dates': ('return',
                       'str',
                       '  L bool  True False\n'
                       '  R datetime64[ms]  2011-04-27T00:00:00.000 2012-01-01T00:00:00.000'),
 'numpy:bools:deltas': ('return',
                        'str',
                        '  L bool  True False\n'
                        '  R timedelta64[s]  1 seconds 2 seconds 3 seconds ... 8 seconds 9 '
                        'seconds'),
 'numpy:bools:strings': ('return', 'str', "  L bool  True False\n  R <U2  'a' 'bc'"),
 'numpy:bools:complex': ('return', 'str', '  L bool  True False\n  R complex64  (1+2j) (3.5-1j)'),
 'numpy:bools:bools': ('return', 'str', '  L bool  True False\n  R bool  True False'),
 'numpy:array_right': ('return',
                       'str',
                       '  L int64  0 1 2 3 4 5 6\n'
                       '  R Array(shape=(4, 3), dtype=int16, rpc=2)\n'
                       '    url: memory:///path/to/file'),
 'numpy:list_left': ('return', 'str', '  L int64  1 2 3\n  R int64  0 1 2 3 4 5 6'),
 'numpy:list_both': ('return', 'str', '  L int64  1 2\n  R float64  1.5 2.5'),
 'numpy:none_left': ('raise', 'AttributeError', "'NoneType' object has no attribute 'dtype'"),
 'numpy:missing_arg': ('raise',
                       'TypeError',
                       "diff_array() missing 1 required positional argument: 'b'"),
 'diff_data:protocol': ('return',
                        'str',
                        'Differing data:\n'
                        '  Differing filesystem:\n'
                        '    L protocol  memory\n'
                        "    R protocol  ('file', 'local')"),
 'diff_variable:protocol': ('return',
                            'str',
                            'Left and right Variable objects are not equal\n'
                            '  Differing data:\n'
                            '    Differing filesystem:\n'
                            '      L protocol  memory\n'
                            "      R protocol  ('file', 'local')"),
 'assert_identical:array:protocol': ('raise',
                                     'AssertionError',
                                     'Differing filesystem:\n'
                                     '  L protocol  memory\n'
                                     "  R protocol  ('file', 'local')"),
 'assert_identical:variable:protocol': ('raise',
                                        'AssertionError',
                                        'Left and right Variable objects are not equal\n'
                                        '  Differing data:\n'
                                        '    Differing filesystem:\n'
                                        '      L protocol  memory\n'
                                        "      R protocol  ('file', 'local')"),
 'assert_identical:group:protocol': ('raise',
                                     'AssertionError',
                                     'Left and right Group objects are not equal\n'
                                     '  Differing groups:\n'
                                     '    Group /:\n'
                                     '      Variables:\n'
                                     '        Differing variables:\n'
                                     '           L data  (rows, columns)    Array(shape=(4, 3), '
                                     'dtype=int16, rpc=2)\n'
                                     '             url: memory:///path/to/file\n'
                                     '             a: 1\n'
                                     '           R data  (rows, columns)    Array(shape=(4, 3), '
                                     'dtype=int16, rpc=2)\n'
                                     "             url: ('file', 'local'):///path/to/file\n"
                                     '             a: 1'),
 'diff_tree:protocol': ('return',
                        'str',
                        'Left and right Group objects are not equal\n'
                        '  Differing groups:\n'
                        '    Group /:\n'
                        '      Variables:\n'
                        '        Differing variables:\n'
                        '           L data  (rows, columns)    Array(shape=(4, 3), dtype=int16, '
                        'rpc=2)\n'
                        '             url: memory:///path/to/file\n'
                        '             a: 1\n'
                        '           R data  (rows, columns)    Array(shape=(4, 3), dtype=int16, '
                        'rpc=2)\n'
                        "             url: ('file', 'local'):///path/to/file\n"
                        '             a: 1'),
 'diff_data:path': ('return',
                    'str',
                    'Differing data:\n'
                    '  Differing filesystem:\n'
                    '    L path  /path/to\n'
                    '    R path  /somewhere/else'),
 'diff_variable:path': ('return',
                        'str',
                        'Left and right Variable objects are not equal\n'
                        '  Differing data:\n'
                        '    Differing filesystem:\n'
                        '      L path  /path/to\n'
                        '      R path  /somewhere/else'),
 'assert_identical:array:path': ('raise',
                                 'AssertionError',
                                 'Differing filesystem:\n'
                                 '  L path  /path/to\n'
                                 '  R path  /somewhere/else'),
 'assert_identical:variable:path': ('raise',
                                    'AssertionError',
                                    'Left and right Variable objects are not equal\n'
                                    '  Differing data:\n'
                                    '    Differing filesystem:\n'
                                    '      L path  /path/to\n'
                                    '      R path  /somewhere/else'),
 'assert_identical:group:path': ('raise',
                                 'AssertionError',
                                 'Left and right Group objects are not equal\n'
                                 '  Differing groups:\n'
                                 '    Group /:\n'
                                 '      Variables:\n'
                                 '        Differing variables:\n'
                                 '           L data  (rows, columns)    Array(shape=(4, 3), '
                                 'dtype=int16, rpc=2)\n'
                                 '             url: memory:///path/to/file\n'
                                 '             a: 1\n'
                                 '           R data  (rows, columns)    Array(shape=(4, 3), '
                                 'dtype=int16, rpc=2)\n'
                                 '             url: memory:///somewhere/else/file\n'
                                 '             a: 1'),
 'diff_tree:path': ('return',
                    'str',
                    'Left and right Group objects are not equal\n'
                    '  Differing groups:\n'
                    '    Group /:\n'
                    '      Variables:\n'
                    '        Differing variables:\n'
                    '           L data  (rows, columns)    Array(shape=(4, 3), dtype=int16, '
                    'rpc=2)\n'
                    '             url: memory:///path/to/file\n'
                    '             a: 1\n'
                    '           R data  (rows, columns)    Array(shape=(4, 3), dtype=int16, '
                    'rpc=2)\n'
                    '             url: memory:///somewhere/else/file\n'
                    '             a: 1'),
 'diff_data:url': ('return',
                   'str',
                   'Differing data:\n  Differing urls:\n    L url  file\n    R url  other'),
 'diff_variable:url': ('return',
                       'str',
                       'Left and right Variable objects are not equal\n'
                       '  Differing data:\n'
                       '    Differing urls:\n'
                       '      L url  file\n'
                       '      R url  other'),
 'assert_identical:array:url': ('raise',
                                'AssertionError',
                                'Differing urls:\n  L url  file\n  R url  other'),
 'assert_identical:variable:url': ('raise',
                                   'AssertionError',
                                   'Left and right Variable objects are not equal\n'
                                   '  Differing data:\n'
                                   '    Differing urls:\n'
                                   '      L url  file\n'
                                   '      R url  other'),
 'assert_identical:group:url': ('raise',
                                'AssertionError',
                                'Left and right Group objects are not equal\n'
                                '  Differing groups:\n'
                                '    Group /:\n'
                                '      Variables:\n'
                                '        Differing variables:\n'
                                '           L data  (rows, columns)    Array(shape=(4, 3), '
                                'dtype=int16, rpc=2)\n'
                                '             url: memory:///path/to/file\n'
                                '             a: 1\n'
                                '           R data  (rows, columns)    Array(shape=(4, 3), '
                                'dtype=int16, rpc=2)\n'
                                '             url: memory:///path/to/other\n'
                                '             a: 1'),
 'diff_tree:url': ('return',
                   'str',
                   'Left and right Group objects are not equal\n'
                   '  Differing groups:\n'
                   '    Group /:\n'
                   '      Variables:\n'
                   '        Differing variables:\n'
                   '           L data  (rows, columns)    Array(shape=(4, 3), dtype=int16, rpc=2)\n'
                   '             url: memory:///path/to/file\n'
                   '             a: 1\n'
                   '           R data  (rows, columns)    Array(shape=(4, 3), dtype=int16, rpc=2)\n'
                   '             url: memory:///path/to/other\n'
                   '             a: 1'),
 'diff_data:byte_ranges_values': ('return',
                                  'str',
                                  'Differing data:\n'
                                  '  Differing byte ranges:\n'
                                  '    L line 2  (15, 20)\n'
                                  '    R line 2  (15, 21)\n'
                                  '    L line 4  (35, 40)\n'
                                  '    R line 4  (36, 40)'),
 'diff_variable:byte_ranges_values': ('return',
                                      'str',
                                      'Left and right Variable objects are not equal\n'
                                      '  Differing data:\n'
                                      '    Differing byte ranges:\n'
                                      '      L line 2  (15, 20)\n'
                                      '      R line 2  (15, 21)\n'
                                      '      L line 4  (35, 40)\n'
                                      '      R line 4  (36, 40)'),
 'assert_identical:array:byte_ranges_values': ('raise',
                                               'AssertionError',
                                               'Differing byte ranges:\n'
                                               '  L line 2  (15, 20)\n'
                                               '  R line 2  (15, 21)\n'
                                               '  L line 4  (35, 40)\n'
                                               '  R line 4  (36, 40)'),
 'assert_identical:variable:byte_ranges_values': ('raise',
                                                  'AssertionError',
                                                  'Left and right Variable objects are not equal\n'
                                                  '  Differing data:\n'
                                                  '    Differing byte ranges:\n'
                                                  '      L line 2  (15, 20)\n'
                                                  '      R line 2  (15, 21)\n'
                                                  '      L line 4  (35, 40)\n'
                                                  '      R line 4  (36, 40)'),
 'assert_identical:group:byte_ranges_values': ('raise',
                                               'AssertionError',
                                               'Left and right Group objects are not equal\n'
                                               '  Differing groups:\n'
                                               '    Group /:\n'
                                               '      Variables:\n'
                                               '        Differing variables:\n'
                                               '           L data  (rows, columns)    '
                                               'Array(shape=(4, 3), dtype=int16, rpc=2)\n'
                                               '             url: memory:///path/to/file\n'
                                               '             a: 1\n'
                                               '           R data  (rows, columns)    '
                                               'Array(shape=(4, 3), dtype=int16, rpc=2)\n'
                                               '             url: memory:///path/to/file\n'
                                               '             a: 1'),
 'diff_tree:byte_ranges_values': ('return',
                                  'str',
                                  'Left and right Group objects are not equal\n'
                                  '  Differing groups:\n'
                                  '    Group /:\n'
                                  '      Variables:\n'
                                  '        Differing variables:\n'
                                  '           L data  (rows, columns)    Array(shape=(4, 3), '
                                  'dtype=int16, rpc=2)\n'
                                  '             url: memory:///path/to/file\n'
                                  '             a: 1\n'
                                  '           R data  (rows, columns)    Array(shape=(4, 3), '
                                  'dtype=int16, rpc=2)\n'
                                  '             url: memory:///path/to/file\n'
                                  '             a: 1'),
 'diff_data:byte_ranges_longer': ('return',
                                  'str',
                                  'Differing data:\n'
                                  '  Differing byte ranges:\n'
                                  '    L line 5  None\n'
                                  '    R line 5  (45, 50)\n'
                                  '    L line 6  None\n'
                                  '    R line 6  (55, 60)'),
 'diff_variable:byte_ranges_longer': ('return',
                                      'str',
                                      'Left and right Variable objects are not equal\n'
                                      '  Differing data:\n'
                                      '    Differing byte ranges:\n'
                                      '      L line 5  None\n'
                                      '      R line 5  (45, 50)\n'
                                      '      L line 6  None\n'
                                      '      R line 6  (55, 60)'),
 'assert_identical:array:byte_ranges_longer': ('raise',
                                               'AssertionError',
                                               'Differing byte ranges:\n'
                                               '  L line 5  None\n'
                                               '  R line 5  (45, 50)\n'
                                               '  L line 6  None\n'
                                               '  R line 6  (55, 60)'),
 'assert_identical:variable:byte_ranges_longer': ('raise',
                                                  'AssertionError',
                                                  'Left and right Variable objects are not equal\n'
                                                  '  Differing data:\n'
                                                  '    Differing byte ranges:\n'
                                                  '      L line 5  None\n'
                                                  '      R line 5  (45, 50)\n'
                                                  '      L line 6  None\n'
                                                  '      R line 6  (55, 60)'),
 'assert_identical:group:byte_ranges_longer': ('raise',
                                               'AssertionError',
                                               'Left and right Group objects are not equal\n'
                                               '  Differing groups:\n'
                                               '    Group /:\n'
                                               '      Variables:\n'
                                               '        Differing variables:\n'
                                               '           L data  (rows, columns)    '
                                               'Array(shape=(4, 3), dtype=int16, rpc=2)\n'
                                               '             url: memory:///path/to/file\n'
                                               '             a: 1\n'
                                               '           R data  (rows, columns)    '
                                               'Array(shape=(4, 3), dtype=int16, rpc=2)\n'
                                               '             url: memory:///path/to/file\n'
                                               '             a: 1'),
 'diff_tree:byte_ranges_longer': ('return',
                                  'str',
                                  'Left and right Group objects are not equal\n'
                                  '  Differing groups:\n'
                                  '    Group /:\n'
                                  '      Variables:\n'
                                  '        Differing variables:\n'
                                  '           L data  (rows, columns)    Array(shape=(4, 3), '
                                  'dtype=int16, rpc=2)\n'
                                  '             url: memory:///path/to/file\n'
                                  '             a: 1\n'
                                  '           R data  (rows, columns)    Array(shape=(4, 3), '
                                  'dtype=int16, rpc=2)\n'
                                  '             url: memory:///path/to/file\n'
                                  '             a: 1'),
 'diff_data:byte_ranges_shorter': ('return',
                                   'str',
                                   'Differing data:\n'
                                   '  Differing byte ranges:\n'
                                   '    L line 3  (25, 30)\n'
                                   '    R line 3  None\n'
                                   '    L line 4  (35, 40)\n'
                                   '    R line 4  None'),
 'diff_variable:byte_ranges_shorter': ('return',
                                       'str',
                                       'Left and right Variable objects are not equal\n'
                                       '  Differing data:\n'
                                       '    Differing byte ranges:\n'
                                       '      L line 3  (25, 30)\n'
                                       '      R line 3  None\n'
                                       '      L line 4  (35, 40)\n'
                                       '      R line 4  None'),
 'assert_identical:array:byte_ranges_shorter': ('raise',
                                                'AssertionError',
                                                'Differing byte ranges:\n'
                                                '  L line 3  (25, 30)\n'
                                                '  R line 3  None\n'
                                                '  L line 4  (35, 40)\n'
                                                '  R line 4  None'),
 'assert_identical:variable:byte_ranges_shorter': ('raise',
                                                   'AssertionError',
                                                   'Left and right Variable objects are not equal\n'
                                                   '  Differing data:\n'
                                                   '    Differing byte ranges:\n'
                                                   '      L line 3  (25, 30)\n'
                                                   '      R line 3  None\n'
                                                   '      L line 4  (35, 40)\n'
                                                   '      R line 4  None'),
 'assert_identical:group:byte_ranges_shorter': ('raise',
                                                'AssertionError',
                                                'Left and right Group objects are not equal\n'
                                                '  Differing groups:\n'
                                                '    Group /:\n'
                                                '      Variables:\n'
                                                '        Differing variables:\n'
                                                '           L data  (rows, columns)    '
                                                'Array(shape=(4, 3), dtype=int16, rpc=2)\n'
                                                '             url: memory:///path/to/file\n'
                                                '             a: 1\n'
                                                '           R data  (rows, columns)    '
                                                'Array(shape=(4, 3), dtype=int16, rpc=2)\n'
                                                '             url: memory:///path/to/file\n'
                                                '             a: 1'),
 'diff_tree:byte_ranges_shorter': ('return',
                                   'str',
                                   'Left and right Group objects are not equal\n'
                                   '  Differing groups:\n'
                                   '    Group /:\n'
                                   '      Variables:\n'
                                   '        Differing variables:\n'
                                   '           L data  (rows, columns)    Array(shape=(4, 3), '
                                   'dtype=int16, rpc=2)\n'
                                   '             url: memory:///path/to/file\n'
                                   '             a: 1\n'
                                   '           R data  (rows, columns)    Array(shape=(4, 3), '
                                   'dtype=int16, rpc=2)\n'
                                   '             url: memory:///path/to/file\n'
                                   '             a: 1'),
 'diff_data:byte_ranges_empty': ('return',
                                 'str',
                                 'Differing data:\n'
                                 '  Differing byte ranges:\n'
                                 '    L line 1  (5, 10)\n'
                                 '    R line 1  None\n'
                                 '    L line 2  (15, 20)\n'
                                 '    R line 2  None\n'
                                 '    L line 3  (25, 30)\n'
                                 '    R line 3  None\n'
                                 '    L line 4  (35, 40)\n'
                                 '    R line 4  None'),
 'diff_variable:byte_ranges_empty': ('return',
                                     'str',
                                     'Left and right Variable objects are not equal\n'
                                     '  Differing data:\n'
                                     '    Differing byte ranges:\n'
                                     '      L line 1  (5, 10)\n'
                                     '      R line 1  None\n'
                                     '      L line 2  (15, 20)\n'
                                     '      R line 2  None\n'
                                     '      L line 3  (25, 30)\n'
                                     '      R line 3  None\n'
                                     '      L line 4  (35, 40)\n'
                                     '      R line 4  None'),
 'assert_identical:array:byte_ranges_empty': ('raise',
                                              'AssertionError',
                                              'Differing byte ranges:\n'
                                              '  L line 1  (5, 10)\n'
                                              '  R line 1  None\n'
                                              '  L line 2  (15, 20)\n'
                                              '  R line 2  None\n'
                                              '  L line 3  (25, 30)\n'
                                              '  R line 3  None\n'
                                              '  L line 4  (35, 40)\n'
                                              '  R line 4  None'),
 'assert_identical:variable:byte_ranges_empty': ('raise',
                                                 'AssertionError',
                                                 'Left and right Variable objects are not equal\n'
                                                 '  Differing data:\n'
                                                 '    Differing byte ranges:\n'
                                                 '      L line 1  (5, 10)\n'
                                                 '      R line 1  None\n'
                                                 '      L line 2  (15, 20)\n'
                                                 '      R line 2  None\n'
                                                 '      L line 3  (25, 30)\n'
                                                 '      R line 3  None\n'
                                                 '      L line 4  (35, 40)\n'
                                                 '      R line 4  None'),
 'assert_identical:group:byte_ranges_empty': ('raise',
                                              'AssertionError',
                                              'Left and right Group objects are not equal\n'
                                              '  Differing groups:\n'
                                              '    Group /:\n'
                                              '      Variables:\n'
                                              '        Differing variables:\n'
                                              '           L data  (rows, columns)    '
                                              'Array(shape=(4, 3), dtype=int16, rpc=2)\n'
                                              '             url: memory:///path/to/file\n'
                                              '             a: 1\n'
                                              '           R data  (rows, columns)    '
                                              'Array(shape=(4, 3), dtype=int16, rpc=2)\n'
                                              '             url: memory:///path/to/file\n'
                                              '             a: 1'),
 'diff_tree:byte_ranges_empty': ('return',
                                 'str',
                                 'Left and right Group objects are not equal\n'
                                 '  Differing groups:\n'
                                 '    Group /:\n'
                                 '      Variables:\n'
                                 '        Differing variables:\n'
                                 '           L data  (rows, columns)    Array(shape=(4, 3), '
                                 'dtype=int16, rpc=2)\n'
                                 '             url: memory:///path/to/file\n'
                                 '             a: 1\n'
                                 '           R data  (rows, columns)    Array(shape=(4, 3), '
                                 'dtype=int16, rpc=2)\n'
                                 '             url: memory:///path/to/file\n'
                                 '             a: 1'),
 'diff_data:byte_ranges_tuple': ('return', 'str', 'Differing data:\n  Differing byte ranges:'),
 'diff_variable:byte_ranges_tuple': ('return',
                                     'str',
                                     'Left and right Variable objects are not equal\n'
                                     '  Differing data:\n'
                                     '    Differing byte ranges:'),
 'assert_identical:array:byte_ranges_tuple': ('raise', 'AssertionError', 'Differing byte ranges:'),
 'assert_identical:variable:byte_ranges_tuple': ('raise',
                                                 'AssertionError',
                                                 'Left and right Variable objects are not equal\n'
                                                 '  Differing data:\n'
                                                 '    Differing byte ranges:'),
 'assert_identical:group:byte_ranges_tuple': ('raise',
                                              'AssertionError',
                                              'Left and right Group objects are not equal\n'
                                              '  Differing groups:\n'
                                              '    Group /:\n'
                                              '      Variables:\n'
                                              '        Differing variables:\n'
                                              '           L data  (rows, columns)    '
                                              'Array(shape=(4, 3), dtype=int16, rpc=2)\n'
                                              '             url: memory:///path/to/file\n'
                                              '             a: 1\n'
                                              '           R data  (rows, columns)    '
                                              'Array(shape=(4, 3), dtype=int16, rpc=2)\n'
                                              '             url: memory:///path/to/file\n'
                                              '             a: 1'),
 'diff_tree:byte_ranges_tuple': ('return',
                                 'str',
                                 'Left and right Group objects are not equal\n'
                                 '  Differing groups:\n'
                                 '    Group /:\n'
                                 '      Variables:\n'
                                 '        Differing variables:\n'
                                 '           L data  (rows, columns)    Array(shape=(4, 3), '
                                 'dtype=int16, rpc=2)\n'
                                 '             url: memory:///path/to/file\n'
                                 '             a: 1\n'
                                 '           R data  (rows, columns)    Array(shape=(4, 3), '
                                 'dtype=int16, rpc=2)\n'
                                 '             url: memory:///path/to/file\n'
                                 '             a: 1'),
 'diff_data:shape': ('return',
                     'str',
                     'Differing data:\n'
                     '  Differing byte ranges:\n'
                     '    L line 5  None\n'
                     '    R line 5  (45, 50)\n'
                     '    L line 6  None\n'
                     '    R line 6  (55, 60)\n'
                     '  Differing shapes:\n'
                     '    (4, 3) != (6, 3)'),
 'diff_variable:shape': ('return',
                         'str',
                         'Left and right Variable objects are not equal\n'
                         '  Differing data:\n'
                         '    Differing byte ranges:\n'
                         '      L line 5  None\n'
                         '      R line 5  (45, 50)\n'
                         '      L line 6  None\n'
                         '      R line 6  (55, 60)\n'
                         '    Differing shapes:\n'
                         '      (4, 3) != (6, 3)'),
 'assert_identical:array:shape': ('raise',
                                  'AssertionError',
                                  'Differing byte ranges:\n'
                                  '  L line 5  None\n'
                                  '  R line 5  (45, 50)\n'
                                  '  L line 6  None\n'
                                  '  R line 6  (55, 60)\n'
                                  'Differing shapes:\n'
                                  '  (4, 3) != (6, 3)'),
 'assert_identical:variable:shape': ('raise',
                                     'AssertionError',
                                     'Left and right Variable objects are not equal\n'
                                     '  Differing data:\n'
                                     '    Differing byte ranges:\n'
                                     '      L line 5  None\n'
                                     '      R line 5  (45, 50)\n'
                                     '      L line 6  None\n'
                                     '      R line 6  (55, 60)\n'
                                     '    Differing shapes:\n'
                                     '      (4, 3) != (6, 3)'),
 'assert_identical:group:shape': ('raise',
                                  'AssertionError',
                                  'Left and right Group objects are not equal\n'
                                  '  Differing groups:\n'
                                  '    Group /:\n'
                                  '      Variables:\n'
                                  '        Differing variables:\n'
                                  '           L data  (rows, columns)    Array(shape=(4, 3), '
                                  'dtype=int16, rpc=2)\n'
                                  '             url: memory:///path/to/file\n'
                                  '             a: 1\n'
                                  '           R data  (rows, columns)    Array(shape=(6, 3), '
                                  'dtype=int16, rpc=2)\n'
                                  '             url: memory:///path/to/file\n'
                                  '             a: 1'),
 'diff_tree:shape': ('return',
                     'str',
                     'Left and right Group objects are not equal\n'
                     '  Differing groups:\n'
                     '    Group /:\n'
                     '      Variables:\n'
                     '        Differing variables:\n'
                     '           L data  (rows, columns)    Array(shape=(4, 3), dtype=int16, '
                     'rpc=2)\n'
                     '             url: memory:///path/to/file\n'
                     '             a: 1\n'
                     '           R data  (rows, columns)    Array(shape=(6, 3), dtype=int16, '
                     'rpc=2)\n'
                     '             url: memory:///path/to/file\n'
                     '             a: 1'),
 'diff_data:shape_cols': ('return',
                          'str',
                          'Differing data:\n  Differing shapes:\n    (4, 3) != (4, 5)'),
 'diff_variable:shape_cols': ('return',
                              'str',
                              'Left and right Variable objects are not equal\n'
                              '  Differing data:\n'
                              '    Differing shapes:\n'
                              '      (4, 3) != (4, 5)'),
 'assert_identical:array:shape_cols': ('raise',
                                       'AssertionError',
                                       'Differing shapes:\n  (4, 3) != (4, 5)'),
 'assert_identical:variable:shape_cols': ('raise',
                                          'AssertionError',
                                          'Left and right Variable objects are not equal\n'
                                          '  Differing data:\n'
                                          '    Differing shapes:\n'
                                          '      (4, 3) != (4, 5)'),
 'assert_identical:group:shape_cols': ('raise',
                                       'AssertionError',
                                       'Left and right Group objects are not equal\n'
                                       '  Differing groups:\n'
                                       '    Group /:\n'
                                       '      Variables:\n'
                                       '        Differing variables:\n'
                                       '           L data  (rows, columns)    Array(shape=(4, 3), '
                                       'dtype=int16, rpc=2)\n'
                                       '             url: memory:///path/to/file\n'
                                       '             a: 1\n'
                                       '           R data  (rows, columns)    Array(shape=(4, 5), '
                                       'dtype=int16, rpc=2)\n'
                                       '             url: memory:///path/to/file\n'
                                       '             a: 1'),
 'diff_tree:shape_cols': ('return',
                          'str',
                          'Left and right Group objects are not equal\n'
                          '  Differing groups:\n'
                          '    Group /:\n'
                          '      Variables:\n'
                          '        Differing variables:\n'
                          '           L data  (rows, columns)    Array(shape=(4, 3), dtype=int16, '
                          'rpc=2)\n'
                          '             url: memory:///path/to/file\n'
                          '             a: 1\n'
                          '           R data  (rows, columns)    Array(shape=(4, 5), dtype=int16, '
                          'rpc=2)\n'
                          '             url: memory:///path/to/file\n'
                          '             a: 1'),
 'diff_data:dtype': ('return', 'str', 'Differing data:\n  Differing dtypes:\n    int16 != int8'),
 'diff_variable:dtype': ('return',
                         'str',
                         'Left and right Variable objects are not equal\n'
                         '  Differing data:\n'
                         '    Differing dtypes:\n'
                         '      int16 != int8'),
 'assert_identical:array:dtype': ('raise', 'AssertionError', 'Differing dtypes:\n  int16 != int8'),
 'assert_identical:variable:dtype': ('raise',
                                     'AssertionError',
                                     'Left and right Variable objects are not equal\n'
                                     '  Differing data:\n'
                                     '    Differing dtypes:\n'
                                     '      int16 != int8'),
 'assert_identical:group:dtype': ('raise',
                                  'AssertionError',
                                  'Left and right Group objects are not equal\n'
                                  '  Differing groups:\n'
                                  '    Group /:\n'
                                  '      Variables:\n'
                                  '        Differing variables:\n'
                                  '           L data  (rows, columns)    Array(shape=(4, 3), '
                                  'dtype=int16, rpc=2)\n'
                                  '             url: memory:///path/to/file\n'
                                  '             a: 1\n'
                                  '           R data  (rows, columns)    Array(shape=(4, 3), '
                                  'dtype=int8, rpc=2)\n'
                                  '             url: memory:///path/to/file\n'
                                  '             a: 1'),
 'diff_tree:dtype': ('return',
                     'str',
                     'Left and right Group objects are not equal\n'
                     '  Differing groups:\n'
                     '    Group /:\n'
                     '      Variables:\n'
                     '        Differing variables:\n'
                     '           L data  (rows, columns)    Array(shape=(4, 3), dtype=int16, '
                     'rpc=2)\n'
                     '             url: memory:///path/to/file\n'
                     '             a: 1\n'
                     '           R data  (rows, columns)    Array(shape=(4, 3), dtype=int8, '
                     'rpc=2)\n'
                     '             url: memory:///path/to/file\n'
                     '             a: 1'),
 'diff_data:dtype_complex': ('return',
                             'str',
                             'Differing data:\n  Differing dtypes:\n    int16 != complex64'),
 'diff_variable:dtype_complex': ('return',
                                 'str',
                                 'Left and right Variable objects are not equal\n'
                                 '  Differing data:\n'
                                 '    Differing dtypes:\n'
                                 '      int16 != complex64'),
 'assert_identical:array:dtype_complex': ('raise',
                                          'AssertionError',
                                          'Differing dtypes:\n  int16 != complex64'),
 'assert_identical:variable:dtype_complex': ('raise',
                                             'AssertionError',
                                             'Left and right Variable objects are not equal\n'
                                             '  Differing data:\n'
                                             '    Differing dtypes:\n'
                                             '      int16 != complex64'),
 'assert_identical:group:dtype_complex': ('raise',
                                          'AssertionError',
                                          'Left and right Group objects are not equal\n'
                                          '  Differing groups:\n'
                                          '    Group /:\n'
                                          '      Variables:\n'
                                          '        Differing variables:\n'
                                          '           L data  (rows, columns)    Array(shape=(4, '
                                          '3), dtype=int16, rpc=2)\n'
                                          '             url: memory:///path/to/file\n'
                                          '             a: 1\n'
                                          '           R data  (rows, columns)    Array(shape=(4, '
                                          '3), dtype=complex64, rpc=2)\n'
                                          '             url: memory:///path/to/file\n'
                                          '             a: 1'),
 'diff_tree:dtype_complex': ('return',
                             'str',
                             'Left and right Group objects are not equal\n'
                             '  Differing groups:\n'
                             '    Group /:\n'
                             '      Variables:\n'
                             '        Differing variables:\n'
                             '           L data  (rows, columns)    Array(shape=(4, 3), '
                             'dtype=int16, rpc=2)\n'
                             '             url: memory:///path/to/file\n'
                             '             a: 1\n'
                             '           R data  (rows, columns)    Array(shape=(4, 3), '
                             'dtype=complex64, rpc=2)\n'
                             '             url: memory:///path/to/file\n'
                             '             a: 1'),
 'diff_data:dtype_object': ('return', 'str', 'Differing data:\n'),
 'diff_variable:dtype_object': ('return', 'str', 'Left and right Variable objects are not equal\n'),
 'assert_identical:array:dtype_object': ('return', 'NoneType', 'None'),
 'assert_identical:variable:dtype_object': ('return', 'NoneType', 'None'),
 'assert_identical:group:dtype_object': ('return', 'NoneType', 'None'),
 'diff_tree:dtype_object': ('return', 'str', 'Left and right Group objects are not equal\n'),
 'diff_data:type_code': ('return',
                         'str',
                         'Differing data:\n'
                         '  Differing type code:\n'
                         '    L type_code  IU2\n'
                         '    R type_code  C*8'),
 'diff_variable:type_code': ('return',
                             'str',
                             'Left and right Variable objects are not equal\n'
                             '  Differing data:\n'
                             '    Differing type code:\n'
                             '      L type_code  IU2\n'
                             '      R type_code  C*8'),
 'assert_identical:array:type_code': ('raise',
                                      'AssertionError',
                                      'Differing type code:\n'
                                      '  L type_code  IU2\n'
                                      '  R type_code  C*8'),
 'assert_identical:variable:type_code': ('raise',
                                         'AssertionError',
                                         'Left and right Variable objects are not equal\n'
                                         '  Differing data:\n'
                                         '    Differing type code:\n'
                                         '      L type_code  IU2\n'
                                         '      R type_code  C*8'),
 'assert_identical:group:type_code': ('raise',
                                      'AssertionError',
                                      'Left and right Group objects are not equal\n'
                                      '  Differing groups:\n'
                                      '    Group /:\n'
                                      '      Variables:\n'
                                      '        Differing variables:\n'
                                      '           L data  (rows, columns)    Array(shape=(4, 3), '
                                      'dtype=int16, rpc=2)\n'
                                      '             url: memory:///path/to/file\n'
                                      '             a: 1\n'
                                      '           R data  (rows, columns)    Array(shape=(4, 3), '
                                      'dtype=int16, rpc=2)\n'
                                      '             url: memory:///path/to/file\n'
                                      '             a: 1'),
 'diff_tree:type_code': ('return',
                         'str',
                         'Left and right Group objects are not equal\n'
                         '  Differing groups:\n'
                         '    Group /:\n'
                         '      Variables:\n'
                         '        Differing variables:\n'
                         '           L data  (rows, columns)    Array(shape=(4, 3), dtype=int16, '
                         'rpc=2)\n'
                         '             url: memory:///path/to/file\n'
                         '             a: 1\n'
                         '           R data  (rows, columns)    Array(shape=(4, 3), dtype=int16, '
                         'rpc=2)\n'
                         '             url: memory:///path/to/file\n'
                         '             a: 1'),
 'diff_data:rpc': ('return',
                   'str',
                   'Differing data:\n'
                   '  Differing chunksizes:\n'
                   '    L records_per_chunk  2\n'
                   '    R records_per_chunk  1'),
 'diff_variable:rpc': ('return',
                       'str',
                       'Left and right Variable objects are not equal\n'
                       '  Differing data:\n'
                       '    Differing chunksizes:\n'
                       '      L records_per_chunk  2\n'
                       '      R records_per_chunk  1'),
 'assert_identical:array:rpc': ('raise',
                                'AssertionError',
                                'Differing chunksizes:\n'
                                '  L records_per_chunk  2\n'
                                '  R records_per_chunk  1'),
 'assert_identical:variable:rpc': ('raise',
                                   'AssertionError',
                                   'Left and right Variable objects are not equal\n'
                                   '  Differing data:\n'
                                   '    Differing chunksizes:\n'
                                   '      L records_per_chunk  2\n'
                                   '      R records_per_chunk  1'),
 'assert_identical:group:rpc': ('raise',
                                'AssertionError',
                                'Left and right Group objects are not equal\n'
                                '  Differing groups:\n'
                                '    Group /:\n'
                                '      Variables:\n'
                                '        Differing variables:\n'
                                '           L data  (rows, columns)    Array(shape=(4, 3), '
                                'dtype=int16, rpc=2)\n'
                                '             url: memory:///path/to/file\n'
                                '             a: 1\n'
                                '           R data  (rows, columns)    Array(shape=(4, 3), '
                                'dtype=int16, rpc=1)\n'
                                '             url: memory:///path/to/file\n'
                                '             a: 1'),
 'diff_tree:rpc': ('return',
                   'str',
                   'Left and right Group objects are not equal\n'
                   '  Differing groups:\n'
                   '    Group /:\n'
                   '      Variables:\n'
                   '        Differing variables:\n'
                   '           L data  (rows, columns)    Array(shape=(4, 3), dtype=int16, rpc=2)\n'
                   '             url: memory:///path/to/file\n'
                   '             a: 1\n'
                   '           R data  (rows, columns)    Array(shape=(4, 3), dtype=int16, rpc=1)\n'
                   '             url: memory:///path/to/file\n'
                   '             a: 1'),
 'diff_data:rpc_none': ('return',
                        'str',
                        'Differing data:\n'
                        '  Differing chunksizes:\n'
                        '    L records_per_chunk  2\n'
                        '    R records_per_chunk  1024'),
 'diff_variable:rpc_none': ('return',
                            'str',
                            'Left and right Variable objects are not equal\n'
                            '  Differing data:\n'
                            '    Differing chunksizes:\n'
                            '      L records_per_chunk  2\n'
                            '      R records_per_chunk  1024'),
 'assert_identical:array:rpc_none': ('raise',
                                     'AssertionError',
                                     'Differing chunksizes:\n'
                                     '  L records_per_chunk  2\n'
                                     '  R records_per_chunk  1024'),
 'assert_identical:variable:rpc_none': ('raise',
                                        'AssertionError',
                                        'Left and right Variable objects are not equal\n'
                                        '  Differing data:\n'
                                        '    Differing chunksizes:\n'
                                        '      L records_per_chunk  2\n'
                                        '      R records_per_chunk  1024'),
 'assert_identical:group:rpc_none': ('raise',
                                     'AssertionError',
                                     'Left and right Group objects are not equal\n'
                                     '  Differing groups:\n'
                                     '    Group /:\n'
                                     '      Variables:\n'
                                     '        Differing variables:\n'
                                     '           L data  (rows, columns)    Array(shape=(4, 3), '
                                     'dtype=int16, rpc=2)\n'
                                     '             url: memory:///path/to/file\n'
                                     '             a: 1\n'
                                     '           R data  (rows, columns)    Array(shape=(4, 3), '
                                     'dtype=int16, rpc=1024)\n'
                                     '             url: memory:///path/to/file\n'
                                     '             a: 1'),
 'diff_tree:rpc_none': ('return',
                        'str',
                        'Left and right Group objects are not equal\n'
                        '  Differing groups:\n'
                        '    Group /:\n'
                        '      Variables:\n'
                        '        Differing variables:\n'
                        '           L data  (rows, columns)    Array(shape=(4, 3), dtype=int16, '
                        'rpc=2)\n'
                        '             url: memory:///path/to/file\n'
                        '             a: 1\n'
                        '           R data  (rows, columns)    Array(shape=(4, 3), dtype=int16, '
                        'rpc=1024)\n'
                        '             url: memory:///path/to/file\n'
                        '             a: 1'),
 'diff_data:rpc_big': ('return',
                       'str',
                       'Differing data:\n'
                       '  Differing chunksizes:\n'
                       '    L records_per_chunk  2\n'
                       '    R records_per_chunk  4'),
 'diff_variable:rpc_big': ('return',
                           'str',
                           'Left and right Variable objects are not equal\n'
                           '  Differing data:\n'
                           '    Differing chunksizes:\n'
                           '      L records_per_chunk  2\n'
                           '      R records_per_chunk  4'),
 'assert_identical:array:rpc_big': ('raise',
                                    'AssertionError',
                                    'Differing chunksizes:\n'
                                    '  L records_per_chunk  2\n'
                                    '  R records_per_chunk  4'),
 'assert_identical:variable:rpc_big': ('raise',
                                       'AssertionError',
                                       'Left and right Variable objects are not equal\n'
                                       '  Differing data:\n'
                                       '    Differing chunksizes:\n'
                                       '      L records_per_chunk  2\n'
                                       '      R records_per_chunk  4'),
 'assert_identical:group:rpc_big': ('raise',
                                    'AssertionError',
                                    'Left and right Group objects are not equal\n'
                                    '  Differing groups:\n'
                                    '    Group /:\n'
                                    '      Variables:\n'
                                    '        Differing variables:\n'
                                    '           L data  (rows, columns)    Array(shape=(4, 3), '
                                    'dtype=int16, rpc=2)\n'
                                    '             url: memory:///path/to/file\n'
                                    '             a: 1\n'
                                    '           R data  (rows, columns)    Array(shape=(4, 3), '
                                    'dtype=int16, rpc=4)\n'
                                    '             url: memory:///path/to/file\n'
                                    '             a: 1'),
 'diff_tree:rpc_big': ('return',
                       'str',
                       'Left and right Group objects are not equal\n'
                       '  Differing groups:\n'
                       '    Group /:\n'
                       '      Variables:\n'
                       '        Differing variables:\n'
                       '           L data  (rows, columns)    Array(shape=(4, 3), dtype=int16, '
                       'rpc=2)\n'
                       '             url: memory:///path/to/file\n'
                       '             a: 1\n'
                       '           R data  (rows, columns)    Array(shape=(4, 3), dtype=int16, '
                       'rpc=4)\n'
                       '             url: memory:///path/to/file\n'
                       '             a: 1'),
 'diff_data:rpc_auto': ('return',
                        'str',
                        'Differing data:\n'
                        '  Differing chunksizes:\n'
                        '    L records_per_chunk  2\n'
                        '    R records_per_chunk  4'),
 'diff_variable:rpc_auto': ('return',
                            'str',
                            'Left and right Variable objects are not equal\n'
                            '  Differing data:\n'
                            '    Differing chunksizes:\n'
                            '      L records_per_chunk  2\n'
                            '      R records_per_chunk  4'),
 'assert_identical:array:rpc_auto': ('raise',
                                     'AssertionError',
                                     'Differing chunksizes:\n'
                                     '  L records_per_chunk  2\n'
                                     '  R records_per_chunk  4'),
 'assert_identical:variable:rpc_auto': ('raise',
                                        'AssertionError',
                                        'Left and right Variable objects are not equal\n'
                                        '  Differing data:\n'
                                        '    Differing chunksizes:\n'
                                        '      L records_per_chunk  2\n'
                                        '      R records_per_chunk  4'),
 'assert_identical:group:rpc_auto': ('raise',
                                     'AssertionError',
                                     'Left and right Group objects are not equal\n'
                                     '  Differing groups:\n'
                                     '    Group /:\n'
                                     '      Variables:\n'
                                     '        Differing variables:\n'
                                     '           L data  (rows, columns)    Array(shape=(4, 3), '
                                     'dtype=int16, rpc=2)\n'
                                     '             url: memory:///path/to/file\n'
                                     '             a: 1\n'
                                     '           R data  (rows, columns)    Array(shape=(4, 3), '
                                     'dtype=int16, rpc=4)\n'
                                     '             url: memory:///path/to/file\n'
                                     '             a: 1'),
 'diff_tree:rpc_auto': ('return',
                        'str',
                        'Left and right Group objects are not equal\n'
                        '  Differing groups:\n'
                        '    Group /:\n'
                        '      Variables:\n'
                        '        Differing variables:\n'
                        '           L data  (rows, columns)    Array(shape=(4, 3), dtype=int16, '
                        'rpc=2)\n'
                        '             url: memory:///path/to/file\n'
                        '             a: 1\n'
                        '           R data  (rows, columns)    Array(shape=(4, 3), dtype=int16, '
                        'rpc=4)\n'
                        '             url: memory:///path/to/file\n'
                        '             a: 1'),
 'diff_data:rpc_bytes': ('return', 'str', 'Differing data:\n'),
 'diff_variable:rpc_bytes': ('return', 'str', 'Left and right Variable objects are not equal\n'),
 'assert_identical:array:rpc_bytes': ('return', 'NoneType', 'None'),
 'assert_identical:variable:rpc_bytes': ('return', 'NoneType', 'None'),
 'assert_identical:group:rpc_bytes': ('return', 'NoneType', 'None'),
 'diff_tree:rpc_bytes': ('return', 'str', 'Left and right Group objects are not equal\n'),
 'diff_data:numpy': ('return',
                     'str',
                     'Differing data2:\n    L int64  0 1 2 3 4 5 6\n    R int64  0 1 2 ... 6 7'),
 'diff_data:types': ('return',
                     'str',
                     'Differing data1 types:\n'
                     "  L <class 'numpy.ndarray'>\n"
                     "  R <class 'ceos_alos2.array.Array'>"),
 'assert_identical:array:equal': ('return', 'NoneType', 'None'),
 'assert_identical:types': ('raise',
                            'AssertionError',
                            "types mismatch: <class 'ceos_alos2.array.Array'> != <class "
                            "'numpy.ndarray'>"),
 'assert_identical:numpy': ('raise',
                            'TypeError',
                            'can only compare Group and Variable and Array objects'),
 'format_array': ('return',
                  'str',
                  "Array(shape=(1, 1), dtype=uint8, rpc=1)\n    url: ('file', 'local'):///p/u"),
 'names': ['dict_overlap',
           'format_item',
           'format_array',
           'format_variable',
           'format_inline',
           'diff_mapping_missing',
           'diff_mapping_not_equal',
           'diff_mapping',
           'diff_scalar',
           'compare_data',
           'diff_array',
           'diff_data',
           'format_sizes',
           'diff_variable',
           'diff_group',
           'diff_tree',
           'assert_identical',
           'newline',
           'Array',
           'Group',
           'Variable',
           'zip_longest',
           'textwrap',
           'np']}


def test_equivalent():
    actual = observe()
    assert list(actual) == list(EXPECTED)
    for key, value in actual.items():
        assert value == EXPECTED[key], (key, value, EXPECTED[key])
    assert actual == EXPECTED


if __name__ == "__main__":
    if "--record" in sys.argv:
        import pprint

        pprint.pprint(observe(), width=100, sort_dicts=False)
    else:
        test_equivalent()
        print(f"ok: {len(EXPECTED)} observations identical")
