"""Equivalence check for refactoring 1 (decode_scene_id / decode_product_id).

Run as:  PYTHONPATH=/tmp/wt9/e77 /venv/bin/python _eq/1/equiv.py
(or through pytest: the module exposes ``test_equivalence``).

``EXPECTED`` was recorded from the unchanged code (``--record`` prints it).
"""

import datetime
import itertools
import pprint
import re
import sys

from ceos_alos2 import decoders, summary
from ceos_alos2.hierarchy import Group


def describe(obj):
    """value + exact types, recursively, as a compact string"""
    if isinstance(obj, dict):
        items = ", ".join(f"{describe(k)}: {describe(v)}" for k, v in obj.items())
        return f"{type(obj).__name__}{{{items}}}"
    if isinstance(obj, (list, tuple)):
        return f"{type(obj).__name__}[{', '.join(describe(v) for v in obj)}]"
    if isinstance(obj, Group):
        return f"Group({obj.path!r}, {obj.url!r}, {describe(dict(obj.data))}, {describe(dict(obj.attrs))})"
    if isinstance(obj, (str, int, float, type(None), datetime.datetime)) and type(obj).__module__ in (
        "builtins",
        "datetime",
    ):
        return ascii(obj)
    return f"{type(obj).__name__}:{obj!a}"


def describe_exception(exc):
    if exc is None:
        return "None"
    bases = ">".join(c.__name__ for c in type(exc).__mro__[1:-2])
    module = "<equiv>" if type(exc).__module__ == __name__ else type(exc).__module__
    text = f"{module}.{type(exc).__qualname__}({bases}) args={exc.args!a} str={str(exc)!a}"
    if exc.__cause__ is None and exc.__context__ is None and not exc.__suppress_context__:
        return text
    cause = describe_exception(exc.__cause__)
    context = "<cause>" if exc.__context__ is exc.__cause__ else describe_exception(exc.__context__)
    return f"{text} [cause={cause}; context={context}; suppress_context={exc.__suppress_context__}]"


def observe(func, *args, **kwargs):
    try:
        result = func(*args, **kwargs)
    except BaseException as e:  # noqa: B902
        return "RAISED " + describe_exception(e)
    return "RETURNED " + describe(result)


class Str(str):
    pass


class Weird:
    """matches no regex: fullmatch raises TypeError before any message is built"""

    def __str__(self):
        raise RuntimeError("__str__ called")

    __repr__ = __str__

    def __format__(self, spec):
        raise RuntimeError("__format__ called")


scene_ids = [
    "ALOS2225333200-180726",
    "ALOS2000000000-000101",
    "ALOS2999999999-991231",
    "ALOS2225333200-200229",  # leap day
    "ALOS2225333200-190229",  # not a leap year
    "ALOS2225333200-180732",
    "ALOS2225333200-181301",
    "ALOS2225333200-180700",
    "ALOS2225333200-000000",
    "ALOS2225333200-680101",
    "ALOS2225333200-690101",
    "ALOS2xxxxx3200-180726",
    "ALOS2225333200-a87433",
    "ALOS2225333200-987433",
    "ALOS2225333200_180726",
    "ALOS2225333200-180726\n",
    " ALOS2225333200-180726",
    "ALOS2225333200-180726 ",
    "alos2225333200-180726",
    "ALOS2225333200-1807260",
    "ALOS222533320-180726",
    "ALOS2２２５３３3200-180726",  # full-width digits
    "ALOS2225333200-18072٦",
    "AB12Z225333200-180726",
    "",
    "-",
    "{}",
    "%s",
    Str("ALOS2225333200-180726"),
    Str("ALOS2225333200-180799"),
    None,
    b"ALOS2225333200-180726",
    12,
    Weird(),
    ["ALOS2225333200-180726"],
]

modes = list(decoders.observation_modes) + ["XXX", "WBQ", "SBD", "AAA"]
product_ids = [
    f"{mode}{direction}{level}{option}{projection}{orbit}"
    for mode, direction, level, option, projection, orbit in itertools.chain(
        itertools.product(modes, "LR", ["1.1"], "_", "_", "AD"),
        itertools.product(["WWD"], "R", ["1.0", "1.1", "1.5", "3.1", "1.6", "2.1"], "GR_X", "U", "A"),
        itertools.product(["FBD", "XYZ"], "LX", ["1.5"], "G", "UPML_X", "DX"),
    )
] + [
    "",
    "WWDR1.1__",
    "WWDR1.1__DD",
    "WWDR1.1__D\n",
    "wwdr1.1__d",
    "WWDR1-1__D",
    "WWDR11___D",
    "WÄDR1.1__D",
    "{}{}{}",
    Str("WWDR1.5RUA"),
    Str("QQQR1.5RUA"),
    None,
    b"WWDR1.1__D",
    3.1,
    Weird(),
]


class CustomValueError(ValueError):
    pass


def patched_translations(kind):
    """translations whose entries fail in other ways than the stock ones"""

    def fail_with(exc):
        def translator(value):
            raise exc

        return translator

    new = dict(decoders.translations)
    if kind == "subclass":
        new["orbit_accumulation"] = fail_with(CustomValueError("custom", 1))
        new["processing_level"] = fail_with(UnicodeDecodeError("ascii", b"\xff", 0, 1, "nope"))
    elif kind == "other":
        new["scene_frame"] = fail_with(KeyError("scene_frame"))
        new["map_projection"] = fail_with(TypeError("bad type"))
    elif kind == "missing":
        del new["date"]
        del new["orbit_direction"]
    elif kind == "first-of-two":
        new["mission_name"] = fail_with(ValueError("first"))
        new["date"] = fail_with(ValueError("second"))
        new["observation_mode"] = fail_with(ValueError("first"))
        new["orbit_direction"] = fail_with(KeyError("second"))
    elif kind == "results":
        new["mission_name"] = lambda v: None
        new["date"] = lambda v: [v]
        new["observation_mode"] = lambda v: {"nested": v}
        new["orbit_direction"] = str.lower
    elif kind == "base-exception":
        new["mission_name"] = fail_with(KeyboardInterrupt())
        new["observation_mode"] = fail_with(SystemExit(3))
    return new


def run():
    observations = []

    for scene_id in scene_ids:
        observations.append(("scene", repr(type(scene_id).__name__), ascii(scene_id) if not isinstance(scene_id, Weird) else "Weird", observe(decoders.decode_scene_id, scene_id)))
    for product_id in product_ids:
        observations.append(("product", repr(type(product_id).__name__), ascii(product_id) if not isinstance(product_id, Weird) else "Weird", observe(decoders.decode_product_id, product_id)))

    # keyword arguments keep working
    observations.append(("kw-scene", observe(decoders.decode_scene_id, scene_id="ALOS2225333200-180726")))
    observations.append(("kw-product", observe(decoders.decode_product_id, product_id="WWDR1.1__D")))
    observations.append(("kw-wrong", observe(decoders.decode_scene_id, value="ALOS2225333200-180726").split("(")[0]))
    observations.append(("noarg", observe(decoders.decode_product_id).split("(")[0]))

    # the translation table and the regexes are looked up when decoding
    original = decoders.translations
    for kind in ["subclass", "other", "missing", "first-of-two", "results", "base-exception"]:
        decoders.translations = patched_translations(kind)
        try:
            observations.append((kind, "scene", observe(decoders.decode_scene_id, "ALOS2225333200-180726")))
            observations.append((kind, "product", observe(decoders.decode_product_id, "WWDR1.1__D")))
        finally:
            decoders.translations = original

    original_scene_re, original_product_re = decoders.scene_id_re, decoders.product_id_re
    decoders.scene_id_re = re.compile(r"(?P<mission_name>[a-z]+)-(?P<date>[0-9]{6})")
    decoders.product_id_re = re.compile(r"(?P<processing_level>.+)")
    try:
        for value in ["abc-180726", "abc-189926", "ALOS2225333200-180726"]:
            observations.append(("regex", value, observe(decoders.decode_scene_id, value)))
        for value in ["1.5", "WWDR1.1__D"]:
            observations.append(("regex", value, observe(decoders.decode_product_id, value)))
    finally:
        decoders.scene_id_re, decoders.product_id_re = original_scene_re, original_product_re

    # users in the package
    for fname in [
        "IMG-HV-ALOS2225333100-180726-WWDR1.1__D-B3",
        "TRL-ALOS2225333100-180726-WWDR1.1__D",
        "LED-ALOS2290760600-191011-WWDR1.5RUA",
        "LED-ALOS2290760600-191311-WWDR1.5RUA",
        "LED-ALOS2290760600-191011-WXDR1.5RUA",
        "LED-ALOS2290760600-191311-WXDR1.5RUA",
        "LED-ALOS2290760600-191011-WWDR1.6RUA",
        "summary.txt",
    ]:
        observations.append(("filename", fname, observe(decoders.decode_filename, fname)))

    for section in [
        {"SceneID": "ALOS2225333200-180726", "SceneShift": "-1"},
        {"SceneID": "ALOS2225333200-180740", "SceneShift": "-1"},
        {"SceneID": "nope", "SceneShift": "0"},
    ]:
        observations.append(("scene_spec", observe(summary.transform_scene_spec, section)))
    for section in [
        {"ProductID": "WWDR1.5RUA", "ResamplingMethod": "NN", "UTM_ZoneNo": "32", "PixelSpacing": "25.0"},
        {"ProductID": "WWXR1.5RUA", "ResamplingMethod": "NN"},
        {"ProductID": "ZZZR1.5RUA", "ResamplingMethod": "NN"},
    ]:
        observations.append(("product_spec", observe(summary.transform_product_spec, section)))

    # public names stay where they were
    for name in [
        "decode_scene_id", "decode_product_id", "decode_scan_info", "decode_filename", "lookup",
        "parse_date", "translations", "scene_id_re", "product_id_re", "scan_info_re", "fname_re",
    ]:
        observations.append(("name", name, hasattr(decoders, name)))
    observations.append(("module", decoders.decode_scene_id.__module__, decoders.decode_product_id.__module__))
    observations.append(("fname", decoders.decode_scene_id.__name__, decoders.decode_product_id.__name__))

    return observations


# EXPECTED-BEGIN
EXPECTED = [['scene',
  "'str'",
  "'ALOS2225333200-180726'",
  "RETURNED dict{'mission_name': 'ALOS2', 'orbit_accumulation': '22533', 'scene_frame': '3200', 'date': datetime.datetime(2018, 7, 26, 0, 0)}"],
 ['scene',
  "'str'",
  "'ALOS2000000000-000101'",
  "RETURNED dict{'mission_name': 'ALOS2', 'orbit_accumulation': '00000', 'scene_frame': '0000', 'date': datetime.datetime(2000, 1, 1, 0, 0)}"],
 ['scene',
  "'str'",
  "'ALOS2999999999-991231'",
  "RETURNED dict{'mission_name': 'ALOS2', 'orbit_accumulation': '99999', 'scene_frame': '9999', 'date': datetime.datetime(1999, 12, 31, 0, 0)}"],
 ['scene',
  "'str'",
  "'ALOS2225333200-200229'",
  "RETURNED dict{'mission_name': 'ALOS2', 'orbit_accumulation': '22533', 'scene_frame': '3200', 'date': datetime.datetime(2020, 2, 29, 0, 0)}"],
 ['scene',
  "'str'",
  "'ALOS2225333200-190229'",
  "RAISED builtins.ValueError(Exception) args=('invalid scene id: ALOS2225333200-190229',) str='invalid scene id: ALOS2225333200-190229' "
  "[cause=builtins.ValueError(Exception) args=('day is out of range for month',) str='day is out of range for month'; context=<cause>; suppress_context=True]"],
 ['scene',
  "'str'",
  "'ALOS2225333200-180732'",
  "RAISED builtins.ValueError(Exception) args=('invalid scene id: ALOS2225333200-180732',) str='invalid scene id: ALOS2225333200-180732' "
  "[cause=builtins.ValueError(Exception) args=('unconverted data remains: 2',) str='unconverted data remains: 2'; context=<cause>; suppress_context=True]"],
 ['scene',
  "'str'",
  "'ALOS2225333200-181301'",
  "RAISED builtins.ValueError(Exception) args=('invalid scene id: ALOS2225333200-181301',) str='invalid scene id: ALOS2225333200-181301' "
  "[cause=builtins.ValueError(Exception) args=('unconverted data remains: 1',) str='unconverted data remains: 1'; context=<cause>; suppress_context=True]"],
 ['scene',
  "'str'",
  "'ALOS2225333200-180700'",
  "RAISED builtins.ValueError(Exception) args=('invalid scene id: ALOS2225333200-180700',) str='invalid scene id: ALOS2225333200-180700' "
  '[cause=builtins.ValueError(Exception) args=("time data \'180700\' does not match format \'%y%m%d\'",) str="time data \'180700\' does not match format '
  '\'%y%m%d\'"; context=<cause>; suppress_context=True]'],
 ['scene',
  "'str'",
  "'ALOS2225333200-000000'",
  "RAISED builtins.ValueError(Exception) args=('invalid scene id: ALOS2225333200-000000',) str='invalid scene id: ALOS2225333200-000000' "
  '[cause=builtins.ValueError(Exception) args=("time data \'000000\' does not match format \'%y%m%d\'",) str="time data \'000000\' does not match format '
  '\'%y%m%d\'"; context=<cause>; suppress_context=True]'],
 ['scene',
  "'str'",
  "'ALOS2225333200-680101'",
  "RETURNED dict{'mission_name': 'ALOS2', 'orbit_accumulation': '22533', 'scene_frame': '3200', 'date': datetime.datetime(2068, 1, 1, 0, 0)}"],
 ['scene',
  "'str'",
  "'ALOS2225333200-690101'",
  "RETURNED dict{'mission_name': 'ALOS2', 'orbit_accumulation': '22533', 'scene_frame': '3200', 'date': datetime.datetime(1969, 1, 1, 0, 0)}"],
 ['scene',
  "'str'",
  "'ALOS2xxxxx3200-180726'",
  "RAISED builtins.ValueError(Exception) args=('invalid scene id: ALOS2xxxxx3200-180726',) str='invalid scene id: ALOS2xxxxx3200-180726'"],
 ['scene',
  "'str'",
  "'ALOS2225333200-a87433'",
  "RAISED builtins.ValueError(Exception) args=('invalid scene id: ALOS2225333200-a87433',) str='invalid scene id: ALOS2225333200-a87433'"],
 ['scene',
  "'str'",
  "'ALOS2225333200-987433'",
  "RAISED builtins.ValueError(Exception) args=('invalid scene id: ALOS2225333200-987433',) str='invalid scene id: ALOS2225333200-987433' "
  "[cause=builtins.ValueError(Exception) args=('unconverted data remains: 33',) str='unconverted data remains: 33'; context=<cause>; suppress_context=True]"],
 ['scene',
  "'str'",
  "'ALOS2225333200_180726'",
  "RAISED builtins.ValueError(Exception) args=('invalid scene id: ALOS2225333200_180726',) str='invalid scene id: ALOS2225333200_180726'"],
 ['scene',
  "'str'",
  "'ALOS2225333200-180726\\n'",
  "RAISED builtins.ValueError(Exception) args=('invalid scene id: ALOS2225333200-180726\\n',) str='invalid scene id: ALOS2225333200-180726\\n'"],
 ['scene',
  "'str'",
  "' ALOS2225333200-180726'",
  "RAISED builtins.ValueError(Exception) args=('invalid scene id:  ALOS2225333200-180726',) str='invalid scene id:  ALOS2225333200-180726'"],
 ['scene',
  "'str'",
  "'ALOS2225333200-180726 '",
  "RAISED builtins.ValueError(Exception) args=('invalid scene id: ALOS2225333200-180726 ',) str='invalid scene id: ALOS2225333200-180726 '"],
 ['scene',
  "'str'",
  "'alos2225333200-180726'",
  "RAISED builtins.ValueError(Exception) args=('invalid scene id: alos2225333200-180726',) str='invalid scene id: alos2225333200-180726'"],
 ['scene',
  "'str'",
  "'ALOS2225333200-1807260'",
  "RAISED builtins.ValueError(Exception) args=('invalid scene id: ALOS2225333200-1807260',) str='invalid scene id: ALOS2225333200-1807260'"],
 ['scene',
  "'str'",
  "'ALOS222533320-180726'",
  "RAISED builtins.ValueError(Exception) args=('invalid scene id: ALOS222533320-180726',) str='invalid scene id: ALOS222533320-180726'"],
 ['scene',
  "'str'",
  "'ALOS2\\uff12\\uff12\\uff15\\uff13\\uff133200-180726'",
  "RAISED builtins.ValueError(Exception) args=('invalid scene id: ALOS2\\uff12\\uff12\\uff15\\uff13\\uff133200-180726',) str='invalid scene id: "
  "ALOS2\\uff12\\uff12\\uff15\\uff13\\uff133200-180726'"],
 ['scene',
  "'str'",
  "'ALOS2225333200-18072\\u0666'",
  "RAISED builtins.ValueError(Exception) args=('invalid scene id: ALOS2225333200-18072\\u0666',) str='invalid scene id: ALOS2225333200-18072\\u0666'"],
 ['scene',
  "'str'",
  "'AB12Z225333200-180726'",
  "RETURNED dict{'mission_name': 'AB12Z', 'orbit_accumulation': '22533', 'scene_frame': '3200', 'date': datetime.datetime(2018, 7, 26, 0, 0)}"],
 ['scene', "'str'", "''", "RAISED builtins.ValueError(Exception) args=('invalid scene id: ',) str='invalid scene id: '"],
 ['scene', "'str'", "'-'", "RAISED builtins.ValueError(Exception) args=('invalid scene id: -',) str='invalid scene id: -'"],
 ['scene', "'str'", "'{}'", "RAISED builtins.ValueError(Exception) args=('invalid scene id: {}',) str='invalid scene id: {}'"],
 ['scene', "'str'", "'%s'", "RAISED builtins.ValueError(Exception) args=('invalid scene id: %s',) str='invalid scene id: %s'"],
 ['scene',
  "'Str'",
  "'ALOS2225333200-180726'",
  "RETURNED dict{'mission_name': 'ALOS2', 'orbit_accumulation': '22533', 'scene_frame': '3200', 'date': datetime.datetime(2018, 7, 26, 0, 0)}"],
 ['scene',
  "'Str'",
  "'ALOS2225333200-180799'",
  "RAISED builtins.ValueError(Exception) args=('invalid scene id: ALOS2225333200-180799',) str='invalid scene id: ALOS2225333200-180799' "
  "[cause=builtins.ValueError(Exception) args=('unconverted data remains: 9',) str='unconverted data remains: 9'; context=<cause>; suppress_context=True]"],
 ['scene',
  "'NoneType'",
  'None',
  'RAISED builtins.TypeError(Exception) args=("expected string or bytes-like object, got \'NoneType\'",) str="expected string or bytes-like object, got '
  '\'NoneType\'"'],
 ['scene',
  "'bytes'",
  "b'ALOS2225333200-180726'",
  "RAISED builtins.TypeError(Exception) args=('cannot use a string pattern on a bytes-like object',) str='cannot use a string pattern on a bytes-like object'"],
 ['scene',
  "'int'",
  '12',
  'RAISED builtins.TypeError(Exception) args=("expected string or bytes-like object, got \'int\'",) str="expected string or bytes-like object, got \'int\'"'],
 ['scene',
  "'Weird'",
  'Weird',
  'RAISED builtins.TypeError(Exception) args=("expected string or bytes-like object, got \'Weird\'",) str="expected string or bytes-like object, got '
  '\'Weird\'"'],
 ['scene',
  "'list'",
  "['ALOS2225333200-180726']",
  'RAISED builtins.TypeError(Exception) args=("expected string or bytes-like object, got \'list\'",) str="expected string or bytes-like object, got \'list\'"'],
 ['product',
  "'str'",
  "'SBSL1.1__A'",
  "RETURNED dict{'observation_mode': 'spotlight mode', 'observation_direction': 'left looking', 'processing_level': 'level 1.1', 'processing_option': 'not "
  "specified', 'map_projection': 'not specified', 'orbit_direction': 'ascending'}"],
 ['product',
  "'str'",
  "'SBSL1.1__D'",
  "RETURNED dict{'observation_mode': 'spotlight mode', 'observation_direction': 'left looking', 'processing_level': 'level 1.1', 'processing_option': 'not "
  "specified', 'map_projection': 'not specified', 'orbit_direction': 'descending'}"],
 ['product',
  "'str'",
  "'SBSR1.1__A'",
  "RETURNED dict{'observation_mode': 'spotlight mode', 'observation_direction': 'right looking', 'processing_level': 'level 1.1', 'processing_option': 'not "
  "specified', 'map_projection': 'not specified', 'orbit_direction': 'ascending'}"],
 ['product',
  "'str'",
  "'SBSR1.1__D'",
  "RETURNED dict{'observation_mode': 'spotlight mode', 'observation_direction': 'right looking', 'processing_level': 'level 1.1', 'processing_option': 'not "
  "specified', 'map_projection': 'not specified', 'orbit_direction': 'descending'}"],
 ['product',
  "'str'",
  "'UBSL1.1__A'",
  "RETURNED dict{'observation_mode': 'ultra-fine mode single polarization', 'observation_direction': 'left looking', 'processing_level': 'level 1.1', "
  "'processing_option': 'not specified', 'map_projection': 'not specified', 'orbit_direction': 'ascending'}"],
 ['product',
  "'str'",
  "'UBSL1.1__D'",
  "RETURNED dict{'observation_mode': 'ultra-fine mode single polarization', 'observation_direction': 'left looking', 'processing_level': 'level 1.1', "
  "'processing_option': 'not specified', 'map_projection': 'not specified', 'orbit_direction': 'descending'}"],
 ['product',
  "'str'",
  "'UBSR1.1__A'",
  "RETURNED dict{'observation_mode': 'ultra-fine mode single polarization', 'observation_direction': 'right looking', 'processing_level': 'level 1.1', "
  "'processing_option': 'not specified', 'map_projection': 'not specified', 'orbit_direction': 'ascending'}"],
 ['product',
  "'str'",
  "'UBSR1.1__D'",
  "RETURNED dict{'observation_mode': 'ultra-fine mode single polarization', 'observation_direction': 'right looking', 'processing_level': 'level 1.1', "
  "'processing_option': 'not specified', 'map_projection': 'not specified', 'orbit_direction': 'descending'}"],
 ['product',
  "'str'",
  "'UBDL1.1__A'",
  "RETURNED dict{'observation_mode': 'ultra-fine mode dual polarization', 'observation_direction': 'left looking', 'processing_level': 'level 1.1', "
  "'processing_option': 'not specified', 'map_projection': 'not specified', 'orbit_direction': 'ascending'}"],
 ['product',
  "'str'",
  "'UBDL1.1__D'",
  "RETURNED dict{'observation_mode': 'ultra-fine mode dual polarization', 'observation_direction': 'left looking', 'processing_level': 'level 1.1', "
  "'processing_option': 'not specified', 'map_projection': 'not specified', 'orbit_direction': 'descending'}"],
 ['product',
  "'str'",
  "'UBDR1.1__A'",
  "RETURNED dict{'observation_mode': 'ultra-fine mode dual polarization', 'observation_direction': 'right looking', 'processing_level': 'level 1.1', "
  "'processing_option': 'not specified', 'map_projection': 'not specified', 'orbit_direction': 'ascending'}"],
 ['product',
  "'str'",
  "'UBDR1.1__D'",
  "RETURNED dict{'observation_mode': 'ultra-fine mode dual polarization', 'observation_direction': 'right looking', 'processing_level': 'level 1.1', "
  "'processing_option': 'not specified', 'map_projection': 'not specified', 'orbit_direction': 'descending'}"],
 ['product',
  "'str'",
  "'HBSL1.1__A'",
  "RETURNED dict{'observation_mode': 'high-sensitive mode single polarization', 'observation_direction': 'left looking', 'processing_level': 'level 1.1', "
  "'processing_option': 'not specified', 'map_projection': 'not specified', 'orbit_direction': 'ascending'}"],
 ['product',
  "'str'",
  "'HBSL1.1__D'",
  "RETURNED dict{'observation_mode': 'high-sensitive mode single polarization', 'observation_direction': 'left looking', 'processing_level': 'level 1.1', "
  "'processing_option': 'not specified', 'map_projection': 'not specified', 'orbit_direction': 'descending'}"],
 ['product',
  "'str'",
  "'HBSR1.1__A'",
  "RETURNED dict{'observation_mode': 'high-sensitive mode single polarization', 'observation_direction': 'right looking', 'processing_level': 'level 1.1', "
  "'processing_option': 'not specified', 'map_projection': 'not specified', 'orbit_direction': 'ascending'}"],
 ['product',
  "'str'",
  "'HBSR1.1__D'",
  "RETURNED dict{'observation_mode': 'high-sensitive mode single polarization', 'observation_direction': 'right looking', 'processing_level': 'level 1.1', "
  "'processing_option': 'not specified', 'map_projection': 'not specified', 'orbit_direction': 'descending'}"],
 ['product',
  "'str'",
  "'HBDL1.1__A'",
  "RETURNED dict{'observation_mode': 'high-sensitive mode dual polarization', 'observation_direction': 'left looking', 'processing_level': 'level 1.1', "
  "'processing_option': 'not specified', 'map_projection': 'not specified', 'orbit_direction': 'ascending'}"],
 ['product',
  "'str'",
  "'HBDL1.1__D'",
  "RETURNED dict{'observation_mode': 'high-sensitive mode dual polarization', 'observation_direction': 'left looking', 'processing_level': 'level 1.1', "
  "'processing_option': 'not specified', 'map_projection': 'not specified', 'orbit_direction': 'descending'}"],
 ['product',
  "'str'",
  "'HBDR1.1__A'",
  "RETURNED dict{'observation_mode': 'high-sensitive mode dual polarization', 'observation_direction': 'right looking', 'processing_level': 'level 1.1', "
  "'processing_option': 'not specified', 'map_projection': 'not specified', 'orbit_direction': 'ascending'}"],
 ['product',
  "'str'",
  "'HBDR1.1__D'",
  "RETURNED dict{'observation_mode': 'high-sensitive mode dual polarization', 'observation_direction': 'right looking', 'processing_level': 'level 1.1', "
  "'processing_option': 'not specified', 'map_projection': 'not specified', 'orbit_direction': 'descending'}"],
 ['product',
  "'str'",
  "'HBQL1.1__A'",
  "RETURNED dict{'observation_mode': 'high-sensitive mode full (quad.) polarimetry', 'observation_direction': 'left looking', 'processing_level': 'level 1.1', "
  "'processing_option': 'not specified', 'map_projection': 'not specified', 'orbit_direction': 'ascending'}"],
 ['product',
  "'str'",
  "'HBQL1.1__D'",
  "RETURNED dict{'observation_mode': 'high-sensitive mode full (quad.) polarimetry', 'observation_direction': 'left looking', 'processing_level': 'level 1.1', "
  "'processing_option': 'not specified', 'map_projection': 'not specified', 'orbit_direction': 'descending'}"],
 ['product',
  "'str'",
  "'HBQR1.1__A'",
  "RETURNED dict{'observation_mode': 'high-sensitive mode full (quad.) polarimetry', 'observation_direction': 'right looking', 'processing_level': 'level "
  "1.1', 'processing_option': 'not specified', 'map_projection': 'not specified', 'orbit_direction': 'ascending'}"],
 ['product',
  "'str'",
  "'HBQR1.1__D'",
  "RETURNED dict{'observation_mode': 'high-sensitive mode full (quad.) polarimetry', 'observation_direction': 'right looking', 'processing_level': 'level "
  "1.1', 'processing_option': 'not specified', 'map_projection': 'not specified', 'orbit_direction': 'descending'}"],
 ['product',
  "'str'",
  "'FBSL1.1__A'",
  "RETURNED dict{'observation_mode': 'fine mode single polarization', 'observation_direction': 'left looking', 'processing_level': 'level 1.1', "
  "'processing_option': 'not specified', 'map_projection': 'not specified', 'orbit_direction': 'ascending'}"],
 ['product',
  "'str'",
  "'FBSL1.1__D'",
  "RETURNED dict{'observation_mode': 'fine mode single polarization', 'observation_direction': 'left looking', 'processing_level': 'level 1.1', "
  "'processing_option': 'not specified', 'map_projection': 'not specified', 'orbit_direction': 'descending'}"],
 ['product',
  "'str'",
  "'FBSR1.1__A'",
  "RETURNED dict{'observation_mode': 'fine mode single polarization', 'observation_direction': 'right looking', 'processing_level': 'level 1.1', "
  "'processing_option': 'not specified', 'map_projection': 'not specified', 'orbit_direction': 'ascending'}"],
 ['product',
  "'str'",
  "'FBSR1.1__D'",
  "RETURNED dict{'observation_mode': 'fine mode single polarization', 'observation_direction': 'right looking', 'processing_level': 'level 1.1', "
  "'processing_option': 'not specified', 'map_projection': 'not specified', 'orbit_direction': 'descending'}"],
 ['product',
  "'str'",
  "'FBDL1.1__A'",
  "RETURNED dict{'observation_mode': 'fine mode dual polarization', 'observation_direction': 'left looking', 'processing_level': 'level 1.1', "
  "'processing_option': 'not specified', 'map_projection': 'not specified', 'orbit_direction': 'ascending'}"],
 ['product',
  "'str'",
  "'FBDL1.1__D'",
  "RETURNED dict{'observation_mode': 'fine mode dual polarization', 'observation_direction': 'left looking', 'processing_level': 'level 1.1', "
  "'processing_option': 'not specified', 'map_projection': 'not specified', 'orbit_direction': 'descending'}"],
 ['product',
  "'str'",
  "'FBDR1.1__A'",
  "RETURNED dict{'observation_mode': 'fine mode dual polarization', 'observation_direction': 'right looking', 'processing_level': 'level 1.1', "
  "'processing_option': 'not specified', 'map_projection': 'not specified', 'orbit_direction': 'ascending'}"],
 ['product',
  "'str'",
  "'FBDR1.1__D'",
  "RETURNED dict{'observation_mode': 'fine mode dual polarization', 'observation_direction': 'right looking', 'processing_level': 'level 1.1', "
  "'processing_option': 'not specified', 'map_projection': 'not specified', 'orbit_direction': 'descending'}"],
 ['product',
  "'str'",
  "'FBQL1.1__A'",
  "RETURNED dict{'observation_mode': 'fine mode full (quad.) polarimetry', 'observation_direction': 'left looking', 'processing_level': 'level 1.1', "
  "'processing_option': 'not specified', 'map_projection': 'not specified', 'orbit_direction': 'ascending'}"],
 ['product',
  "'str'",
  "'FBQL1.1__D'",
  "RETURNED dict{'observation_mode': 'fine mode full (quad.) polarimetry', 'observation_direction': 'left looking', 'processing_level': 'level 1.1', "
  "'processing_option': 'not specified', 'map_projection': 'not specified', 'orbit_direction': 'descending'}"],
 ['product',
  "'str'",
  "'FBQR1.1__A'",
  "RETURNED dict{'observation_mode': 'fine mode full (quad.) polarimetry', 'observation_direction': 'right looking', 'processing_level': 'level 1.1', "
  "'processing_option': 'not specified', 'map_projection': 'not specified', 'orbit_direction': 'ascending'}"],
 ['product',
  "'str'",
  "'FBQR1.1__D'",
  "RETURNED dict{'observation_mode': 'fine mode full (quad.) polarimetry', 'observation_direction': 'right looking', 'processing_level': 'level 1.1', "
  "'processing_option': 'not specified', 'map_projection': 'not specified', 'orbit_direction': 'descending'}"],
 ['product',
  "'str'",
  "'WBSL1.1__A'",
  "RETURNED dict{'observation_mode': 'ScanSAR nominal 14MHz mode single polarization', 'observation_direction': 'left looking', 'processing_level': 'level "
  "1.1', 'processing_option': 'not specified', 'map_projection': 'not specified', 'orbit_direction': 'ascending'}"],
 ['product',
  "'str'",
  "'WBSL1.1__D'",
  "RETURNED dict{'observation_mode': 'ScanSAR nominal 14MHz mode single polarization', 'observation_direction': 'left looking', 'processing_level': 'level "
  "1.1', 'processing_option': 'not specified', 'map_projection': 'not specified', 'orbit_direction': 'descending'}"],
 ['product',
  "'str'",
  "'WBSR1.1__A'",
  "RETURNED dict{'observation_mode': 'ScanSAR nominal 14MHz mode single polarization', 'observation_direction': 'right looking', 'processing_level': 'level "
  "1.1', 'processing_option': 'not specified', 'map_projection': 'not specified', 'orbit_direction': 'ascending'}"],
 ['product',
  "'str'",
  "'WBSR1.1__D'",
  "RETURNED dict{'observation_mode': 'ScanSAR nominal 14MHz mode single polarization', 'observation_direction': 'right looking', 'processing_level': 'level "
  "1.1', 'processing_option': 'not specified', 'map_projection': 'not specified', 'orbit_direction': 'descending'}"],
 ['product',
  "'str'",
  "'WBDL1.1__A'",
  "RETURNED dict{'observation_mode': 'ScanSAR nominal 14MHz mode dual polarization', 'observation_direction': 'left looking', 'processing_level': 'level 1.1', "
  "'processing_option': 'not specified', 'map_projection': 'not specified', 'orbit_direction': 'ascending'}"],
 ['product',
  "'str'",
  "'WBDL1.1__D'",
  "RETURNED dict{'observation_mode': 'ScanSAR nominal 14MHz mode dual polarization', 'observation_direction': 'left looking', 'processing_level': 'level 1.1', "
  "'processing_option': 'not specified', 'map_projection': 'not specified', 'orbit_direction': 'descending'}"],
 ['product',
  "'str'",
  "'WBDR1.1__A'",
  "RETURNED dict{'observation_mode': 'ScanSAR nominal 14MHz mode dual polarization', 'observation_direction': 'right looking', 'processing_level': 'level "
  "1.1', 'processing_option': 'not specified', 'map_projection': 'not specified', 'orbit_direction': 'ascending'}"],
 ['product',
  "'str'",
  "'WBDR1.1__D'",
  "RETURNED dict{'observation_mode': 'ScanSAR nominal 14MHz mode dual polarization', 'observation_direction': 'right looking', 'processing_level': 'level "
  "1.1', 'processing_option': 'not specified', 'map_projection': 'not specified', 'orbit_direction': 'descending'}"],
 ['product',
  "'str'",
  "'WWSL1.1__A'",
  "RETURNED dict{'observation_mode': 'ScanSAR nominal 28MHz mode single polarization', 'observation_direction': 'left looking', 'processing_level': 'level "
  "1.1', 'processing_option': 'not specified', 'map_projection': 'not specified', 'orbit_direction': 'ascending'}"],
 ['product',
  "'str'",
  "'WWSL1.1__D'",
  "RETURNED dict{'observation_mode': 'ScanSAR nominal 28MHz mode single polarization', 'observation_direction': 'left looking', 'processing_level': 'level "
  "1.1', 'processing_option': 'not specified', 'map_projection': 'not specified', 'orbit_direction': 'descending'}"],
 ['product',
  "'str'",
  "'WWSR1.1__A'",
  "RETURNED dict{'observation_mode': 'ScanSAR nominal 28MHz mode single polarization', 'observation_direction': 'right looking', 'processing_level': 'level "
  "1.1', 'processing_option': 'not specified', 'map_projection': 'not specified', 'orbit_direction': 'ascending'}"],
 ['product',
  "'str'",
  "'WWSR1.1__D'",
  "RETURNED dict{'observation_mode': 'ScanSAR nominal 28MHz mode single polarization', 'observation_direction': 'right looking', 'processing_level': 'level "
  "1.1', 'processing_option': 'not specified', 'map_projection': 'not specified', 'orbit_direction': 'descending'}"],
 ['product',
  "'str'",
  "'WWDL1.1__A'",
  "RETURNED dict{'observation_mode': 'ScanSAR nominal 28MHz mode dual polarization', 'observation_direction': 'left looking', 'processing_level': 'level 1.1', "
  "'processing_option': 'not specified', 'map_projection': 'not specified', 'orbit_direction': 'ascending'}"],
 ['product',
  "'str'",
  "'WWDL1.1__D'",
  "RETURNED dict{'observation_mode': 'ScanSAR nominal 28MHz mode dual polarization', 'observation_direction': 'left looking', 'processing_level': 'level 1.1', "
  "'processing_option': 'not specified', 'map_projection': 'not specified', 'orbit_direction': 'descending'}"],
 ['product',
  "'str'",
  "'WWDR1.1__A'",
  "RETURNED dict{'observation_mode': 'ScanSAR nominal 28MHz mode dual polarization', 'observation_direction': 'right looking', 'processing_level': 'level "
  "1.1', 'processing_option': 'not specified', 'map_projection': 'not specified', 'orbit_direction': 'ascending'}"],
 ['product',
  "'str'",
  "'WWDR1.1__D'",
  "RETURNED dict{'observation_mode': 'ScanSAR nominal 28MHz mode dual polarization', 'observation_direction': 'right looking', 'processing_level': 'level "
  "1.1', 'processing_option': 'not specified', 'map_projection': 'not specified', 'orbit_direction': 'descending'}"],
 ['product',
  "'str'",
  "'VBSL1.1__A'",
  "RETURNED dict{'observation_mode': 'ScanSAR wide mode single polarization', 'observation_direction': 'left looking', 'processing_level': 'level 1.1', "
  "'processing_option': 'not specified', 'map_projection': 'not specified', 'orbit_direction': 'ascending'}"],
 ['product',
  "'str'",
  "'VBSL1.1__D'",
  "RETURNED dict{'observation_mode': 'ScanSAR wide mode single polarization', 'observation_direction': 'left looking', 'processing_level': 'level 1.1', "
  "'processing_option': 'not specified', 'map_projection': 'not specified', 'orbit_direction': 'descending'}"],
 ['product',
  "'str'",
  "'VBSR1.1__A'",
  "RETURNED dict{'observation_mode': 'ScanSAR wide mode single polarization', 'observation_direction': 'right looking', 'processing_level': 'level 1.1', "
  "'processing_option': 'not specified', 'map_projection': 'not specified', 'orbit_direction': 'ascending'}"],
 ['product',
  "'str'",
  "'VBSR1.1__D'",
  "RETURNED dict{'observation_mode': 'ScanSAR wide mode single polarization', 'observation_direction': 'right looking', 'processing_level': 'level 1.1', "
  "'processing_option': 'not specified', 'map_projection': 'not specified', 'orbit_direction': 'descending'}"],
 ['product',
  "'str'",
  "'VBDL1.1__A'",
  "RETURNED dict{'observation_mode': 'ScanSAR wide mode dual polarization', 'observation_direction': 'left looking', 'processing_level': 'level 1.1', "
  "'processing_option': 'not specified', 'map_projection': 'not specified', 'orbit_direction': 'ascending'}"],
 ['product',
  "'str'",
  "'VBDL1.1__D'",
  "RETURNED dict{'observation_mode': 'ScanSAR wide mode dual polarization', 'observation_direction': 'left looking', 'processing_level': 'level 1.1', "
  "'processing_option': 'not specified', 'map_projection': 'not specified', 'orbit_direction': 'descending'}"],
 ['product',
  "'str'",
  "'VBDR1.1__A'",
  "RETURNED dict{'observation_mode': 'ScanSAR wide mode dual polarization', 'observation_direction': 'right looking', 'processing_level': 'level 1.1', "
  "'processing_option': 'not specified', 'map_projection': 'not specified', 'orbit_direction': 'ascending'}"],
 ['product',
  "'str'",
  "'VBDR1.1__D'",
  "RETURNED dict{'observation_mode': 'ScanSAR wide mode dual polarization', 'observation_direction': 'right looking', 'processing_level': 'level 1.1', "
  "'processing_option': 'not specified', 'map_projection': 'not specified', 'orbit_direction': 'descending'}"],
 ['product',
  "'str'",
  "'XXXL1.1__A'",
  "RAISED builtins.ValueError(Exception) args=('invalid product id: XXXL1.1__A',) str='invalid product id: XXXL1.1__A' [cause=builtins.ValueError(Exception) "
  'args=("invalid code \'XXX\'",) str="invalid code \'XXX\'"; context=<cause>; suppress_context=True]'],
 ['product',
  "'str'",
  "'XXXL1.1__D'",
  "RAISED builtins.ValueError(Exception) args=('invalid product id: XXXL1.1__D',) str='invalid product id: XXXL1.1__D' [cause=builtins.ValueError(Exception) "
  'args=("invalid code \'XXX\'",) str="invalid code \'XXX\'"; context=<cause>; suppress_context=True]'],
 ['product',
  "'str'",
  "'XXXR1.1__A'",
  "RAISED builtins.ValueError(Exception) args=('invalid product id: XXXR1.1__A',) str='invalid product id: XXXR1.1__A' [cause=builtins.ValueError(Exception) "
  'args=("invalid code \'XXX\'",) str="invalid code \'XXX\'"; context=<cause>; suppress_context=True]'],
 ['product',
  "'str'",
  "'XXXR1.1__D'",
  "RAISED builtins.ValueError(Exception) args=('invalid product id: XXXR1.1__D',) str='invalid product id: XXXR1.1__D' [cause=builtins.ValueError(Exception) "
  'args=("invalid code \'XXX\'",) str="invalid code \'XXX\'"; context=<cause>; suppress_context=True]'],
 ['product',
  "'str'",
  "'WBQL1.1__A'",
  "RAISED builtins.ValueError(Exception) args=('invalid product id: WBQL1.1__A',) str='invalid product id: WBQL1.1__A' [cause=builtins.ValueError(Exception) "
  'args=("invalid code \'WBQ\'",) str="invalid code \'WBQ\'"; context=<cause>; suppress_context=True]'],
 ['product',
  "'str'",
  "'WBQL1.1__D'",
  "RAISED builtins.ValueError(Exception) args=('invalid product id: WBQL1.1__D',) str='invalid product id: WBQL1.1__D' [cause=builtins.ValueError(Exception) "
  'args=("invalid code \'WBQ\'",) str="invalid code \'WBQ\'"; context=<cause>; suppress_context=True]'],
 ['product',
  "'str'",
  "'WBQR1.1__A'",
  "RAISED builtins.ValueError(Exception) args=('invalid product id: WBQR1.1__A',) str='invalid product id: WBQR1.1__A' [cause=builtins.ValueError(Exception) "
  'args=("invalid code \'WBQ\'",) str="invalid code \'WBQ\'"; context=<cause>; suppress_context=True]'],
 ['product',
  "'str'",
  "'WBQR1.1__D'",
  "RAISED builtins.ValueError(Exception) args=('invalid product id: WBQR1.1__D',) str='invalid product id: WBQR1.1__D' [cause=builtins.ValueError(Exception) "
  'args=("invalid code \'WBQ\'",) str="invalid code \'WBQ\'"; context=<cause>; suppress_context=True]'],
 ['product',
  "'str'",
  "'SBDL1.1__A'",
  "RAISED builtins.ValueError(Exception) args=('invalid product id: SBDL1.1__A',) str='invalid product id: SBDL1.1__A' [cause=builtins.ValueError(Exception) "
  'args=("invalid code \'SBD\'",) str="invalid code \'SBD\'"; context=<cause>; suppress_context=True]'],
 ['product',
  "'str'",
  "'SBDL1.1__D'",
  "RAISED builtins.ValueError(Exception) args=('invalid product id: SBDL1.1__D',) str='invalid product id: SBDL1.1__D' [cause=builtins.ValueError(Exception) "
  'args=("invalid code \'SBD\'",) str="invalid code \'SBD\'"; context=<cause>; suppress_context=True]'],
 ['product',
  "'str'",
  "'SBDR1.1__A'",
  "RAISED builtins.ValueError(Exception) args=('invalid product id: SBDR1.1__A',) str='invalid product id: SBDR1.1__A' [cause=builtins.ValueError(Exception) "
  'args=("invalid code \'SBD\'",) str="invalid code \'SBD\'"; context=<cause>; suppress_context=True]'],
 ['product',
  "'str'",
  "'SBDR1.1__D'",
  "RAISED builtins.ValueError(Exception) args=('invalid product id: SBDR1.1__D',) str='invalid product id: SBDR1.1__D' [cause=builtins.ValueError(Exception) "
  'args=("invalid code \'SBD\'",) str="invalid code \'SBD\'"; context=<cause>; suppress_context=True]'],
 ['product',
  "'str'",
  "'AAAL1.1__A'",
  "RAISED builtins.ValueError(Exception) args=('invalid product id: AAAL1.1__A',) str='invalid product id: AAAL1.1__A' [cause=builtins.ValueError(Exception) "
  'args=("invalid code \'AAA\'",) str="invalid code \'AAA\'"; context=<cause>; suppress_context=True]'],
 ['product',
  "'str'",
  "'AAAL1.1__D'",
  "RAISED builtins.ValueError(Exception) args=('invalid product id: AAAL1.1__D',) str='invalid product id: AAAL1.1__D' [cause=builtins.ValueError(Exception) "
  'args=("invalid code \'AAA\'",) str="invalid code \'AAA\'"; context=<cause>; suppress_context=True]'],
 ['product',
  "'str'",
  "'AAAR1.1__A'",
  "RAISED builtins.ValueError(Exception) args=('invalid product id: AAAR1.1__A',) str='invalid product id: AAAR1.1__A' [cause=builtins.ValueError(Exception) "
  'args=("invalid code \'AAA\'",) str="invalid code \'AAA\'"; context=<cause>; suppress_context=True]'],
 ['product',
  "'str'",
  "'AAAR1.1__D'",
  "RAISED builtins.ValueError(Exception) args=('invalid product id: AAAR1.1__D',) str='invalid product id: AAAR1.1__D' [cause=builtins.ValueError(Exception) "
  'args=("invalid code \'AAA\'",) str="invalid code \'AAA\'"; context=<cause>; suppress_context=True]'],
 ['product',
  "'str'",
  "'WWDR1.0GUA'",
  "RETURNED dict{'observation_mode': 'ScanSAR nominal 28MHz mode dual polarization', 'observation_direction': 'right looking', 'processing_level': 'level "
  "1.0', 'processing_option': 'geo-code', 'map_projection': 'UTM', 'orbit_direction': 'ascending'}"],
 ['product',
  "'str'",
  "'WWDR1.0RUA'",
  "RETURNED dict{'observation_mode': 'ScanSAR nominal 28MHz mode dual polarization', 'observation_direction': 'right looking', 'processing_level': 'level "
  "1.0', 'processing_option': 'geo-reference', 'map_projection': 'UTM', 'orbit_direction': 'ascending'}"],
 ['product',
  "'str'",
  "'WWDR1.0_UA'",
  "RETURNED dict{'observation_mode': 'ScanSAR nominal 28MHz mode dual polarization', 'observation_direction': 'right looking', 'processing_level': 'level "
  "1.0', 'processing_option': 'not specified', 'map_projection': 'UTM', 'orbit_direction': 'ascending'}"],
 ['product', "'str'", "'WWDR1.0XUA'", "RAISED builtins.ValueError(Exception) args=('invalid product id: WWDR1.0XUA',) str='invalid product id: WWDR1.0XUA'"],
 ['product',
  "'str'",
  "'WWDR1.1GUA'",
  "RETURNED dict{'observation_mode': 'ScanSAR nominal 28MHz mode dual polarization', 'observation_direction': 'right looking', 'processing_level': 'level "
  "1.1', 'processing_option': 'geo-code', 'map_projection': 'UTM', 'orbit_direction': 'ascending'}"],
 ['product',
  "'str'",
  "'WWDR1.1RUA'",
  "RETURNED dict{'observation_mode': 'ScanSAR nominal 28MHz mode dual polarization', 'observation_direction': 'right looking', 'processing_level': 'level "
  "1.1', 'processing_option': 'geo-reference', 'map_projection': 'UTM', 'orbit_direction': 'ascending'}"],
 ['product',
  "'str'",
  "'WWDR1.1_UA'",
  "RETURNED dict{'observation_mode': 'ScanSAR nominal 28MHz mode dual polarization', 'observation_direction': 'right looking', 'processing_level': 'level "
  "1.1', 'processing_option': 'not specified', 'map_projection': 'UTM', 'orbit_direction': 'ascending'}"],
 ['product', "'str'", "'WWDR1.1XUA'", "RAISED builtins.ValueError(Exception) args=('invalid product id: WWDR1.1XUA',) str='invalid product id: WWDR1.1XUA'"],
 ['product',
  "'str'",
  "'WWDR1.5GUA'",
  "RETURNED dict{'observation_mode': 'ScanSAR nominal 28MHz mode dual polarization', 'observation_direction': 'right looking', 'processing_level': 'level "
  "1.5', 'processing_option': 'geo-code', 'map_projection': 'UTM', 'orbit_direction': 'ascending'}"],
 ['product',
  "'str'",
  "'WWDR1.5RUA'",
  "RETURNED dict{'observation_mode': 'ScanSAR nominal 28MHz mode dual polarization', 'observation_direction': 'right looking', 'processing_level': 'level "
  "1.5', 'processing_option': 'geo-reference', 'map_projection': 'UTM', 'orbit_direction': 'ascending'}"],
 ['product',
  "'str'",
  "'WWDR1.5_UA'",
  "RETURNED dict{'observation_mode': 'ScanSAR nominal 28MHz mode dual polarization', 'observation_direction': 'right looking', 'processing_level': 'level "
  "1.5', 'processing_option': 'not specified', 'map_projection': 'UTM', 'orbit_direction': 'ascending'}"],
 ['product', "'str'", "'WWDR1.5XUA'", "RAISED builtins.ValueError(Exception) args=('invalid product id: WWDR1.5XUA',) str='invalid product id: WWDR1.5XUA'"],
 ['product',
  "'str'",
  "'WWDR3.1GUA'",
  "RETURNED dict{'observation_mode': 'ScanSAR nominal 28MHz mode dual polarization', 'observation_direction': 'right looking', 'processing_level': 'level "
  "3.1', 'processing_option': 'geo-code', 'map_projection': 'UTM', 'orbit_direction': 'ascending'}"],
 ['product',
  "'str'",
  "'WWDR3.1RUA'",
  "RETURNED dict{'observation_mode': 'ScanSAR nominal 28MHz mode dual polarization', 'observation_direction': 'right looking', 'processing_level': 'level "
  "3.1', 'processing_option': 'geo-reference', 'map_projection': 'UTM', 'orbit_direction': 'ascending'}"],
 ['product',
  "'str'",
  "'WWDR3.1_UA'",
  "RETURNED dict{'observation_mode': 'ScanSAR nominal 28MHz mode dual polarization', 'observation_direction': 'right looking', 'processing_level': 'level "
  "3.1', 'processing_option': 'not specified', 'map_projection': 'UTM', 'orbit_direction': 'ascending'}"],
 ['product', "'str'", "'WWDR3.1XUA'", "RAISED builtins.ValueError(Exception) args=('invalid product id: WWDR3.1XUA',) str='invalid product id: WWDR3.1XUA'"],
 ['product', "'str'", "'WWDR1.6GUA'", "RAISED builtins.ValueError(Exception) args=('invalid product id: WWDR1.6GUA',) str='invalid product id: WWDR1.6GUA'"],
 ['product', "'str'", "'WWDR1.6RUA'", "RAISED builtins.ValueError(Exception) args=('invalid product id: WWDR1.6RUA',) str='invalid product id: WWDR1.6RUA'"],
 ['product', "'str'", "'WWDR1.6_UA'", "RAISED builtins.ValueError(Exception) args=('invalid product id: WWDR1.6_UA',) str='invalid product id: WWDR1.6_UA'"],
 ['product', "'str'", "'WWDR1.6XUA'", "RAISED builtins.ValueError(Exception) args=('invalid product id: WWDR1.6XUA',) str='invalid product id: WWDR1.6XUA'"],
 ['product', "'str'", "'WWDR2.1GUA'", "RAISED builtins.ValueError(Exception) args=('invalid product id: WWDR2.1GUA',) str='invalid product id: WWDR2.1GUA'"],
 ['product', "'str'", "'WWDR2.1RUA'", "RAISED builtins.ValueError(Exception) args=('invalid product id: WWDR2.1RUA',) str='invalid product id: WWDR2.1RUA'"],
 ['product', "'str'", "'WWDR2.1_UA'", "RAISED builtins.ValueError(Exception) args=('invalid product id: WWDR2.1_UA',) str='invalid product id: WWDR2.1_UA'"],
 ['product', "'str'", "'WWDR2.1XUA'", "RAISED builtins.ValueError(Exception) args=('invalid product id: WWDR2.1XUA',) str='invalid product id: WWDR2.1XUA'"],
 ['product',
  "'str'",
  "'FBDL1.5GUD'",
  "RETURNED dict{'observation_mode': 'fine mode dual polarization', 'observation_direction': 'left looking', 'processing_level': 'level 1.5', "
  "'processing_option': 'geo-code', 'map_projection': 'UTM', 'orbit_direction': 'descending'}"],
 ['product', "'str'", "'FBDL1.5GUX'", "RAISED builtins.ValueError(Exception) args=('invalid product id: FBDL1.5GUX',) str='invalid product id: FBDL1.5GUX'"],
 ['product',
  "'str'",
  "'FBDL1.5GPD'",
  "RETURNED dict{'observation_mode': 'fine mode dual polarization', 'observation_direction': 'left looking', 'processing_level': 'level 1.5', "
  "'processing_option': 'geo-code', 'map_projection': 'PS', 'orbit_direction': 'descending'}"],
 ['product', "'str'", "'FBDL1.5GPX'", "RAISED builtins.ValueError(Exception) args=('invalid product id: FBDL1.5GPX',) str='invalid product id: FBDL1.5GPX'"],
 ['product',
  "'str'",
  "'FBDL1.5GMD'",
  "RETURNED dict{'observation_mode': 'fine mode dual polarization', 'observation_direction': 'left looking', 'processing_level': 'level 1.5', "
  "'processing_option': 'geo-code', 'map_projection': 'MER', 'orbit_direction': 'descending'}"],
 ['product', "'str'", "'FBDL1.5GMX'", "RAISED builtins.ValueError(Exception) args=('invalid product id: FBDL1.5GMX',) str='invalid product id: FBDL1.5GMX'"],
 ['product',
  "'str'",
  "'FBDL1.5GLD'",
  "RETURNED dict{'observation_mode': 'fine mode dual polarization', 'observation_direction': 'left looking', 'processing_level': 'level 1.5', "
  "'processing_option': 'geo-code', 'map_projection': 'LCC', 'orbit_direction': 'descending'}"],
 ['product', "'str'", "'FBDL1.5GLX'", "RAISED builtins.ValueError(Exception) args=('invalid product id: FBDL1.5GLX',) str='invalid product id: FBDL1.5GLX'"],
 ['product',
  "'str'",
  "'FBDL1.5G_D'",
  "RETURNED dict{'observation_mode': 'fine mode dual polarization', 'observation_direction': 'left looking', 'processing_level': 'level 1.5', "
  "'processing_option': 'geo-code', 'map_projection': 'not specified', 'orbit_direction': 'descending'}"],
 ['product', "'str'", "'FBDL1.5G_X'", "RAISED builtins.ValueError(Exception) args=('invalid product id: FBDL1.5G_X',) str='invalid product id: FBDL1.5G_X'"],
 ['product', "'str'", "'FBDL1.5GXD'", "RAISED builtins.ValueError(Exception) args=('invalid product id: FBDL1.5GXD',) str='invalid product id: FBDL1.5GXD'"],
 ['product', "'str'", "'FBDL1.5GXX'", "RAISED builtins.ValueError(Exception) args=('invalid product id: FBDL1.5GXX',) str='invalid product id: FBDL1.5GXX'"],
 ['product', "'str'", "'FBDX1.5GUD'", "RAISED builtins.ValueError(Exception) args=('invalid product id: FBDX1.5GUD',) str='invalid product id: FBDX1.5GUD'"],
 ['product', "'str'", "'FBDX1.5GUX'", "RAISED builtins.ValueError(Exception) args=('invalid product id: FBDX1.5GUX',) str='invalid product id: FBDX1.5GUX'"],
 ['product', "'str'", "'FBDX1.5GPD'", "RAISED builtins.ValueError(Exception) args=('invalid product id: FBDX1.5GPD',) str='invalid product id: FBDX1.5GPD'"],
 ['product', "'str'", "'FBDX1.5GPX'", "RAISED builtins.ValueError(Exception) args=('invalid product id: FBDX1.5GPX',) str='invalid product id: FBDX1.5GPX'"],
 ['product', "'str'", "'FBDX1.5GMD'", "RAISED builtins.ValueError(Exception) args=('invalid product id: FBDX1.5GMD',) str='invalid product id: FBDX1.5GMD'"],
 ['product', "'str'", "'FBDX1.5GMX'", "RAISED builtins.ValueError(Exception) args=('invalid product id: FBDX1.5GMX',) str='invalid product id: FBDX1.5GMX'"],
 ['product', "'str'", "'FBDX1.5GLD'", "RAISED builtins.ValueError(Exception) args=('invalid product id: FBDX1.5GLD',) str='invalid product id: FBDX1.5GLD'"],
 ['product', "'str'", "'FBDX1.5GLX'", "RAISED builtins.ValueError(Exception) args=('invalid product id: FBDX1.5GLX',) str='invalid product id: FBDX1.5GLX'"],
 ['product', "'str'", "'FBDX1.5G_D'", "RAISED builtins.ValueError(Exception) args=('invalid product id: FBDX1.5G_D',) str='invalid product id: FBDX1.5G_D'"],
 ['product', "'str'", "'FBDX1.5G_X'", "RAISED builtins.ValueError(Exception) args=('invalid product id: FBDX1.5G_X',) str='invalid product id: FBDX1.5G_X'"],
 ['product', "'str'", "'FBDX1.5GXD'", "RAISED builtins.ValueError(Exception) args=('invalid product id: FBDX1.5GXD',) str='invalid product id: FBDX1.5GXD'"],
 ['product', "'str'", "'FBDX1.5GXX'", "RAISED builtins.ValueError(Exception) args=('invalid product id: FBDX1.5GXX',) str='invalid product id: FBDX1.5GXX'"],
 ['product',
  "'str'",
  "'XYZL1.5GUD'",
  "RAISED builtins.ValueError(Exception) args=('invalid product id: XYZL1.5GUD',) str='invalid product id: XYZL1.5GUD' [cause=builtins.ValueError(Exception) "
  'args=("invalid code \'XYZ\'",) str="invalid code \'XYZ\'"; context=<cause>; suppress_context=True]'],
 ['product', "'str'", "'XYZL1.5GUX'", "RAISED builtins.ValueError(Exception) args=('invalid product id: XYZL1.5GUX',) str='invalid product id: XYZL1.5GUX'"],
 ['product',
  "'str'",
  "'XYZL1.5GPD'",
  "RAISED builtins.ValueError(Exception) args=('invalid product id: XYZL1.5GPD',) str='invalid product id: XYZL1.5GPD' [cause=builtins.ValueError(Exception) "
  'args=("invalid code \'XYZ\'",) str="invalid code \'XYZ\'"; context=<cause>; suppress_context=True]'],
 ['product', "'str'", "'XYZL1.5GPX'", "RAISED builtins.ValueError(Exception) args=('invalid product id: XYZL1.5GPX',) str='invalid product id: XYZL1.5GPX'"],
 ['product',
  "'str'",
  "'XYZL1.5GMD'",
  "RAISED builtins.ValueError(Exception) args=('invalid product id: XYZL1.5GMD',) str='invalid product id: XYZL1.5GMD' [cause=builtins.ValueError(Exception) "
  'args=("invalid code \'XYZ\'",) str="invalid code \'XYZ\'"; context=<cause>; suppress_context=True]'],
 ['product', "'str'", "'XYZL1.5GMX'", "RAISED builtins.ValueError(Exception) args=('invalid product id: XYZL1.5GMX',) str='invalid product id: XYZL1.5GMX'"],
 ['product',
  "'str'",
  "'XYZL1.5GLD'",
  "RAISED builtins.ValueError(Exception) args=('invalid product id: XYZL1.5GLD',) str='invalid product id: XYZL1.5GLD' [cause=builtins.ValueError(Exception) "
  'args=("invalid code \'XYZ\'",) str="invalid code \'XYZ\'"; context=<cause>; suppress_context=True]'],
 ['product', "'str'", "'XYZL1.5GLX'", "RAISED builtins.ValueError(Exception) args=('invalid product id: XYZL1.5GLX',) str='invalid product id: XYZL1.5GLX'"],
 ['product',
  "'str'",
  "'XYZL1.5G_D'",
  "RAISED builtins.ValueError(Exception) args=('invalid product id: XYZL1.5G_D',) str='invalid product id: XYZL1.5G_D' [cause=builtins.ValueError(Exception) "
  'args=("invalid code \'XYZ\'",) str="invalid code \'XYZ\'"; context=<cause>; suppress_context=True]'],
 ['product', "'str'", "'XYZL1.5G_X'", "RAISED builtins.ValueError(Exception) args=('invalid product id: XYZL1.5G_X',) str='invalid product id: XYZL1.5G_X'"],
 ['product', "'str'", "'XYZL1.5GXD'", "RAISED builtins.ValueError(Exception) args=('invalid product id: XYZL1.5GXD',) str='invalid product id: XYZL1.5GXD'"],
 ['product', "'str'", "'XYZL1.5GXX'", "RAISED builtins.ValueError(Exception) args=('invalid product id: XYZL1.5GXX',) str='invalid product id: XYZL1.5GXX'"],
 ['product', "'str'", "'XYZX1.5GUD'", "RAISED builtins.ValueError(Exception) args=('invalid product id: XYZX1.5GUD',) str='invalid product id: XYZX1.5GUD'"],
 ['product', "'str'", "'XYZX1.5GUX'", "RAISED builtins.ValueError(Exception) args=('invalid product id: XYZX1.5GUX',) str='invalid product id: XYZX1.5GUX'"],
 ['product', "'str'", "'XYZX1.5GPD'", "RAISED builtins.ValueError(Exception) args=('invalid product id: XYZX1.5GPD',) str='invalid product id: XYZX1.5GPD'"],
 ['product', "'str'", "'XYZX1.5GPX'", "RAISED builtins.ValueError(Exception) args=('invalid product id: XYZX1.5GPX',) str='invalid product id: XYZX1.5GPX'"],
 ['product', "'str'", "'XYZX1.5GMD'", "RAISED builtins.ValueError(Exception) args=('invalid product id: XYZX1.5GMD',) str='invalid product id: XYZX1.5GMD'"],
 ['product', "'str'", "'XYZX1.5GMX'", "RAISED builtins.ValueError(Exception) args=('invalid product id: XYZX1.5GMX',) str='invalid product id: XYZX1.5GMX'"],
 ['product', "'str'", "'XYZX1.5GLD'", "RAISED builtins.ValueError(Exception) args=('invalid product id: XYZX1.5GLD',) str='invalid product id: XYZX1.5GLD'"],
 ['product', "'str'", "'XYZX1.5GLX'", "RAISED builtins.ValueError(Exception) args=('invalid product id: XYZX1.5GLX',) str='invalid product id: XYZX1.5GLX'"],
 ['product', "'str'", "'XYZX1.5G_D'", "RAISED builtins.ValueError(Exception) args=('invalid product id: XYZX1.5G_D',) str='invalid product id: XYZX1.5G_D'"],
 ['product', "'str'", "'XYZX1.5G_X'", "RAISED builtins.ValueError(Exception) args=('invalid product id: XYZX1.5G_X',) str='invalid product id: XYZX1.5G_X'"],
 ['product', "'str'", "'XYZX1.5GXD'", "RAISED builtins.ValueError(Exception) args=('invalid product id: XYZX1.5GXD',) str='invalid product id: XYZX1.5GXD'"],
 ['product', "'str'", "'XYZX1.5GXX'", "RAISED builtins.ValueError(Exception) args=('invalid product id: XYZX1.5GXX',) str='invalid product id: XYZX1.5GXX'"],
 ['product', "'str'", "''", "RAISED builtins.ValueError(Exception) args=('invalid product id: ',) str='invalid product id: '"],
 ['product', "'str'", "'WWDR1.1__'", "RAISED builtins.ValueError(Exception) args=('invalid product id: WWDR1.1__',) str='invalid product id: WWDR1.1__'"],
 ['product', "'str'", "'WWDR1.1__DD'", "RAISED builtins.ValueError(Exception) args=('invalid product id: WWDR1.1__DD',) str='invalid product id: WWDR1.1__DD'"],
 ['product',
  "'str'",
  "'WWDR1.1__D\\n'",
  "RAISED builtins.ValueError(Exception) args=('invalid product id: WWDR1.1__D\\n',) str='invalid product id: WWDR1.1__D\\n'"],
 ['product', "'str'", "'wwdr1.1__d'", "RAISED builtins.ValueError(Exception) args=('invalid product id: wwdr1.1__d',) str='invalid product id: wwdr1.1__d'"],
 ['product', "'str'", "'WWDR1-1__D'", "RAISED builtins.ValueError(Exception) args=('invalid product id: WWDR1-1__D',) str='invalid product id: WWDR1-1__D'"],
 ['product', "'str'", "'WWDR11___D'", "RAISED builtins.ValueError(Exception) args=('invalid product id: WWDR11___D',) str='invalid product id: WWDR11___D'"],
 ['product',
  "'str'",
  "'W\\xc4DR1.1__D'",
  "RAISED builtins.ValueError(Exception) args=('invalid product id: W\\xc4DR1.1__D',) str='invalid product id: W\\xc4DR1.1__D'"],
 ['product', "'str'", "'{}{}{}'", "RAISED builtins.ValueError(Exception) args=('invalid product id: {}{}{}',) str='invalid product id: {}{}{}'"],
 ['product',
  "'Str'",
  "'WWDR1.5RUA'",
  "RETURNED dict{'observation_mode': 'ScanSAR nominal 28MHz mode dual polarization', 'observation_direction': 'right looking', 'processing_level': 'level "
  "1.5', 'processing_option': 'geo-reference', 'map_projection': 'UTM', 'orbit_direction': 'ascending'}"],
 ['product',
  "'Str'",
  "'QQQR1.5RUA'",
  "RAISED builtins.ValueError(Exception) args=('invalid product id: QQQR1.5RUA',) str='invalid product id: QQQR1.5RUA' [cause=builtins.ValueError(Exception) "
  'args=("invalid code \'QQQ\'",) str="invalid code \'QQQ\'"; context=<cause>; suppress_context=True]'],
 ['product',
  "'NoneType'",
  'None',
  'RAISED builtins.TypeError(Exception) args=("expected string or bytes-like object, got \'NoneType\'",) str="expected string or bytes-like object, got '
  '\'NoneType\'"'],
 ['product',
  "'bytes'",
  "b'WWDR1.1__D'",
  "RAISED builtins.TypeError(Exception) args=('cannot use a string pattern on a bytes-like object',) str='cannot use a string pattern on a bytes-like object'"],
 ['product',
  "'float'",
  '3.1',
  'RAISED builtins.TypeError(Exception) args=("expected string or bytes-like object, got \'float\'",) str="expected string or bytes-like object, got '
  '\'float\'"'],
 ['product',
  "'Weird'",
  'Weird',
  'RAISED builtins.TypeError(Exception) args=("expected string or bytes-like object, got \'Weird\'",) str="expected string or bytes-like object, got '
  '\'Weird\'"'],
 ['kw-scene', "RETURNED dict{'mission_name': 'ALOS2', 'orbit_accumulation': '22533', 'scene_frame': '3200', 'date': datetime.datetime(2018, 7, 26, 0, 0)}"],
 ['kw-product',
  "RETURNED dict{'observation_mode': 'ScanSAR nominal 28MHz mode dual polarization', 'observation_direction': 'right looking', 'processing_level': 'level "
  "1.1', 'processing_option': 'not specified', 'map_projection': 'not specified', 'orbit_direction': 'descending'}"],
 ['kw-wrong', 'RAISED builtins.TypeError'],
 ['noarg', 'RAISED builtins.TypeError'],
 ['subclass',
  'scene',
  "RAISED builtins.ValueError(Exception) args=('invalid scene id: ALOS2225333200-180726',) str='invalid scene id: ALOS2225333200-180726' "
  '[cause=<equiv>.CustomValueError(ValueError>Exception) args=(\'custom\', 1) str="(\'custom\', 1)"; context=<cause>; suppress_context=True]'],
 ['subclass',
  'product',
  "RAISED builtins.ValueError(Exception) args=('invalid product id: WWDR1.1__D',) str='invalid product id: WWDR1.1__D' "
  '[cause=builtins.UnicodeDecodeError(UnicodeError>ValueError>Exception) args=(\'ascii\', b\'\\xff\', 0, 1, \'nope\') str="\'ascii\' codec can\'t decode byte '
  '0xff in position 0: nope"; context=<cause>; suppress_context=True]'],
 ['other', 'scene', 'RAISED builtins.KeyError(LookupError>Exception) args=(\'scene_frame\',) str="\'scene_frame\'"'],
 ['other', 'product', "RAISED builtins.TypeError(Exception) args=('bad type',) str='bad type'"],
 ['missing', 'scene', 'RAISED builtins.KeyError(LookupError>Exception) args=(\'date\',) str="\'date\'"'],
 ['missing', 'product', 'RAISED builtins.KeyError(LookupError>Exception) args=(\'orbit_direction\',) str="\'orbit_direction\'"'],
 ['first-of-two',
  'scene',
  "RAISED builtins.ValueError(Exception) args=('invalid scene id: ALOS2225333200-180726',) str='invalid scene id: ALOS2225333200-180726' "
  "[cause=builtins.ValueError(Exception) args=('first',) str='first'; context=<cause>; suppress_context=True]"],
 ['first-of-two',
  'product',
  "RAISED builtins.ValueError(Exception) args=('invalid product id: WWDR1.1__D',) str='invalid product id: WWDR1.1__D' [cause=builtins.ValueError(Exception) "
  "args=('first',) str='first'; context=<cause>; suppress_context=True]"],
 ['results', 'scene', "RETURNED dict{'mission_name': None, 'orbit_accumulation': '22533', 'scene_frame': '3200', 'date': list['180726']}"],
 ['results',
  'product',
  "RETURNED dict{'observation_mode': dict{'nested': 'WWD'}, 'observation_direction': 'right looking', 'processing_level': 'level 1.1', 'processing_option': "
  "'not specified', 'map_projection': 'not specified', 'orbit_direction': 'd'}"],
 ['base-exception', 'scene', "RAISED builtins.KeyboardInterrupt() args=() str=''"],
 ['base-exception', 'product', "RAISED builtins.SystemExit() args=(3,) str='3'"],
 ['regex', 'abc-180726', "RETURNED dict{'mission_name': 'abc', 'date': datetime.datetime(2018, 7, 26, 0, 0)}"],
 ['regex',
  'abc-189926',
  "RAISED builtins.ValueError(Exception) args=('invalid scene id: abc-189926',) str='invalid scene id: abc-189926' [cause=builtins.ValueError(Exception) "
  "args=('unconverted data remains: 26',) str='unconverted data remains: 26'; context=<cause>; suppress_context=True]"],
 ['regex',
  'ALOS2225333200-180726',
  "RAISED builtins.ValueError(Exception) args=('invalid scene id: ALOS2225333200-180726',) str='invalid scene id: ALOS2225333200-180726'"],
 ['regex', '1.5', "RETURNED dict{'processing_level': 'level 1.5'}"],
 ['regex',
  'WWDR1.1__D',
  "RAISED builtins.ValueError(Exception) args=('invalid product id: WWDR1.1__D',) str='invalid product id: WWDR1.1__D' [cause=builtins.ValueError(Exception) "
  'args=("invalid code \'WWDR1.1__D\'",) str="invalid code \'WWDR1.1__D\'"; context=<cause>; suppress_context=True]'],
 ['filename',
  'IMG-HV-ALOS2225333100-180726-WWDR1.1__D-B3',
  "RETURNED dict{'filetype': 'IMG', 'polarization': 'HV', 'mission_name': 'ALOS2', 'orbit_accumulation': '22533', 'scene_frame': '3100', 'date': "
  "datetime.datetime(2018, 7, 26, 0, 0), 'observation_mode': 'ScanSAR nominal 28MHz mode dual polarization', 'observation_direction': 'right looking', "
  "'processing_level': 'level 1.1', 'processing_option': 'not specified', 'map_projection': 'not specified', 'orbit_direction': 'descending', "
  "'processing_method': 'SPECAN method', 'scan_number': '3'}"],
 ['filename',
  'TRL-ALOS2225333100-180726-WWDR1.1__D',
  "RETURNED dict{'filetype': 'TRL', 'polarization': None, 'mission_name': 'ALOS2', 'orbit_accumulation': '22533', 'scene_frame': '3100', 'date': "
  "datetime.datetime(2018, 7, 26, 0, 0), 'observation_mode': 'ScanSAR nominal 28MHz mode dual polarization', 'observation_direction': 'right looking', "
  "'processing_level': 'level 1.1', 'processing_option': 'not specified', 'map_projection': 'not specified', 'orbit_direction': 'descending'}"],
 ['filename',
  'LED-ALOS2290760600-191011-WWDR1.5RUA',
  "RETURNED dict{'filetype': 'LED', 'polarization': None, 'mission_name': 'ALOS2', 'orbit_accumulation': '29076', 'scene_frame': '0600', 'date': "
  "datetime.datetime(2019, 10, 11, 0, 0), 'observation_mode': 'ScanSAR nominal 28MHz mode dual polarization', 'observation_direction': 'right looking', "
  "'processing_level': 'level 1.5', 'processing_option': 'geo-reference', 'map_projection': 'UTM', 'orbit_direction': 'ascending'}"],
 ['filename',
  'LED-ALOS2290760600-191311-WWDR1.5RUA',
  "RAISED builtins.ValueError(Exception) args=('invalid scene id: ALOS2290760600-191311',) str='invalid scene id: ALOS2290760600-191311' "
  "[cause=builtins.ValueError(Exception) args=('unconverted data remains: 1',) str='unconverted data remains: 1'; context=<cause>; suppress_context=True]"],
 ['filename',
  'LED-ALOS2290760600-191011-WXDR1.5RUA',
  "RAISED builtins.ValueError(Exception) args=('invalid product id: WXDR1.5RUA',) str='invalid product id: WXDR1.5RUA' [cause=builtins.ValueError(Exception) "
  'args=("invalid code \'WXD\'",) str="invalid code \'WXD\'"; context=<cause>; suppress_context=True]'],
 ['filename',
  'LED-ALOS2290760600-191311-WXDR1.5RUA',
  "RAISED builtins.ValueError(Exception) args=('invalid scene id: ALOS2290760600-191311',) str='invalid scene id: ALOS2290760600-191311' "
  "[cause=builtins.ValueError(Exception) args=('unconverted data remains: 1',) str='unconverted data remains: 1'; context=<cause>; suppress_context=True]"],
 ['filename',
  'LED-ALOS2290760600-191011-WWDR1.6RUA',
  "RAISED builtins.ValueError(Exception) args=('invalid product id: WWDR1.6RUA',) str='invalid product id: WWDR1.6RUA'"],
 ['filename', 'summary.txt', "RAISED builtins.ValueError(Exception) args=('invalid file name: summary.txt',) str='invalid file name: summary.txt'"],
 ['scene_spec',
  "RETURNED Group('/', None, dict{}, dict{'mission_name': 'ALOS2', 'orbit_accumulation': 22533, 'scene_frame': 3200, 'date': '2018-07-26', 'SceneShift': -1})"],
 ['scene_spec',
  "RAISED builtins.ValueError(Exception) args=('invalid scene id: ALOS2225333200-180740',) str='invalid scene id: ALOS2225333200-180740' "
  "[cause=builtins.ValueError(Exception) args=('unconverted data remains: 0',) str='unconverted data remains: 0'; context=<cause>; suppress_context=True]"],
 ['scene_spec', "RAISED builtins.ValueError(Exception) args=('invalid scene id: nope',) str='invalid scene id: nope'"],
 ['product_spec',
  "RETURNED Group('/', None, dict{}, dict{'observation_mode': 'ScanSAR nominal 28MHz mode dual polarization', 'observation_direction': 'right looking', "
  "'processing_level': 'level 1.5', 'processing_option': 'geo-reference', 'map_projection': 'UTM', 'orbit_direction': 'ascending', 'ResamplingMethod': "
  "'nearest-neighbor', 'UTM_ZoneNo': 32, 'PixelSpacing': 25.0})"],
 ['product_spec',
  "RAISED builtins.ValueError(Exception) args=('invalid product id: WWXR1.5RUA',) str='invalid product id: WWXR1.5RUA' [cause=builtins.ValueError(Exception) "
  'args=("invalid code \'WWX\'",) str="invalid code \'WWX\'"; context=<cause>; suppress_context=True]'],
 ['product_spec',
  "RAISED builtins.ValueError(Exception) args=('invalid product id: ZZZR1.5RUA',) str='invalid product id: ZZZR1.5RUA' [cause=builtins.ValueError(Exception) "
  'args=("invalid code \'ZZZ\'",) str="invalid code \'ZZZ\'"; context=<cause>; suppress_context=True]'],
 ['name', 'decode_scene_id', True],
 ['name', 'decode_product_id', True],
 ['name', 'decode_scan_info', True],
 ['name', 'decode_filename', True],
 ['name', 'lookup', True],
 ['name', 'parse_date', True],
 ['name', 'translations', True],
 ['name', 'scene_id_re', True],
 ['name', 'product_id_re', True],
 ['name', 'scan_info_re', True],
 ['name', 'fname_re', True],
 ['module', 'ceos_alos2.decoders', 'ceos_alos2.decoders'],
 ['fname', 'decode_scene_id', 'decode_product_id']]
# EXPECTED-END


def test_equivalence():
    observations = [list(entry) for entry in run()]

    assert len(observations) == len(EXPECTED), (len(observations), len(EXPECTED))
    for actual, expected in zip(observations, EXPECTED):
        assert actual == expected, f"\nactual:   {actual}\nexpected: {expected}"

    # a few literal spot checks on top of the recorded table
    assert decoders.decode_scene_id("ALOS2225333200-180726") == {
        "mission_name": "ALOS2",
        "orbit_accumulation": "22533",
        "scene_frame": "3200",
        "date": datetime.datetime(2018, 7, 26),
    }
    assert list(decoders.decode_product_id("WWDR1.5RUA").items()) == [
        ("observation_mode", "ScanSAR nominal 28MHz mode dual polarization"),
        ("observation_direction", "right looking"),
        ("processing_level", "level 1.5"),
        ("processing_option", "geo-reference"),
        ("map_projection", "UTM"),
        ("orbit_direction", "ascending"),
    ]
    for func, value, message, cause_message in [
        (decoders.decode_scene_id, "ALOS2225333200-180732", "invalid scene id: ALOS2225333200-180732", "unconverted data remains: 2"),
        (decoders.decode_scene_id, "ALOS2xxxxx3200-180726", "invalid scene id: ALOS2xxxxx3200-180726", None),
        (decoders.decode_product_id, "XXXL1.1__A", "invalid product id: XXXL1.1__A", "invalid code 'XXX'"),
        (decoders.decode_product_id, "WWDR1.6__A", "invalid product id: WWDR1.6__A", None),
    ]:
        try:
            func(value)
        except ValueError as e:
            assert type(e) is ValueError and e.args == (message,)
            if cause_message is None:
                assert e.__cause__ is None and e.__context__ is None
                assert e.__suppress_context__ is False
            else:
                assert type(e.__cause__) is ValueError and e.__cause__.args == (cause_message,)
                assert e.__context__ is e.__cause__ and e.__suppress_context__ is True
        else:
            raise AssertionError(f"{value}: did not raise")


if __name__ == "__main__":
    if "--record" in sys.argv:
        print("EXPECTED = " + pprint.pformat([list(entry) for entry in run()], width=160))
    else:
        test_equivalence()
        print("OK", len(EXPECTED), "observations")
