"""Equivalence check for refactoring 4 (ceos_alos2.sar_image.cli).

Expected outcomes were recorded from the unchanged code at HEAD
(``python _eq/4/equiv.py --dump`` prints the table for the importable code).

The module-level collaborators of the cli module (``open_image``, ``caching``,
``fsspec``) are replaced by recorders where the call sequence matters; other
scenarios use the real ones on files in a temporary directory.
"""

import contextlib
import io
import os
import pathlib
import sys
import tempfile
import types
from unittest import mock

import numpy as np

os.environ["COLUMNS"] = "80"

from ceos_alos2.hierarchy import Group, Variable  # noqa: E402
from ceos_alos2.sar_image import cli  # noqa: E402
from ceos_alos2.tests.utils import create_dummy_array  # noqa: E402


def scrub(text, root):
    return str(text).replace(str(root), "<tmp>")


def sample_group():
    return Group(
        path="HH",
        url=None,
        data={
            "x": Variable("rows", np.arange(3, dtype="int16"), {"units": "1"}),
            "data": Variable(["rows", "columns"], create_dummy_array(shape=(4, 3)), {}),
        },
        attrs={"a": 1, "b": "two"},
    )


class Recorder:
    """stand-ins for open_image / caching.encode / fsspec.get_mapper"""

    def __init__(self, root, *, fail_at=None):
        self.events = []
        self.root = root
        self.fail_at = fail_at

    def _maybe_fail(self, name):
        if self.fail_at is not None and self.fail_at[0] == name:
            raise self.fail_at[1]

    def get_mapper(self, *args, **kwargs):
        self.events.append(("get_mapper", scrub(args, self.root), sorted(kwargs.items())))
        self._maybe_fail("get_mapper")
        return "MAPPER"

    def open_image(self, *args, **kwargs):
        self.events.append(("open_image", scrub(args, self.root), sorted(kwargs.items())))
        self._maybe_fail("open_image")
        return "GROUP"

    def encode(self, *args, **kwargs):
        self.events.append(("encode", args, sorted(kwargs.items())))
        self._maybe_fail("encode")
        return "ENCODED"

    def patches(self):
        stack = contextlib.ExitStack()
        stack.enter_context(mock.patch.object(cli, "open_image", self.open_image))
        stack.enter_context(
            mock.patch.object(cli, "caching", types.SimpleNamespace(encode=self.encode))
        )
        stack.enter_context(
            mock.patch.object(cli, "fsspec", types.SimpleNamespace(get_mapper=self.get_mapper))
        )
        return stack


def listing(root):
    result = []
    for path in sorted(root.rglob("*")):
        rel = str(path.relative_to(root))
        result.append((rel, "dir") if path.is_dir() else (rel, path.read_text()))
    return result


def run(func, root):
    try:
        result = func()
    except SystemExit as e:
        return ("exit", e.code)
    except Exception as e:  # noqa: BLE001
        return ("raise", type(e).__name__, scrub(e, root), scrub(e.args, root))
    return ("ok", repr(result))


def fresh_root():
    tmp = tempfile.TemporaryDirectory()
    root = pathlib.Path(tmp.name).resolve()
    (root / "product").mkdir()
    (root / "product" / "IMG-HH-ALOS2000000000-000000-UBSL1.5GUA").write_bytes(b"\x00" * 16)
    (root / "cache").mkdir()
    (root / "plain.txt").write_text("not a directory")
    (root / "blocked").mkdir()
    (root / "blocked" / "IMG-HH-ALOS2000000000-000000-UBSL1.5GUA.index").mkdir()
    return tmp, root


IMAGE = "product/IMG-HH-ALOS2000000000-000000-UBSL1.5GUA"


def create_cache_scenarios():
    """(name, image path, cache root, rpc, failure injection)"""
    return [
        ("default root", IMAGE, None, 4096, None),
        ("explicit root", IMAGE, "cache", 7, None),
        ("root is image dir", IMAGE, "product", None, None),
        ("rpc string", IMAGE, "cache", "10MB", None),
        ("missing image", "product/missing", None, 1, None),
        ("missing image and root", "product/missing", "nowhere", 1, None),
        ("image is a directory", "product", None, 1, None),
        ("missing root", IMAGE, "nowhere", 1, None),
        ("root is a file", IMAGE, "plain.txt", 1, None),
        ("target is a directory", IMAGE, "blocked", 1, None),
        ("get_mapper fails", IMAGE, "cache", 1, ("get_mapper", ValueError("bad uri"))),
        ("open_image fails", IMAGE, "cache", 1, ("open_image", FileNotFoundError("gone"))),
        ("open_image fails oserror", IMAGE, None, 1, ("open_image", OSError(5, "io error"))),
        ("encode fails", IMAGE, None, 1, ("encode", TypeError("cannot encode"))),
        ("encode fails, bad root", IMAGE, "nowhere", 1, ("encode", TypeError("cannot encode"))),
    ]


def stubbed_create_cache():
    results = []
    for name, image, cache_root, rpc, fail_at in create_cache_scenarios():
        tmp, root = fresh_root()
        with tmp:
            before = listing(root)
            recorder = Recorder(root, fail_at=fail_at)
            image_path = root / image
            root_path = None if cache_root is None else root / cache_root
            with recorder.patches():
                result = run(lambda: cli.create_cache(image_path, root_path, rpc), root)
            after = listing(root)
            new_files = [entry for entry in after if entry not in before]
            results.append((name, result, recorder.events, new_files))
    return results


def relative_path_scenarios():
    results = []
    tmp, root = fresh_root()
    with tmp:
        cwd = os.getcwd()
        os.chdir(root)
        try:
            for image, cache_root in [(IMAGE, None), (IMAGE, "cache"), ("missing", None), (IMAGE, "x")]:
                recorder = Recorder(root)
                root_path = None if cache_root is None else pathlib.Path(cache_root)
                with recorder.patches():
                    result = run(lambda: cli.create_cache(pathlib.Path(image), root_path, 3), root)
                results.append((image, cache_root, result, recorder.events))
            results.append(("files", listing(root) == listing(root), [e[0] for e in listing(root)]))
        finally:
            os.chdir(cwd)
    return results


def real_collaborators():
    """real fsspec mapper and real encoder; only open_image is replaced (no way
    to get a real product here), plus one run where nothing is replaced and the
    reader chokes on a 16 byte file"""
    results = []
    tmp, root = fresh_root()
    with tmp:
        seen = []

        def fake_open_image(mapper, path, **kwargs):
            seen.append((type(mapper).__name__, scrub(mapper.root, root), path, sorted(kwargs.items())))
            return sample_group()

        with mock.patch.object(cli, "open_image", fake_open_image):
            result = run(lambda: cli.create_cache(root / IMAGE, root / "cache", 2), root)
        written = (root / "cache" / (pathlib.Path(IMAGE).name + ".index")).read_text()
        results.append(("fake reader", result, seen, written))

        result = run(lambda: cli.create_cache(root / IMAGE, None, 2), root)
        results.append(("real reader", result[:2], sorted(p.name for p in (root / "product").iterdir())))
    return results


def run_main(argv, root, recorder=None):
    stdout, stderr = io.StringIO(), io.StringIO()
    with contextlib.ExitStack() as stack:
        stack.enter_context(mock.patch.object(sys, "argv", ["ceos-alos2-create-cache", *argv]))
        stack.enter_context(contextlib.redirect_stdout(stdout))
        stack.enter_context(contextlib.redirect_stderr(stderr))
        if recorder is not None:
            stack.enter_context(recorder.patches())
        result = run(cli.main, root)
    return result, scrub(stdout.getvalue(), root), scrub(stderr.getvalue(), root)


def main_scenarios():
    results = []
    tmp, root = fresh_root()
    with tmp:
        image = str(root / IMAGE)
        argvs = [
            [image],
            [image, str(root / "cache")],
            ["--rpc", "12", image],
            ["--rpc", image],
            [image, "--rpc"],
            [image, "--rpc", "5", str(root / "cache")],
            ["--rpc=0", image, str(root / "product")],
            [str(root / "missing")],
            [image, str(root / "nowhere")],
            [image, str(root / "plain.txt")],
            [image, str(root / "blocked")],
            [],
            ["--help"],
            ["-h"],
            ["--rpc", "abc", image],
            [image, "a", "b"],
            ["--unknown", image],
            ["--rp", "3", image],
        ]
        for argv in argvs:
            recorder = Recorder(root)
            result, out, err = run_main(argv, root, recorder)
            results.append(([scrub(a, root) for a in argv], result, out, err, recorder.events))

        for fail_at in [
            ("open_image", FileNotFoundError("no such file")),
            ("open_image", OSError(5, "Input/output error")),
            ("open_image", PermissionError(13, "denied", "name")),
            ("encode", ValueError("not an OSError")),
            ("get_mapper", OSError()),
        ]:
            recorder = Recorder(root, fail_at=fail_at)
            result, out, err = run_main([image], root, recorder)
            results.append((fail_at[0], repr(fail_at[1]), result, out, err, recorder.events))
        results.append(sorted(p.name for p in (root / "product").iterdir()))
    return results


def all_outcomes():
    return {
        "stubbed_create_cache": stubbed_create_cache(),
        "relative_paths": relative_path_scenarios(),
        "real_collaborators": real_collaborators(),
        "main": main_scenarios(),
    }


EXPECTED = {'stubbed_create_cache': [('default root',
                           ('ok', 'None'),
                           [('get_mapper', "('file://<tmp>/product',)", []),
                            ('open_image',
                             "('MAPPER', 'IMG-HH-ALOS2000000000-000000-UBSL1.5GUA')",
                             [('create_cache', False), ('records_per_chunk', 4096), ('use_cache', False)]),
                            ('encode', ('GROUP',), [])],
                           [('product/IMG-HH-ALOS2000000000-000000-UBSL1.5GUA.index', 'ENCODED')]),
                          ('explicit root',
                           ('ok', 'None'),
                           [('get_mapper', "('file://<tmp>/product',)", []),
                            ('open_image',
                             "('MAPPER', 'IMG-HH-ALOS2000000000-000000-UBSL1.5GUA')",
                             [('create_cache', False), ('records_per_chunk', 7), ('use_cache', False)]),
                            ('encode', ('GROUP',), [])],
                           [('cache/IMG-HH-ALOS2000000000-000000-UBSL1.5GUA.index', 'ENCODED')]),
                          ('root is image dir',
                           ('ok', 'None'),
                           [('get_mapper', "('file://<tmp>/product',)", []),
                            ('open_image',
                             "('MAPPER', 'IMG-HH-ALOS2000000000-000000-UBSL1.5GUA')",
                             [('create_cache', False), ('records_per_chunk', None), ('use_cache', False)]),
                            ('encode', ('GROUP',), [])],
                           [('product/IMG-HH-ALOS2000000000-000000-UBSL1.5GUA.index', 'ENCODED')]),
                          ('rpc string',
                           ('ok', 'None'),
                           [('get_mapper', "('file://<tmp>/product',)", []),
                            ('open_image',
                             "('MAPPER', 'IMG-HH-ALOS2000000000-000000-UBSL1.5GUA')",
                             [('create_cache', False), ('records_per_chunk', '10MB'), ('use_cache', False)]),
                            ('encode', ('GROUP',), [])],
                           [('cache/IMG-HH-ALOS2000000000-000000-UBSL1.5GUA.index', 'ENCODED')]),
                          ('missing image',
                           ('raise',
                            'FileNotFoundError',
                            'Cannot find image file at given path: <tmp>/product/missing',
                            "('Cannot find image file at given path: <tmp>/product/missing',)"),
                           [],
                           []),
                          ('missing image and root',
                           ('raise',
                            'FileNotFoundError',
                            'Cannot find image file at given path: <tmp>/product/missing',
                            "('Cannot find image file at given path: <tmp>/product/missing',)"),
                           [],
                           []),
                          ('image is a directory',
                           ('raise',
                            'FileNotFoundError',
                            'Cannot find image file at given path: <tmp>/product',
                            "('Cannot find image file at given path: <tmp>/product',)"),
                           [],
                           []),
                          ('missing root',
                           ('raise',
                            'OSError',
                            'Cannot find the target cache root: <tmp>/nowhere',
                            "('Cannot find the target cache root: <tmp>/nowhere',)"),
                           [],
                           []),
                          ('root is a file',
                           ('raise',
                            'OSError',
                            'Cannot find the target cache root: <tmp>/plain.txt',
                            "('Cannot find the target cache root: <tmp>/plain.txt',)"),
                           [],
                           []),
                          ('target is a directory',
                           ('raise',
                            'IsADirectoryError',
                            '[Errno 21] Is a directory: '
                            "'<tmp>/blocked/IMG-HH-ALOS2000000000-000000-UBSL1.5GUA.index'",
                            "(21, 'Is a directory')"),
                           [('get_mapper', "('file://<tmp>/product',)", []),
                            ('open_image',
                             "('MAPPER', 'IMG-HH-ALOS2000000000-000000-UBSL1.5GUA')",
                             [('create_cache', False), ('records_per_chunk', 1), ('use_cache', False)]),
                            ('encode', ('GROUP',), [])],
                           []),
                          ('get_mapper fails',
                           ('raise', 'ValueError', 'bad uri', "('bad uri',)"),
                           [('get_mapper', "('file://<tmp>/product',)", [])],
                           []),
                          ('open_image fails',
                           ('raise', 'FileNotFoundError', 'gone', "('gone',)"),
                           [('get_mapper', "('file://<tmp>/product',)", []),
                            ('open_image',
                             "('MAPPER', 'IMG-HH-ALOS2000000000-000000-UBSL1.5GUA')",
                             [('create_cache', False), ('records_per_chunk', 1), ('use_cache', False)])],
                           []),
                          ('open_image fails oserror',
                           ('raise', 'OSError', '[Errno 5] io error', "(5, 'io error')"),
                           [('get_mapper', "('file://<tmp>/product',)", []),
                            ('open_image',
                             "('MAPPER', 'IMG-HH-ALOS2000000000-000000-UBSL1.5GUA')",
                             [('create_cache', False), ('records_per_chunk', 1), ('use_cache', False)])],
                           []),
                          ('encode fails',
                           ('raise', 'TypeError', 'cannot encode', "('cannot encode',)"),
                           [('get_mapper', "('file://<tmp>/product',)", []),
                            ('open_image',
                             "('MAPPER', 'IMG-HH-ALOS2000000000-000000-UBSL1.5GUA')",
                             [('create_cache', False), ('records_per_chunk', 1), ('use_cache', False)]),
                            ('encode', ('GROUP',), [])],
                           []),
                          ('encode fails, bad root',
                           ('raise',
                            'OSError',
                            'Cannot find the target cache root: <tmp>/nowhere',
                            "('Cannot find the target cache root: <tmp>/nowhere',)"),
                           [],
                           [])],
 'relative_paths': [('product/IMG-HH-ALOS2000000000-000000-UBSL1.5GUA',
                     None,
                     ('raise',
                      'ValueError',
                      "relative path can't be expressed as a file URI",
                      '("relative path can\'t be expressed as a file URI",)'),
                     []),
                    ('product/IMG-HH-ALOS2000000000-000000-UBSL1.5GUA',
                     'cache',
                     ('raise',
                      'ValueError',
                      "relative path can't be expressed as a file URI",
                      '("relative path can\'t be expressed as a file URI",)'),
                     []),
                    ('missing',
                     None,
                     ('raise',
                      'FileNotFoundError',
                      'Cannot find image file at given path: missing',
                      "('Cannot find image file at given path: missing',)"),
                     []),
                    ('product/IMG-HH-ALOS2000000000-000000-UBSL1.5GUA',
                     'x',
                     ('raise',
                      'OSError',
                      'Cannot find the target cache root: x',
                      "('Cannot find the target cache root: x',)"),
                     []),
                    ('files',
                     True,
                     ['blocked',
                      'blocked/IMG-HH-ALOS2000000000-000000-UBSL1.5GUA.index',
                      'cache',
                      'plain.txt',
                      'product',
                      'product/IMG-HH-ALOS2000000000-000000-UBSL1.5GUA'])],
 'real_collaborators': [('fake reader',
                         ('ok', 'None'),
                         [('FSMap',
                           '<tmp>/product',
                           'IMG-HH-ALOS2000000000-000000-UBSL1.5GUA',
                           [('create_cache', False), ('records_per_chunk', 2), ('use_cache', False)])],
                         '{"__type__": "group", "url": null, "data": {"x": {"__type__": "variable", "dims": '
                         '["rows"], "data": {"__type__": "array", "dtype": "int16", "data": [0, 1, 2], '
                         '"encoding": {}}, "attrs": {"units": "1"}}, "data": {"__type__": "variable", '
                         '"dims": ["rows", "columns"], "data": {"__type__": "backend_array", "root": '
                         '"/path/to", "url": "file", "shape": {"__type__": "tuple", "data": [4, 3]}, '
                         '"dtype": "int16", "byte_ranges": [{"__type__": "tuple", "data": [5, 10]}, '
                         '{"__type__": "tuple", "data": [15, 20]}, {"__type__": "tuple", "data": [25, 30]}, '
                         '{"__type__": "tuple", "data": [35, 40]}], "type_code": "IU2"}, "attrs": {}}}, '
                         '"path": "HH", "attrs": {"a": 1, "b": "two"}}'),
                        ('real reader',
                         ('raise', 'StreamError'),
                         ['IMG-HH-ALOS2000000000-000000-UBSL1.5GUA'])],
 'main': [(['<tmp>/product/IMG-HH-ALOS2000000000-000000-UBSL1.5GUA'],
           ('ok', 'None'),
           '',
           '',
           [('get_mapper', "('file://<tmp>/product',)", []),
            ('open_image',
             "('MAPPER', 'IMG-HH-ALOS2000000000-000000-UBSL1.5GUA')",
             [('create_cache', False), ('records_per_chunk', 4096), ('use_cache', False)]),
            ('encode', ('GROUP',), [])]),
          (['<tmp>/product/IMG-HH-ALOS2000000000-000000-UBSL1.5GUA', '<tmp>/cache'],
           ('ok', 'None'),
           '',
           '',
           [('get_mapper', "('file://<tmp>/product',)", []),
            ('open_image',
             "('MAPPER', 'IMG-HH-ALOS2000000000-000000-UBSL1.5GUA')",
             [('create_cache', False), ('records_per_chunk', 4096), ('use_cache', False)]),
            ('encode', ('GROUP',), [])]),
          (['--rpc', '12', '<tmp>/product/IMG-HH-ALOS2000000000-000000-UBSL1.5GUA'],
           ('ok', 'None'),
           '',
           '',
           [('get_mapper', "('file://<tmp>/product',)", []),
            ('open_image',
             "('MAPPER', 'IMG-HH-ALOS2000000000-000000-UBSL1.5GUA')",
             [('create_cache', False), ('records_per_chunk', 12), ('use_cache', False)]),
            ('encode', ('GROUP',), [])]),
          (['--rpc', '<tmp>/product/IMG-HH-ALOS2000000000-000000-UBSL1.5GUA'],
           ('exit', 2),
           '',
           'usage: ceos-alos2-create-cache [-h] [--rpc [RPC]] image_path [cache_root]\n'
           'ceos-alos2-create-cache: error: argument --rpc: invalid int value: '
           "'<tmp>/product/IMG-HH-ALOS2000000000-000000-UBSL1.5GUA'\n",
           []),
          (['<tmp>/product/IMG-HH-ALOS2000000000-000000-UBSL1.5GUA', '--rpc'],
           ('ok', 'None'),
           '',
           '',
           [('get_mapper', "('file://<tmp>/product',)", []),
            ('open_image',
             "('MAPPER', 'IMG-HH-ALOS2000000000-000000-UBSL1.5GUA')",
             [('create_cache', False), ('records_per_chunk', None), ('use_cache', False)]),
            ('encode', ('GROUP',), [])]),
          (['<tmp>/product/IMG-HH-ALOS2000000000-000000-UBSL1.5GUA', '--rpc', '5', '<tmp>/cache'],
           ('exit', 2),
           '',
           'usage: ceos-alos2-create-cache [-h] [--rpc [RPC]] image_path [cache_root]\n'
           'ceos-alos2-create-cache: error: unrecognized arguments: <tmp>/cache\n',
           []),
          (['--rpc=0', '<tmp>/product/IMG-HH-ALOS2000000000-000000-UBSL1.5GUA', '<tmp>/product'],
           ('ok', 'None'),
           '',
           '',
           [('get_mapper', "('file://<tmp>/product',)", []),
            ('open_image',
             "('MAPPER', 'IMG-HH-ALOS2000000000-000000-UBSL1.5GUA')",
             [('create_cache', False), ('records_per_chunk', 0), ('use_cache', False)]),
            ('encode', ('GROUP',), [])]),
          (['<tmp>/missing'], ('exit', 1), '', 'Cannot find image file at given path: <tmp>/missing\n', []),
          (['<tmp>/product/IMG-HH-ALOS2000000000-000000-UBSL1.5GUA', '<tmp>/nowhere'],
           ('exit', 1),
           '',
           'Cannot find the target cache root: <tmp>/nowhere\n',
           []),
          (['<tmp>/product/IMG-HH-ALOS2000000000-000000-UBSL1.5GUA', '<tmp>/plain.txt'],
           ('exit', 1),
           '',
           'Cannot find the target cache root: <tmp>/plain.txt\n',
           []),
          (['<tmp>/product/IMG-HH-ALOS2000000000-000000-UBSL1.5GUA', '<tmp>/blocked'],
           ('exit', 1),
           '',
           '21\n',
           [('get_mapper', "('file://<tmp>/product',)", []),
            ('open_image',
             "('MAPPER', 'IMG-HH-ALOS2000000000-000000-UBSL1.5GUA')",
             [('create_cache', False), ('records_per_chunk', 4096), ('use_cache', False)]),
            ('encode', ('GROUP',), [])]),
          ([],
           ('exit', 2),
           '',
           'usage: ceos-alos2-create-cache [-h] [--rpc [RPC]] image_path [cache_root]\n'
           'ceos-alos2-create-cache: error: the following arguments are required: image_path\n',
           []),
          (['--help'],
           ('exit', 0),
           'usage: ceos-alos2-create-cache [-h] [--rpc [RPC]] image_path [cache_root]\n'
           '\n'
           'positional arguments:\n'
           '  image_path   image path to create a cache file for\n'
           '  cache_root   Root path to the new cache file. By default, it is created in\n'
           '               the same directory as the image file.\n'
           '\n'
           'options:\n'
           '  -h, --help   show this help message and exit\n'
           '  --rpc [RPC]  records-per-chunk size used to create the cache files\n',
           '',
           []),
          (['-h'],
           ('exit', 0),
           'usage: ceos-alos2-create-cache [-h] [--rpc [RPC]] image_path [cache_root]\n'
           '\n'
           'positional arguments:\n'
           '  image_path   image path to create a cache file for\n'
           '  cache_root   Root path to the new cache file. By default, it is created in\n'
           '               the same directory as the image file.\n'
           '\n'
           'options:\n'
           '  -h, --help   show this help message and exit\n'
           '  --rpc [RPC]  records-per-chunk size used to create the cache files\n',
           '',
           []),
          (['--rpc', 'abc', '<tmp>/product/IMG-HH-ALOS2000000000-000000-UBSL1.5GUA'],
           ('exit', 2),
           '',
           'usage: ceos-alos2-create-cache [-h] [--rpc [RPC]] image_path [cache_root]\n'
           "ceos-alos2-create-cache: error: argument --rpc: invalid int value: 'abc'\n",
           []),
          (['<tmp>/product/IMG-HH-ALOS2000000000-000000-UBSL1.5GUA', 'a', 'b'],
           ('exit', 2),
           '',
           'usage: ceos-alos2-create-cache [-h] [--rpc [RPC]] image_path [cache_root]\n'
           'ceos-alos2-create-cache: error: unrecognized arguments: b\n',
           []),
          (['--unknown', '<tmp>/product/IMG-HH-ALOS2000000000-000000-UBSL1.5GUA'],
           ('exit', 2),
           '',
           'usage: ceos-alos2-create-cache [-h] [--rpc [RPC]] image_path [cache_root]\n'
           'ceos-alos2-create-cache: error: unrecognized arguments: --unknown\n',
           []),
          (['--rp', '3', '<tmp>/product/IMG-HH-ALOS2000000000-000000-UBSL1.5GUA'],
           ('ok', 'None'),
           '',
           '',
           [('get_mapper', "('file://<tmp>/product',)", []),
            ('open_image',
             "('MAPPER', 'IMG-HH-ALOS2000000000-000000-UBSL1.5GUA')",
             [('create_cache', False), ('records_per_chunk', 3), ('use_cache', False)]),
            ('encode', ('GROUP',), [])]),
          ('open_image',
           "FileNotFoundError('no such file')",
           ('exit', 1),
           '',
           'no such file\n',
           [('get_mapper', "('file://<tmp>/product',)", []),
            ('open_image',
             "('MAPPER', 'IMG-HH-ALOS2000000000-000000-UBSL1.5GUA')",
             [('create_cache', False), ('records_per_chunk', 4096), ('use_cache', False)])]),
          ('open_image',
           "OSError(5, 'Input/output error')",
           ('exit', 1),
           '',
           '5\n',
           [('get_mapper', "('file://<tmp>/product',)", []),
            ('open_image',
             "('MAPPER', 'IMG-HH-ALOS2000000000-000000-UBSL1.5GUA')",
             [('create_cache', False), ('records_per_chunk', 4096), ('use_cache', False)])]),
          ('open_image',
           "PermissionError(13, 'denied')",
           ('exit', 1),
           '',
           '13\n',
           [('get_mapper', "('file://<tmp>/product',)", []),
            ('open_image',
             "('MAPPER', 'IMG-HH-ALOS2000000000-000000-UBSL1.5GUA')",
             [('create_cache', False), ('records_per_chunk', 4096), ('use_cache', False)])]),
          ('encode',
           "ValueError('not an OSError')",
           ('raise', 'ValueError', 'not an OSError', "('not an OSError',)"),
           '',
           '',
           [('get_mapper', "('file://<tmp>/product',)", []),
            ('open_image',
             "('MAPPER', 'IMG-HH-ALOS2000000000-000000-UBSL1.5GUA')",
             [('create_cache', False), ('records_per_chunk', 4096), ('use_cache', False)]),
            ('encode', ('GROUP',), [])]),
          ('get_mapper',
           'OSError()',
           ('raise', 'IndexError', 'tuple index out of range', "('tuple index out of range',)"),
           '',
           '',
           [('get_mapper', "('file://<tmp>/product',)", [])]),
          ['IMG-HH-ALOS2000000000-000000-UBSL1.5GUA', 'IMG-HH-ALOS2000000000-000000-UBSL1.5GUA.index']]}


def test_outcomes():
    actual = all_outcomes()
    assert actual.keys() == EXPECTED.keys()
    for name in EXPECTED:
        assert len(actual[name]) == len(EXPECTED[name]), name
        for index, (a, e) in enumerate(zip(actual[name], EXPECTED[name])):
            assert a == e, (name, index, a, e)


def test_entry_points():
    import inspect

    assert str(inspect.signature(cli.create_cache)) == "(image_path, cache_root, records_per_chunk)"
    assert str(inspect.signature(cli.main)) == "()"


if __name__ == "__main__":
    if "--dump" in sys.argv:
        import pprint

        pprint.pprint(all_outcomes(), width=110, sort_dicts=False)
        sys.exit(0)
    for name, func in sorted(globals().items()):
        if name.startswith("test_"):
            func()
    print("ok:", {k: len(v) for k, v in EXPECTED.items()})
