"""Equivalence check for refactoring 1 (``ceos_alos2.decoders.decode_filename``).

Run as a script (``python equiv.py``) or through pytest. The expected outcomes were
recorded from the unchanged code (``python equiv.py --record`` prints them).
"""

import sys

from ceos_alos2 import decoders


class Name(str):
    """a str subclass: the regex accepts it just like a str"""


SCENES = ["ALOS2014410740-140829", "ALOS2000010000-000101", "ABC12999999999-991231"]
PRODUCTS = ["WWDR1.5RUA", "UBSL1.1__D", "FBDR1.0__A", "HBQR3.1GMD", "SBSL1.5RPA", "VBDR1.5GLD"]

FILENAMES = [
    # valid names: every file type, with and without polarization / scan info
    *[f"IMG-{pol}-{SCENES[0]}-{PRODUCTS[0]}" for pol in ["HH", "HV", "VH", "VV"]],
    *[f"{ft}-{SCENES[0]}-{product}" for ft in ["VOL", "LED", "TRL"] for product in PRODUCTS],
    *[f"IMG-HH-{scene}-{PRODUCTS[1]}" for scene in SCENES],
    *[f"IMG-HV-{SCENES[0]}-{PRODUCTS[0]}-{scan}" for scan in ["B1", "F5", "B0", "F9"]],
    f"LED-{SCENES[1]}-{PRODUCTS[2]}-F3",
    f"XYZ-VV-{SCENES[2]}-{PRODUCTS[4]}",
    Name(f"IMG-HH-{SCENES[0]}-{PRODUCTS[0]}-B4"),
    # the file name pattern does not match
    "",
    "IMG",
    f"img-HH-{SCENES[0]}-{PRODUCTS[0]}",
    f"IMG-HX-{SCENES[0]}-{PRODUCTS[0]}",
    f"IMG-HH-{SCENES[0]}-{PRODUCTS[0]}-X1",
    f"IMG-HH-{SCENES[0]}-{PRODUCTS[0]}-B",
    f"IMG-HH-{SCENES[0]}-{PRODUCTS[0]}\n",
    f" IMG-HH-{SCENES[0]}-{PRODUCTS[0]}",
    f"IMG-HH-{SCENES[0]}-{PRODUCTS[0]}-B1-B2",
    f"IMG-HH-{SCENES[0][:-1]}-{PRODUCTS[0]}",
    f"IMG-HH-{SCENES[0]}-{PRODUCTS[0][:-1]}",
    f"IMG-HH-HH-{SCENES[0]}-{PRODUCTS[0]}",
    # the scene id is invalid
    f"IMG-HH-ALOS2014410740-140832-{PRODUCTS[0]}",
    f"IMG-HH-ALOS2014410740-141301-{PRODUCTS[0]}",
    f"IMG-HH-ALOS2014410740-000000-{PRODUCTS[0]}",
    f"LED-ALOS20144A0740-140829-{PRODUCTS[0]}",
    f"LED-ALOS201441074A-140829-{PRODUCTS[0]}-B1",
    # the product id is invalid
    f"IMG-HH-{SCENES[0]}-XXXR1.5RUA",
    f"IMG-HH-{SCENES[0]}-WWDX1.5RUA",
    f"IMG-HH-{SCENES[0]}-WWDR1.2RUA",
    f"IMG-HH-{SCENES[0]}-WWDR1.5XUA",
    f"IMG-HH-{SCENES[0]}-WWDR1.5RXA",
    f"IMG-HH-{SCENES[0]}-WWDR1.5RUX",
    f"IMG-HH-{SCENES[0]}-WWDR1_5RUA",
    f"TRL-{SCENES[0]}-__________-F1",
    f"TRL-{SCENES[0]}-..........",
    # both identifiers are invalid: the scene id is reported
    "IMG-HH-ALOS2014410740-140832-XXXR1.5RUA",
    "IMG-HH-ALOS20144A0740-140829-WWDR1.2RUA-B1",
    # not a str at all
    None,
    b"IMG-HH-ALOS2014410740-140829-WWDR1.5RUA",
    5,
    ["IMG-HH-ALOS2014410740-140829-WWDR1.5RUA"],
]


def describe(exc):
    if exc is None:
        return None
    return (type(exc).__name__, str(exc), describe(exc.__cause__), exc.__suppress_context__)


def outcome(func, *args):
    try:
        result = func(*args)
    except Exception as e:  # noqa: BLE001
        return repr(("raised", describe(e)))
    return repr(("returned", type(result).__name__, list(result), result))


def run():
    outcomes = {}
    for index, fname in enumerate(FILENAMES):
        outcomes[f"{index}:{fname!r}"] = outcome(decoders.decode_filename, fname)
    return outcomes


def check_module_surface():
    # everything that could be imported from the module before still is
    for name in [
        "datetime", "re", "merge", "curry", "passthrough", "valsplit",
        "scene_id_re", "product_id_re", "scan_info_re", "fname_re",
        "observation_modes", "observation_directions", "processing_levels",
        "processing_options", "map_projections", "orbit_directions", "processing_methods",
        "resampling_methods", "processing_facilities", "parse_date", "lookup", "translations",
        "decode_scene_id", "decode_product_id", "decode_scan_info", "decode_filename",
    ]:  # fmt: skip
        assert hasattr(decoders, name), name
    assert sorted(decoders.translations) == sorted(
        [
            "observation_mode", "observation_direction", "processing_level",
            "processing_option", "map_projection", "orbit_direction", "date", "mission_name",
            "orbit_accumulation", "scene_frame", "processing_method", "scan_number",
        ]  # fmt: skip
    )


def check_fresh_results():
    # every call hands out a new dict that the caller may modify
    fname = f"IMG-HH-{SCENES[0]}-{PRODUCTS[0]}-B4"
    first = decoders.decode_filename(fname)
    first["filetype"] = "changed"
    first.pop("date")
    second = decoders.decode_filename(fname)
    assert second["filetype"] == "IMG" and "date" in second
    assert first is not second


def check_late_binding(monkeypatch_setattr):
    # the id decoders are looked up in the module namespace at call time
    calls = []

    def fake_scene(value):
        calls.append(("scene", value))
        return {"scene": value}

    def fake_product(value):
        calls.append(("product", value))
        return {"product": value}

    def fake_scan(value):
        calls.append(("scan", value))
        return {} if value is None else {"scan": value}

    monkeypatch_setattr(decoders, "decode_scene_id", fake_scene)
    monkeypatch_setattr(decoders, "decode_product_id", fake_product)
    monkeypatch_setattr(decoders, "decode_scan_info", fake_scan)

    result = decoders.decode_filename(f"LED-{SCENES[0]}-{PRODUCTS[0]}")
    assert result == {
        "filetype": "LED",
        "polarization": None,
        "scene": SCENES[0],
        "product": PRODUCTS[0],
    }
    assert list(result) == ["filetype", "polarization", "scene", "product"]
    assert calls == [("scene", SCENES[0]), ("product", PRODUCTS[0]), ("scan", None)]


EXPECTED = {"0:'IMG-HH-ALOS2014410740-140829-WWDR1.5RUA'": "('returned', 'dict', ['filetype', "
                                                "'polarization', 'mission_name', "
                                                "'orbit_accumulation', 'scene_frame', 'date', "
                                                "'observation_mode', 'observation_direction', "
                                                "'processing_level', 'processing_option', "
                                                "'map_projection', 'orbit_direction'], "
                                                "{'filetype': 'IMG', 'polarization': 'HH', "
                                                "'mission_name': 'ALOS2', "
                                                "'orbit_accumulation': '01441', 'scene_frame': "
                                                "'0740', 'date': datetime.datetime(2014, 8, "
                                                "29, 0, 0), 'observation_mode': 'ScanSAR "
                                                "nominal 28MHz mode dual polarization', "
                                                "'observation_direction': 'right looking', "
                                                "'processing_level': 'level 1.5', "
                                                "'processing_option': 'geo-reference', "
                                                "'map_projection': 'UTM', 'orbit_direction': "
                                                "'ascending'})",
 "1:'IMG-HV-ALOS2014410740-140829-WWDR1.5RUA'": "('returned', 'dict', ['filetype', "
                                                "'polarization', 'mission_name', "
                                                "'orbit_accumulation', 'scene_frame', 'date', "
                                                "'observation_mode', 'observation_direction', "
                                                "'processing_level', 'processing_option', "
                                                "'map_projection', 'orbit_direction'], "
                                                "{'filetype': 'IMG', 'polarization': 'HV', "
                                                "'mission_name': 'ALOS2', "
                                                "'orbit_accumulation': '01441', 'scene_frame': "
                                                "'0740', 'date': datetime.datetime(2014, 8, "
                                                "29, 0, 0), 'observation_mode': 'ScanSAR "
                                                "nominal 28MHz mode dual polarization', "
                                                "'observation_direction': 'right looking', "
                                                "'processing_level': 'level 1.5', "
                                                "'processing_option': 'geo-reference', "
                                                "'map_projection': 'UTM', 'orbit_direction': "
                                                "'ascending'})",
 "2:'IMG-VH-ALOS2014410740-140829-WWDR1.5RUA'": "('returned', 'dict', ['filetype', "
                                                "'polarization', 'mission_name', "
                                                "'orbit_accumulation', 'scene_frame', 'date', "
                                                "'observation_mode', 'observation_direction', "
                                                "'processing_level', 'processing_option', "
                                                "'map_projection', 'orbit_direction'], "
                                                "{'filetype': 'IMG', 'polarization': 'VH', "
                                                "'mission_name': 'ALOS2', "
                                                "'orbit_accumulation': '01441', 'scene_frame': "
                                                "'0740', 'date': datetime.datetime(2014, 8, "
                                                "29, 0, 0), 'observation_mode': 'ScanSAR "
                                                "nominal 28MHz mode dual polarization', "
                                                "'observation_direction': 'right looking', "
                                                "'processing_level': 'level 1.5', "
                                                "'processing_option': 'geo-reference', "
                                                "'map_projection': 'UTM', 'orbit_direction': "
                                                "'ascending'})",
 "3:'IMG-VV-ALOS2014410740-140829-WWDR1.5RUA'": "('returned', 'dict', ['filetype', "
                                                "'polarization', 'mission_name', "
                                                "'orbit_accumulation', 'scene_frame', 'date', "
                                                "'observation_mode', 'observation_direction', "
                                                "'processing_level', 'processing_option', "
                                                "'map_projection', 'orbit_direction'], "
                                                "{'filetype': 'IMG', 'polarization': 'VV', "
                                                "'mission_name': 'ALOS2', "
                                                "'orbit_accumulation': '01441', 'scene_frame': "
                                                "'0740', 'date': datetime.datetime(2014, 8, "
                                                "29, 0, 0), 'observation_mode': 'ScanSAR "
                                                "nominal 28MHz mode dual polarization', "
                                                "'observation_direction': 'right looking', "
                                                "'processing_level': 'level 1.5', "
                                                "'processing_option': 'geo-reference', "
                                                "'map_projection': 'UTM', 'orbit_direction': "
                                                "'ascending'})",
 "4:'VOL-ALOS2014410740-140829-WWDR1.5RUA'": "('returned', 'dict', ['filetype', "
                                             "'polarization', 'mission_name', "
                                             "'orbit_accumulation', 'scene_frame', 'date', "
                                             "'observation_mode', 'observation_direction', "
                                             "'processing_level', 'processing_option', "
                                             "'map_projection', 'orbit_direction'], "
                                             "{'filetype': 'VOL', 'polarization': None, "
                                             "'mission_name': 'ALOS2', 'orbit_accumulation': "
                                             "'01441', 'scene_frame': '0740', 'date': "
                                             'datetime.datetime(2014, 8, 29, 0, 0), '
                                             "'observation_mode': 'ScanSAR nominal 28MHz mode "
                                             "dual polarization', 'observation_direction': "
                                             "'right looking', 'processing_level': 'level "
                                             "1.5', 'processing_option': 'geo-reference', "
                                             "'map_projection': 'UTM', 'orbit_direction': "
                                             "'ascending'})",
 "5:'VOL-ALOS2014410740-140829-UBSL1.1__D'": "('returned', 'dict', ['filetype', "
                                             "'polarization', 'mission_name', "
                                             "'orbit_accumulation', 'scene_frame', 'date', "
                                             "'observation_mode', 'observation_direction', "
                                             "'processing_level', 'processing_option', "
                                             "'map_projection', 'orbit_direction'], "
                                             "{'filetype': 'VOL', 'polarization': None, "
                                             "'mission_name': 'ALOS2', 'orbit_accumulation': "
                                             "'01441', 'scene_frame': '0740', 'date': "
                                             'datetime.datetime(2014, 8, 29, 0, 0), '
                                             "'observation_mode': 'ultra-fine mode single "
                                             "polarization', 'observation_direction': 'left "
                                             "looking', 'processing_level': 'level 1.1', "
                                             "'processing_option': 'not specified', "
                                             "'map_projection': 'not specified', "
                                             "'orbit_direction': 'descending'})",
 "6:'VOL-ALOS2014410740-140829-FBDR1.0__A'": "('returned', 'dict', ['filetype', "
                                             "'polarization', 'mission_name', "
                                             "'orbit_accumulation', 'scene_frame', 'date', "
                                             "'observation_mode', 'observation_direction', "
                                             "'processing_level', 'processing_option', "
                                             "'map_projection', 'orbit_direction'], "
                                             "{'filetype': 'VOL', 'polarization': None, "
                                             "'mission_name': 'ALOS2', 'orbit_accumulation': "
                                             "'01441', 'scene_frame': '0740', 'date': "
                                             'datetime.datetime(2014, 8, 29, 0, 0), '
                                             "'observation_mode': 'fine mode dual "
                                             "polarization', 'observation_direction': 'right "
                                             "looking', 'processing_level': 'level 1.0', "
                                             "'processing_option': 'not specified', "
                                             "'map_projection': 'not specified', "
                                             "'orbit_direction': 'ascending'})",
 "7:'VOL-ALOS2014410740-140829-HBQR3.1GMD'": "('returned', 'dict', ['filetype', "
                                             "'polarization', 'mission_name', "
                                             "'orbit_accumulation', 'scene_frame', 'date', "
                                             "'observation_mode', 'observation_direction', "
                                             "'processing_level', 'processing_option', "
                                             "'map_projection', 'orbit_direction'], "
                                             "{'filetype': 'VOL', 'polarization': None, "
                                             "'mission_name': 'ALOS2', 'orbit_accumulation': "
                                             "'01441', 'scene_frame': '0740', 'date': "
                                             'datetime.datetime(2014, 8, 29, 0, 0), '
                                             "'observation_mode': 'high-sensitive mode full "
                                             "(quad.) polarimetry', 'observation_direction': "
                                             "'right looking', 'processing_level': 'level "
                                             "3.1', 'processing_option': 'geo-code', "
                                             "'map_projection': 'MER', 'orbit_direction': "
                                             "'descending'})",
 "8:'VOL-ALOS2014410740-140829-SBSL1.5RPA'": "('returned', 'dict', ['filetype', "
                                             "'polarization', 'mission_name', "
                                             "'orbit_accumulation', 'scene_frame', 'date', "
                                             "'observation_mode', 'observation_direction', "
                                             "'processing_level', 'processing_option', "
                                             "'map_projection', 'orbit_direction'], "
                                             "{'filetype': 'VOL', 'polarization': None, "
                                             "'mission_name': 'ALOS2', 'orbit_accumulation': "
                                             "'01441', 'scene_frame': '0740', 'date': "
                                             'datetime.datetime(2014, 8, 29, 0, 0), '
                                             "'observation_mode': 'spotlight mode', "
                                             "'observation_direction': 'left looking', "
                                             "'processing_level': 'level 1.5', "
                                             "'processing_option': 'geo-reference', "
                                             "'map_projection': 'PS', 'orbit_direction': "
                                             "'ascending'})",
 "9:'VOL-ALOS2014410740-140829-VBDR1.5GLD'": "('returned', 'dict', ['filetype', "
                                             "'polarization', 'mission_name', "
                                             "'orbit_accumulation', 'scene_frame', 'date', "
                                             "'observation_mode', 'observation_direction', "
                                             "'processing_level', 'processing_option', "
                                             "'map_projection', 'orbit_direction'], "
                                             "{'filetype': 'VOL', 'polarization': None, "
                                             "'mission_name': 'ALOS2', 'orbit_accumulation': "
                                             "'01441', 'scene_frame': '0740', 'date': "
                                             'datetime.datetime(2014, 8, 29, 0, 0), '
                                             "'observation_mode': 'ScanSAR wide mode dual "
                                             "polarization', 'observation_direction': 'right "
                                             "looking', 'processing_level': 'level 1.5', "
                                             "'processing_option': 'geo-code', "
                                             "'map_projection': 'LCC', 'orbit_direction': "
                                             "'descending'})",
 "10:'LED-ALOS2014410740-140829-WWDR1.5RUA'": "('returned', 'dict', ['filetype', "
                                              "'polarization', 'mission_name', "
                                              "'orbit_accumulation', 'scene_frame', 'date', "
                                              "'observation_mode', 'observation_direction', "
                                              "'processing_level', 'processing_option', "
                                              "'map_projection', 'orbit_direction'], "
                                              "{'filetype': 'LED', 'polarization': None, "
                                              "'mission_name': 'ALOS2', 'orbit_accumulation': "
                                              "'01441', 'scene_frame': '0740', 'date': "
                                              'datetime.datetime(2014, 8, 29, 0, 0), '
                                              "'observation_mode': 'ScanSAR nominal 28MHz mode "
                                              "dual polarization', 'observation_direction': "
                                              "'right looking', 'processing_level': 'level "
                                              "1.5', 'processing_option': 'geo-reference', "
                                              "'map_projection': 'UTM', 'orbit_direction': "
                                              "'ascending'})",
 "11:'LED-ALOS2014410740-140829-UBSL1.1__D'": "('returned', 'dict', ['filetype', "
                                              "'polarization', 'mission_name', "
                                              "'orbit_accumulation', 'scene_frame', 'date', "
                                              "'observation_mode', 'observation_direction', "
                                              "'processing_level', 'processing_option', "
                                              "'map_projection', 'orbit_direction'], "
                                              "{'filetype': 'LED', 'polarization': None, "
                                              "'mission_name': 'ALOS2', 'orbit_accumulation': "
                                              "'01441', 'scene_frame': '0740', 'date': "
                                              'datetime.datetime(2014, 8, 29, 0, 0), '
                                              "'observation_mode': 'ultra-fine mode single "
                                              "polarization', 'observation_direction': 'left "
                                              "looking', 'processing_level': 'level 1.1', "
                                              "'processing_option': 'not specified', "
                                              "'map_projection': 'not specified', "
                                              "'orbit_direction': 'descending'})",
 "12:'LED-ALOS2014410740-140829-FBDR1.0__A'": "('returned', 'dict', ['filetype', "
                                              "'polarization', 'mission_name', "
                                              "'orbit_accumulation', 'scene_frame', 'date', "
                                              "'observation_mode', 'observation_direction', "
                                              "'processing_level', 'processing_option', "
                                              "'map_projection', 'orbit_direction'], "
                                              "{'filetype': 'LED', 'polarization': None, "
                                              "'mission_name': 'ALOS2', 'orbit_accumulation': "
                                              "'01441', 'scene_frame': '0740', 'date': "
                                              'datetime.datetime(2014, 8, 29, 0, 0), '
                                              "'observation_mode': 'fine mode dual "
                                              "polarization', 'observation_direction': 'right "
                                              "looking', 'processing_level': 'level 1.0', "
                                              "'processing_option': 'not specified', "
                                              "'map_projection': 'not specified', "
                                              "'orbit_direction': 'ascending'})",
 "13:'LED-ALOS2014410740-140829-HBQR3.1GMD'": "('returned', 'dict', ['filetype', "
                                              "'polarization', 'mission_name', "
                                              "'orbit_accumulation', 'scene_frame', 'date', "
                                              "'observation_mode', 'observation_direction', "
                                              "'processing_level', 'processing_option', "
                                              "'map_projection', 'orbit_direction'], "
                                              "{'filetype': 'LED', 'polarization': None, "
                                              "'mission_name': 'ALOS2', 'orbit_accumulation': "
                                              "'01441', 'scene_frame': '0740', 'date': "
                                              'datetime.datetime(2014, 8, 29, 0, 0), '
                                              "'observation_mode': 'high-sensitive mode full "
                                              "(quad.) polarimetry', 'observation_direction': "
                                              "'right looking', 'processing_level': 'level "
                                              "3.1', 'processing_option': 'geo-code', "
                                              "'map_projection': 'MER', 'orbit_direction': "
                                              "'descending'})",
 "14:'LED-ALOS2014410740-140829-SBSL1.5RPA'": "('returned', 'dict', ['filetype', "
                                              "'polarization', 'mission_name', "
                                              "'orbit_accumulation', 'scene_frame', 'date', "
                                              "'observation_mode', 'observation_direction', "
                                              "'processing_level', 'processing_option', "
                                              "'map_projection', 'orbit_direction'], "
                                              "{'filetype': 'LED', 'polarization': None, "
                                              "'mission_name': 'ALOS2', 'orbit_accumulation': "
                                              "'01441', 'scene_frame': '0740', 'date': "
                                              'datetime.datetime(2014, 8, 29, 0, 0), '
                                              "'observation_mode': 'spotlight mode', "
                                              "'observation_direction': 'left looking', "
                                              "'processing_level': 'level 1.5', "
                                              "'processing_option': 'geo-reference', "
                                              "'map_projection': 'PS', 'orbit_direction': "
                                              "'ascending'})",
 "15:'LED-ALOS2014410740-140829-VBDR1.5GLD'": "('returned', 'dict', ['filetype', "
                                              "'polarization', 'mission_name', "
                                              "'orbit_accumulation', 'scene_frame', 'date', "
                                              "'observation_mode', 'observation_direction', "
                                              "'processing_level', 'processing_option', "
                                              "'map_projection', 'orbit_direction'], "
                                              "{'filetype': 'LED', 'polarization': None, "
                                              "'mission_name': 'ALOS2', 'orbit_accumulation': "
                                              "'01441', 'scene_frame': '0740', 'date': "
                                              'datetime.datetime(2014, 8, 29, 0, 0), '
                                              "'observation_mode': 'ScanSAR wide mode dual "
                                              "polarization', 'observation_direction': 'right "
                                              "looking', 'processing_level': 'level 1.5', "
                                              "'processing_option': 'geo-code', "
                                              "'map_projection': 'LCC', 'orbit_direction': "
                                              "'descending'})",
 "16:'TRL-ALOS2014410740-140829-WWDR1.5RUA'": "('returned', 'dict', ['filetype', "
                                              "'polarization', 'mission_name', "
                                              "'orbit_accumulation', 'scene_frame', 'date', "
                                              "'observation_mode', 'observation_direction', "
                                              "'processing_level', 'processing_option', "
                                              "'map_projection', 'orbit_direction'], "
                                              "{'filetype': 'TRL', 'polarization': None, "
                                              "'mission_name': 'ALOS2', 'orbit_accumulation': "
                                              "'01441', 'scene_frame': '0740', 'date': "
                                              'datetime.datetime(2014, 8, 29, 0, 0), '
                                              "'observation_mode': 'ScanSAR nominal 28MHz mode "
                                              "dual polarization', 'observation_direction': "
                                              "'right looking', 'processing_level': 'level "
                                              "1.5', 'processing_option': 'geo-reference', "
                                              "'map_projection': 'UTM', 'orbit_direction': "
                                              "'ascending'})",
 "17:'TRL-ALOS2014410740-140829-UBSL1.1__D'": "('returned', 'dict', ['filetype', "
                                              "'polarization', 'mission_name', "
                                              "'orbit_accumulation', 'scene_frame', 'date', "
                                              "'observation_mode', 'observation_direction', "
                                              "'processing_level', 'processing_option', "
                                              "'map_projection', 'orbit_direction'], "
                                              "{'filetype': 'TRL', 'polarization': None, "
                                              "'mission_name': 'ALOS2', 'orbit_accumulation': "
                                              "'01441', 'scene_frame': '0740', 'date': "
                                              'datetime.datetime(2014, 8, 29, 0, 0), '
                                              "'observation_mode': 'ultra-fine mode single "
                                              "polarization', 'observation_direction': 'left "
                                              "looking', 'processing_level': 'level 1.1', "
                                              "'processing_option': 'not specified', "
                                              "'map_projection': 'not specified', "
                                              "'orbit_direction': 'descending'})",
 "18:'TRL-ALOS2014410740-140829-FBDR1.0__A'": "('returned', 'dict', ['filetype', "
                                              "'polarization', 'mission_name', "
                                              "'orbit_accumulation', 'scene_frame', 'date', "
                                              "'observation_mode', 'observation_direction', "
                                              "'processing_level', 'processing_option', "
                                              "'map_projection', 'orbit_direction'], "
                                              "{'filetype': 'TRL', 'polarization': None, "
                                              "'mission_name': 'ALOS2', 'orbit_accumulation': "
                                              "'01441', 'scene_frame': '0740', 'date': "
                                              'datetime.datetime(2014, 8, 29, 0, 0), '
                                              "'observation_mode': 'fine mode dual "
                                              "polarization', 'observation_direction': 'right "
                                              "looking', 'processing_level': 'level 1.0', "
                                              "'processing_option': 'not specified', "
                                              "'map_projection': 'not specified', "
                                              "'orbit_direction': 'ascending'})",
 "19:'TRL-ALOS2014410740-140829-HBQR3.1GMD'": "('returned', 'dict', ['filetype', "
                                              "'polarization', 'mission_name', "
                                              "'orbit_accumulation', 'scene_frame', 'date', "
                                              "'observation_mode', 'observation_direction', "
                                              "'processing_level', 'processing_option', "
                                              "'map_projection', 'orbit_direction'], "
                                              "{'filetype': 'TRL', 'polarization': None, "
                                              "'mission_name': 'ALOS2', 'orbit_accumulation': "
                                              "'01441', 'scene_frame': '0740', 'date': "
                                              'datetime.datetime(2014, 8, 29, 0, 0), '
                                              "'observation_mode': 'high-sensitive mode full "
                                              "(quad.) polarimetry', 'observation_direction': "
                                              "'right looking', 'processing_level': 'level "
                                              "3.1', 'processing_option': 'geo-code', "
                                              "'map_projection': 'MER', 'orbit_direction': "
                                              "'descending'})",
 "20:'TRL-ALOS2014410740-140829-SBSL1.5RPA'": "('returned', 'dict', ['filetype', "
                                              "'polarization', 'mission_name', "
                                              "'orbit_accumulation', 'scene_frame', 'date', "
                                              "'observation_mode', 'observation_direction', "
                                              "'processing_level', 'processing_option', "
                                              "'map_projection', 'orbit_direction'], "
                                              "{'filetype': 'TRL', 'polarization': None, "
                                              "'mission_name': 'ALOS2', 'orbit_accumulation': "
                                              "'01441', 'scene_frame': '0740', 'date': "
                                              'datetime.datetime(2014, 8, 29, 0, 0), '
                                              "'observation_mode': 'spotlight mode', "
                                              "'observation_direction': 'left looking', "
                                              "'processing_level': 'level 1.5', "
                                              "'processing_option': 'geo-reference', "
                                              "'map_projection': 'PS', 'orbit_direction': "
                                              "'ascending'})",
 "21:'TRL-ALOS2014410740-140829-VBDR1.5GLD'": "('returned', 'dict', ['filetype', "
                                              "'polarization', 'mission_name', "
                                              "'orbit_accumulation', 'scene_frame', 'date', "
                                              "'observation_mode', 'observation_direction', "
                                              "'processing_level', 'processing_option', "
                                              "'map_projection', 'orbit_direction'], "
                                              "{'filetype': 'TRL', 'polarization': None, "
                                              "'mission_name': 'ALOS2', 'orbit_accumulation': "
                                              "'01441', 'scene_frame': '0740', 'date': "
                                              'datetime.datetime(2014, 8, 29, 0, 0), '
                                              "'observation_mode': 'ScanSAR wide mode dual "
                                              "polarization', 'observation_direction': 'right "
                                              "looking', 'processing_level': 'level 1.5', "
                                              "'processing_option': 'geo-code', "
                                              "'map_projection': 'LCC', 'orbit_direction': "
                                              "'descending'})",
 "22:'IMG-HH-ALOS2014410740-140829-UBSL1.1__D'": "('returned', 'dict', ['filetype', "
                                                 "'polarization', 'mission_name', "
                                                 "'orbit_accumulation', 'scene_frame', 'date', "
                                                 "'observation_mode', 'observation_direction', "
                                                 "'processing_level', 'processing_option', "
                                                 "'map_projection', 'orbit_direction'], "
                                                 "{'filetype': 'IMG', 'polarization': 'HH', "
                                                 "'mission_name': 'ALOS2', "
                                                 "'orbit_accumulation': '01441', "
                                                 "'scene_frame': '0740', 'date': "
                                                 'datetime.datetime(2014, 8, 29, 0, 0), '
                                                 "'observation_mode': 'ultra-fine mode single "
                                                 "polarization', 'observation_direction': "
                                                 "'left looking', 'processing_level': 'level "
                                                 "1.1', 'processing_option': 'not specified', "
                                                 "'map_projection': 'not specified', "
                                                 "'orbit_direction': 'descending'})",
 "23:'IMG-HH-ALOS2000010000-000101-UBSL1.1__D'": "('returned', 'dict', ['filetype', "
                                                 "'polarization', 'mission_name', "
                                                 "'orbit_accumulation', 'scene_frame', 'date', "
                                                 "'observation_mode', 'observation_direction', "
                                                 "'processing_level', 'processing_option', "
                                                 "'map_projection', 'orbit_direction'], "
                                                 "{'filetype': 'IMG', 'polarization': 'HH', "
                                                 "'mission_name': 'ALOS2', "
                                                 "'orbit_accumulation': '00001', "
                                                 "'scene_frame': '0000', 'date': "
                                                 'datetime.datetime(2000, 1, 1, 0, 0), '
                                                 "'observation_mode': 'ultra-fine mode single "
                                                 "polarization', 'observation_direction': "
                                                 "'left looking', 'processing_level': 'level "
                                                 "1.1', 'processing_option': 'not specified', "
                                                 "'map_projection': 'not specified', "
                                                 "'orbit_direction': 'descending'})",
 "24:'IMG-HH-ABC12999999999-991231-UBSL1.1__D'": "('returned', 'dict', ['filetype', "
                                                 "'polarization', 'mission_name', "
                                                 "'orbit_accumulation', 'scene_frame', 'date', "
                                                 "'observation_mode', 'observation_direction', "
                                                 "'processing_level', 'processing_option', "
                                                 "'map_projection', 'orbit_direction'], "
                                                 "{'filetype': 'IMG', 'polarization': 'HH', "
                                                 "'mission_name': 'ABC12', "
                                                 "'orbit_accumulation': '99999', "
                                                 "'scene_frame': '9999', 'date': "
                                                 'datetime.datetime(1999, 12, 31, 0, 0), '
                                                 "'observation_mode': 'ultra-fine mode single "
                                                 "polarization', 'observation_direction': "
                                                 "'left looking', 'processing_level': 'level "
                                                 "1.1', 'processing_option': 'not specified', "
                                                 "'map_projection': 'not specified', "
                                                 "'orbit_direction': 'descending'})",
 "25:'IMG-HV-ALOS2014410740-140829-WWDR1.5RUA-B1'": "('returned', 'dict', ['filetype', "
                                                    "'polarization', 'mission_name', "
                                                    "'orbit_accumulation', 'scene_frame', "
                                                    "'date', 'observation_mode', "
                                                    "'observation_direction', "
                                                    "'processing_level', 'processing_option', "
                                                    "'map_projection', 'orbit_direction', "
                                                    "'processing_method', 'scan_number'], "
                                                    "{'filetype': 'IMG', 'polarization': 'HV', "
                                                    "'mission_name': 'ALOS2', "
                                                    "'orbit_accumulation': '01441', "
                                                    "'scene_frame': '0740', 'date': "
                                                    'datetime.datetime(2014, 8, 29, 0, 0), '
                                                    "'observation_mode': 'ScanSAR nominal "
                                                    "28MHz mode dual polarization', "
                                                    "'observation_direction': 'right looking', "
                                                    "'processing_level': 'level 1.5', "
                                                    "'processing_option': 'geo-reference', "
                                                    "'map_projection': 'UTM', "
                                                    "'orbit_direction': 'ascending', "
                                                    "'processing_method': 'SPECAN method', "
                                                    "'scan_number': '1'})",
 "26:'IMG-HV-ALOS2014410740-140829-WWDR1.5RUA-F5'": "('returned', 'dict', ['filetype', "
                                                    "'polarization', 'mission_name', "
                                                    "'orbit_accumulation', 'scene_frame', "
                                                    "'date', 'observation_mode', "
                                                    "'observation_direction', "
                                                    "'processing_level', 'processing_option', "
                                                    "'map_projection', 'orbit_direction', "
                                                    "'processing_method', 'scan_number'], "
                                                    "{'filetype': 'IMG', 'polarization': 'HV', "
                                                    "'mission_name': 'ALOS2', "
                                                    "'orbit_accumulation': '01441', "
                                                    "'scene_frame': '0740', 'date': "
                                                    'datetime.datetime(2014, 8, 29, 0, 0), '
                                                    "'observation_mode': 'ScanSAR nominal "
                                                    "28MHz mode dual polarization', "
                                                    "'observation_direction': 'right looking', "
                                                    "'processing_level': 'level 1.5', "
                                                    "'processing_option': 'geo-reference', "
                                                    "'map_projection': 'UTM', "
                                                    "'orbit_direction': 'ascending', "
                                                    "'processing_method': 'full "
                                                    "aperture_method', 'scan_number': '5'})",
 "27:'IMG-HV-ALOS2014410740-140829-WWDR1.5RUA-B0'": "('returned', 'dict', ['filetype', "
                                                    "'polarization', 'mission_name', "
                                                    "'orbit_accumulation', 'scene_frame', "
                                                    "'date', 'observation_mode', "
                                                    "'observation_direction', "
                                                    "'processing_level', 'processing_option', "
                                                    "'map_projection', 'orbit_direction', "
                                                    "'processing_method', 'scan_number'], "
                                                    "{'filetype': 'IMG', 'polarization': 'HV', "
                                                    "'mission_name': 'ALOS2', "
                                                    "'orbit_accumulation': '01441', "
                                                    "'scene_frame': '0740', 'date': "
                                                    'datetime.datetime(2014, 8, 29, 0, 0), '
                                                    "'observation_mode': 'ScanSAR nominal "
                                                    "28MHz mode dual polarization', "
                                                    "'observation_direction': 'right looking', "
                                                    "'processing_level': 'level 1.5', "
                                                    "'processing_option': 'geo-reference', "
                                                    "'map_projection': 'UTM', "
                                                    "'orbit_direction': 'ascending', "
                                                    "'processing_method': 'SPECAN method', "
                                                    "'scan_number': '0'})",
 "28:'IMG-HV-ALOS2014410740-140829-WWDR1.5RUA-F9'": "('returned', 'dict', ['filetype', "
                                                    "'polarization', 'mission_name', "
                                                    "'orbit_accumulation', 'scene_frame', "
                                                    "'date', 'observation_mode', "
                                                    "'observation_direction', "
                                                    "'processing_level', 'processing_option', "
                                                    "'map_projection', 'orbit_direction', "
                                                    "'processing_method', 'scan_number'], "
                                                    "{'filetype': 'IMG', 'polarization': 'HV', "
                                                    "'mission_name': 'ALOS2', "
                                                    "'orbit_accumulation': '01441', "
                                                    "'scene_frame': '0740', 'date': "
                                                    'datetime.datetime(2014, 8, 29, 0, 0), '
                                                    "'observation_mode': 'ScanSAR nominal "
                                                    "28MHz mode dual polarization', "
                                                    "'observation_direction': 'right looking', "
                                                    "'processing_level': 'level 1.5', "
                                                    "'processing_option': 'geo-reference', "
                                                    "'map_projection': 'UTM', "
                                                    "'orbit_direction': 'ascending', "
                                                    "'processing_method': 'full "
                                                    "aperture_method', 'scan_number': '9'})",
 "29:'LED-ALOS2000010000-000101-FBDR1.0__A-F3'": "('returned', 'dict', ['filetype', "
                                                 "'polarization', 'mission_name', "
                                                 "'orbit_accumulation', 'scene_frame', 'date', "
                                                 "'observation_mode', 'observation_direction', "
                                                 "'processing_level', 'processing_option', "
                                                 "'map_projection', 'orbit_direction', "
                                                 "'processing_method', 'scan_number'], "
                                                 "{'filetype': 'LED', 'polarization': None, "
                                                 "'mission_name': 'ALOS2', "
                                                 "'orbit_accumulation': '00001', "
                                                 "'scene_frame': '0000', 'date': "
                                                 'datetime.datetime(2000, 1, 1, 0, 0), '
                                                 "'observation_mode': 'fine mode dual "
                                                 "polarization', 'observation_direction': "
                                                 "'right looking', 'processing_level': 'level "
                                                 "1.0', 'processing_option': 'not specified', "
                                                 "'map_projection': 'not specified', "
                                                 "'orbit_direction': 'ascending', "
                                                 "'processing_method': 'full aperture_method', "
                                                 "'scan_number': '3'})",
 "30:'XYZ-VV-ABC12999999999-991231-SBSL1.5RPA'": "('returned', 'dict', ['filetype', "
                                                 "'polarization', 'mission_name', "
                                                 "'orbit_accumulation', 'scene_frame', 'date', "
                                                 "'observation_mode', 'observation_direction', "
                                                 "'processing_level', 'processing_option', "
                                                 "'map_projection', 'orbit_direction'], "
                                                 "{'filetype': 'XYZ', 'polarization': 'VV', "
                                                 "'mission_name': 'ABC12', "
                                                 "'orbit_accumulation': '99999', "
                                                 "'scene_frame': '9999', 'date': "
                                                 'datetime.datetime(1999, 12, 31, 0, 0), '
                                                 "'observation_mode': 'spotlight mode', "
                                                 "'observation_direction': 'left looking', "
                                                 "'processing_level': 'level 1.5', "
                                                 "'processing_option': 'geo-reference', "
                                                 "'map_projection': 'PS', 'orbit_direction': "
                                                 "'ascending'})",
 "31:'IMG-HH-ALOS2014410740-140829-WWDR1.5RUA-B4'": "('returned', 'dict', ['filetype', "
                                                    "'polarization', 'mission_name', "
                                                    "'orbit_accumulation', 'scene_frame', "
                                                    "'date', 'observation_mode', "
                                                    "'observation_direction', "
                                                    "'processing_level', 'processing_option', "
                                                    "'map_projection', 'orbit_direction', "
                                                    "'processing_method', 'scan_number'], "
                                                    "{'filetype': 'IMG', 'polarization': 'HH', "
                                                    "'mission_name': 'ALOS2', "
                                                    "'orbit_accumulation': '01441', "
                                                    "'scene_frame': '0740', 'date': "
                                                    'datetime.datetime(2014, 8, 29, 0, 0), '
                                                    "'observation_mode': 'ScanSAR nominal "
                                                    "28MHz mode dual polarization', "
                                                    "'observation_direction': 'right looking', "
                                                    "'processing_level': 'level 1.5', "
                                                    "'processing_option': 'geo-reference', "
                                                    "'map_projection': 'UTM', "
                                                    "'orbit_direction': 'ascending', "
                                                    "'processing_method': 'SPECAN method', "
                                                    "'scan_number': '4'})",
 "32:''": "('raised', ('ValueError', 'invalid file name: ', None, False))",
 "33:'IMG'": "('raised', ('ValueError', 'invalid file name: IMG', None, False))",
 "34:'img-HH-ALOS2014410740-140829-WWDR1.5RUA'": "('raised', ('ValueError', 'invalid file "
                                                 'name: '
                                                 "img-HH-ALOS2014410740-140829-WWDR1.5RUA', "
                                                 'None, False))',
 "35:'IMG-HX-ALOS2014410740-140829-WWDR1.5RUA'": "('raised', ('ValueError', 'invalid file "
                                                 'name: '
                                                 "IMG-HX-ALOS2014410740-140829-WWDR1.5RUA', "
                                                 'None, False))',
 "36:'IMG-HH-ALOS2014410740-140829-WWDR1.5RUA-X1'": "('raised', ('ValueError', 'invalid file "
                                                    'name: '
                                                    "IMG-HH-ALOS2014410740-140829-WWDR1.5RUA-X1', "
                                                    'None, False))',
 "37:'IMG-HH-ALOS2014410740-140829-WWDR1.5RUA-B'": "('raised', ('ValueError', 'invalid file "
                                                   'name: '
                                                   "IMG-HH-ALOS2014410740-140829-WWDR1.5RUA-B', "
                                                   'None, False))',
 "38:'IMG-HH-ALOS2014410740-140829-WWDR1.5RUA\\n'": "('raised', ('ValueError', 'invalid file "
                                                    'name: '
                                                    "IMG-HH-ALOS2014410740-140829-WWDR1.5RUA\\n', "
                                                    'None, False))',
 "39:' IMG-HH-ALOS2014410740-140829-WWDR1.5RUA'": "('raised', ('ValueError', 'invalid file "
                                                  'name:  '
                                                  "IMG-HH-ALOS2014410740-140829-WWDR1.5RUA', "
                                                  'None, False))',
 "40:'IMG-HH-ALOS2014410740-140829-WWDR1.5RUA-B1-B2'": "('raised', ('ValueError', 'invalid "
                                                       'file name: '
                                                       "IMG-HH-ALOS2014410740-140829-WWDR1.5RUA-B1-B2', "
                                                       'None, False))',
 "41:'IMG-HH-ALOS2014410740-14082-WWDR1.5RUA'": "('raised', ('ValueError', 'invalid file name: "
                                                "IMG-HH-ALOS2014410740-14082-WWDR1.5RUA', "
                                                'None, False))',
 "42:'IMG-HH-ALOS2014410740-140829-WWDR1.5RU'": "('raised', ('ValueError', 'invalid file name: "
                                                "IMG-HH-ALOS2014410740-140829-WWDR1.5RU', "
                                                'None, False))',
 "43:'IMG-HH-HH-ALOS2014410740-140829-WWDR1.5RUA'": "('raised', ('ValueError', 'invalid file "
                                                    'name: '
                                                    "IMG-HH-HH-ALOS2014410740-140829-WWDR1.5RUA', "
                                                    'None, False))',
 "44:'IMG-HH-ALOS2014410740-140832-WWDR1.5RUA'": "('raised', ('ValueError', 'invalid scene id: "
                                                 "ALOS2014410740-140832', ('ValueError', "
                                                 "'unconverted data remains: 2', None, False), "
                                                 'True))',
 "45:'IMG-HH-ALOS2014410740-141301-WWDR1.5RUA'": "('raised', ('ValueError', 'invalid scene id: "
                                                 "ALOS2014410740-141301', ('ValueError', "
                                                 "'unconverted data remains: 1', None, False), "
                                                 'True))',
 "46:'IMG-HH-ALOS2014410740-000000-WWDR1.5RUA'": "('raised', ('ValueError', 'invalid scene id: "
                                                 "ALOS2014410740-000000', ('ValueError', "
                                                 '"time data \'000000\' does not match format '
                                                 '\'%y%m%d\'", None, False), True))',
 "47:'LED-ALOS20144A0740-140829-WWDR1.5RUA'": "('raised', ('ValueError', 'invalid scene id: "
                                              "ALOS20144A0740-140829', None, False))",
 "48:'LED-ALOS201441074A-140829-WWDR1.5RUA-B1'": "('raised', ('ValueError', 'invalid scene id: "
                                                 "ALOS201441074A-140829', None, False))",
 "49:'IMG-HH-ALOS2014410740-140829-XXXR1.5RUA'": "('raised', ('ValueError', 'invalid product "
                                                 'id: XXXR1.5RUA\', (\'ValueError\', "invalid '
                                                 'code \'XXX\'", None, False), True))',
 "50:'IMG-HH-ALOS2014410740-140829-WWDX1.5RUA'": "('raised', ('ValueError', 'invalid product "
                                                 "id: WWDX1.5RUA', None, False))",
 "51:'IMG-HH-ALOS2014410740-140829-WWDR1.2RUA'": "('raised', ('ValueError', 'invalid product "
                                                 "id: WWDR1.2RUA', None, False))",
 "52:'IMG-HH-ALOS2014410740-140829-WWDR1.5XUA'": "('raised', ('ValueError', 'invalid product "
                                                 "id: WWDR1.5XUA', None, False))",
 "53:'IMG-HH-ALOS2014410740-140829-WWDR1.5RXA'": "('raised', ('ValueError', 'invalid product "
                                                 "id: WWDR1.5RXA', None, False))",
 "54:'IMG-HH-ALOS2014410740-140829-WWDR1.5RUX'": "('raised', ('ValueError', 'invalid product "
                                                 "id: WWDR1.5RUX', None, False))",
 "55:'IMG-HH-ALOS2014410740-140829-WWDR1_5RUA'": "('raised', ('ValueError', 'invalid product "
                                                 "id: WWDR1_5RUA', None, False))",
 "56:'TRL-ALOS2014410740-140829-__________-F1'": "('raised', ('ValueError', 'invalid product "
                                                 "id: __________', None, False))",
 "57:'TRL-ALOS2014410740-140829-..........'": "('raised', ('ValueError', 'invalid product id: "
                                              "..........', None, False))",
 "58:'IMG-HH-ALOS2014410740-140832-XXXR1.5RUA'": "('raised', ('ValueError', 'invalid scene id: "
                                                 "ALOS2014410740-140832', ('ValueError', "
                                                 "'unconverted data remains: 2', None, False), "
                                                 'True))',
 "59:'IMG-HH-ALOS20144A0740-140829-WWDR1.2RUA-B1'": "('raised', ('ValueError', 'invalid scene "
                                                    "id: ALOS20144A0740-140829', None, False))",
 '60:None': '(\'raised\', (\'TypeError\', "expected string or bytes-like object, got '
            '\'NoneType\'", None, False))',
 "61:b'IMG-HH-ALOS2014410740-140829-WWDR1.5RUA'": "('raised', ('TypeError', 'cannot use a "
                                                  "string pattern on a bytes-like object', "
                                                  'None, False))',
 '62:5': '(\'raised\', (\'TypeError\', "expected string or bytes-like object, got \'int\'", '
         'None, False))',
 "63:['IMG-HH-ALOS2014410740-140829-WWDR1.5RUA']": '(\'raised\', (\'TypeError\', "expected '
                                                   'string or bytes-like object, got '
                                                   '\'list\'", None, False))'}
# END EXPECTED


def test_decode_filename():
    actual = run()
    assert list(actual) == list(EXPECTED)
    for key, value in actual.items():
        assert value == EXPECTED[key], (key, value, EXPECTED[key])


def test_module_surface():
    check_module_surface()


def test_fresh_results():
    check_fresh_results()


def test_late_binding(monkeypatch):
    check_late_binding(monkeypatch.setattr)


if __name__ == "__main__":
    if "--record" in sys.argv:
        print(repr(run()))
        sys.exit(0)

    test_decode_filename()
    test_module_surface()
    test_fresh_results()

    saved = {}

    def setattr_(obj, name, value):
        saved.setdefault(name, getattr(obj, name))
        setattr(obj, name, value)

    try:
        check_late_binding(setattr_)
    finally:
        for name, value in saved.items():
            setattr(decoders, name, value)
    print(f"ok: {len(EXPECTED)} recorded outcomes reproduced")
