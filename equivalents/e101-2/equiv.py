"""Equivalence check for refactoring 2 (ceos_alos2/sar_image/metadata.py and __init__.py).

Run: PYTHONPATH=<worktree> python _eq/2/equiv.py          (asserts against EXPECTED)
     PYTHONPATH=<worktree> python _eq/2/equiv.py --record (prints the observed table)
"""
import collections
import decimal
import fractions
import pprint
import struct
import sys
import types

import fsspec
import fsspec.implementations.memory
import numpy as np

from ceos_alos2 import sar_image
from ceos_alos2.sar_image import caching, metadata
from ceos_alos2.sar_image.caching import CachingError
from ceos_alos2.sar_image.file_descriptor import file_descriptor_record


def describe(obj):
    """value + type, recursively (1 == 1.0 == True must not hide a type change)"""
    if isinstance(obj, dict):
        return (type(obj).__name__, [(describe(k), describe(v)) for k, v in obj.items()])
    if isinstance(obj, (list, tuple)):
        return (type(obj).__name__, [describe(v) for v in obj])
    if isinstance(obj, np.ndarray):
        return ("ndarray", str(obj.dtype), obj.shape, repr(obj.tolist()))
    return (type(obj).__name__, repr(obj))


def outcome(func):
    try:
        return ("ok", func())
    except BaseException as e:  # noqa: B036
        cause = type(e.__cause__).__name__ if e.__cause__ is not None else None
        ctx = type(e.__context__).__name__ if e.__context__ is not None else None
        return ("raised", type(e).__name__, str(e)[:200], cause, ctx)


nan = float("nan")


class Header(collections.abc.Mapping):
    def __init__(self, d):
        self._d = d

    def __getitem__(self, k):
        return self._d[k]

    def __iter__(self):
        return iter(self._d)

    def __len__(self):
        return len(self._d)


full_header = {
    "preamble": {"record_length": 720, "interleaving_id": "not this one"},
    "ascii_ebcdic_flag": "A",
    "number_of_sar_data_records": 3,
    "sar_related_data_in_the_record": {
        "number_of_lines_per_dataset": 3,
        "number_of_data_groups_per_line": 4,
        "interleaving_id": "BSQ",
    },
    "prefix_suffix_data_locators": {
        "sar_data_format_type_code": "IU2",
        "maximum_data_range_of_pixel": 65535,
        "number_of_burst_data": -1,
        "number_of_lines_per_burst": 0,
    },
    "scansar_burst_data_information": {
        "number_of_overlap_lines_with_adjacent_bursts": -1,
        "blanks": "",
    },
}

attr_headers = {
    "empty": {},
    "preamble": {"preamble": {}},
    "preamble-flat": {"preamble": 5},
    "full": full_header,
    "mapping": Header(full_header),
    "flat-known": {
        "interleaving_id": "BSQ",
        "number_of_burst_data": 5,
        "number_of_lines_per_burst": 1,
        "number_of_overlap_lines_with_adjacent_bursts": 3,
    },
    "unknown": {"a": 1, "b": {"c": 2}, "valid_range": [1, 2]},
    "order": {
        "x": {"number_of_lines_per_burst": 4, "maximum_data_range_of_pixel": 3},
        "interleaving_id": "BIP",
        "y": {"number_of_burst_data": 2},
    },
    "duplicates": {
        "x": {"number_of_burst_data": 4},
        "y": {"number_of_burst_data": -1},
        "number_of_lines_per_burst": 7,
        "z": {"number_of_lines_per_burst": 8},
    },
    "two-levels": {"x": {"y": {"number_of_burst_data": 4}}},
    "interleaving-empty-str": {"interleaving_id": ""},
    "interleaving-empty-list": {"interleaving_id": []},
    "interleaving-list": {"interleaving_id": [1]},
    "interleaving-tuple": {"interleaving_id": ()},
    "interleaving-none": {"interleaving_id": None},
    "interleaving--1": {"interleaving_id": -1},
    "burst-list": {"number_of_burst_data": [], "number_of_lines_per_burst": [3]},
    "burst-none": {"number_of_burst_data": None},
    "burst-str": {"number_of_burst_data": "-1"},
    "burst-nan": {"number_of_burst_data": nan},
    "burst-float": {"number_of_burst_data": -1.0, "number_of_lines_per_burst": 2.5},
    "burst-true": {"number_of_burst_data": True, "number_of_lines_per_burst": False},
    "burst-0": {"number_of_burst_data": 0, "number_of_overlap_lines_with_adjacent_bursts": 0},
    "burst-np": {"number_of_burst_data": np.int64(-1), "number_of_lines_per_burst": np.int32(3)},
    "burst-array": {"number_of_burst_data": np.array([1, -1])},
    "burst-dict": {"x": {"number_of_burst_data": {"a": 1}}},
}
for name, value in {
    "27": 27,
    "0": 0,
    "-1": -1,
    "-1.0": -1.0,
    "-2": -2,
    "nan": nan,
    "inf": float("inf"),
    "float": 2.5,
    "true": True,
    "np-int": np.int64(4),
    "np--1": np.int16(-1),
    "np-nan": np.float32("nan"),
    "np-float": np.float64(1.5),
    "decimal": decimal.Decimal("3"),
    "decimal-nan": decimal.Decimal("nan"),
    "fraction": fractions.Fraction(-1, 1),
    "none": None,
    "str": "27",
    "list": [1],
    "empty-list": [],
    "complex": 1j,
    "array": np.array([1.0, 2.0]),
    "array1": np.array([3.0]),
    "huge": 10**400,
}.items():
    attr_headers[f"range-{name}"] = {"maximum_data_range_of_pixel": value}
    attr_headers[f"range-nested-{name}"] = {
        "prefix_suffix_data_locators": {"maximum_data_range_of_pixel": value, "other": 1}
    }
attr_bad = {"none": None, "list": [1, 2], "str": "abc", "int": 3, "list-of-pairs": [("a", 1)]}


def run_extract_attrs(header):
    def call():
        result = metadata.extract_attrs(header)
        return describe(result), describe(metadata.extract_attrs(header)) == describe(result)

    return outcome(call)


def run_fresh_lists():
    # the lists which are handed out may not be shared between calls
    first = metadata.extract_attrs({"maximum_data_range_of_pixel": 5})
    first["valid_range"].append("modified")
    second = metadata.extract_attrs({"maximum_data_range_of_pixel": 5})
    return describe(first), describe(second), first["valid_range"] is second["valid_range"]


variables = {
    "a": (("rows",), [1, 2, 3], {"units": "m"}),
    "b": (["rows"], [1.5, 2.5], {}),
    "t": (("rows",), ["2020-01-01T00:00:00", "2020-01-02T12:00:00.5"], {}),
    "s": ((), 4, {}),
}
override_cases = {
    "none": ({}, variables),
    "a-int8": ({"a": "int8"}, variables),
    "b-float16": ({"b": "float16"}, variables),
    "a-and-b": ({"a": "float64", "b": np.dtype("int32")}, variables),
    "t": ({"t": "datetime64[ns]", "missing": "int8"}, variables),
    "scalar": ({"s": "uint8"}, variables),
    "dtype-none": ({"a": None}, variables),
    "empty": ({"a": "int8"}, {}),
    "bad-dtype": ({"a": "not-a-dtype"}, variables),
    "bad-value": ({"t": "int8"}, variables),
    "bad-tuple": ({"x": "int8"}, {"w": 1, "x": (1, 2)}),
    "not-unpackable": ({"x": "int8"}, {"x": 1}),
    "untouched-non-tuple": ({"x": "int8"}, {"y": 1, "z": None}),
    "list-overrides": (["a"], variables),
    "overrides-none": (None, variables),
    "mapping-none": ({"a": "int8"}, None),
    "mapping-obj": ({"a": "int8"}, Header(variables)),
}


def run_apply_overrides(overrides, mapping):
    def call():
        result = metadata.apply_overrides(overrides, mapping)
        identical = [k for k in result if result[k] is mapping[k]]
        return describe(result), identical

    return outcome(call)


filenames = [
    "IMG-HH-ALOS2225333100-180726-WWDR1.1__D-B3",
    "IMG-HV-ALOS2290760600-191011-WWDR1.5RUA",
    "IMG-VV-ALOS2225333100-180726-WWDR1.1__D-B5",
    "IMG-VH-ALOS2290760600-191011-UBSR2.1GUD",
    "IMG-HH-ALOS2290760600-191011-FBDR1.1__A",
    "some/dir/IMG-HH-ALOS2225333100-180726-WWDR1.1__D-B3",
    "IMG-XX-ALOS2225333100-180726-WWDR1.1__D-B3",
    "LED-ALOS2290760600-191011-WWDR1.5RUA",
    "",
    "IMG-HH",
]


# ---- open_image


def preamble(seq, rtype, length):
    return struct.pack(">IBBBBI", seq, 0, rtype, 0, 0, length)


def field_offsets(struct_, base=0, prefix=""):
    offsets = {}
    pos = base
    for sub in struct_.subcons:
        inner = getattr(sub, "subcon", None)
        if hasattr(inner, "subcons") and sub.name != "preamble":
            offsets.update(field_offsets(inner, pos, prefix + sub.name + "."))
        offsets[prefix + sub.name] = (pos, sub.sizeof())
        pos += sub.sizeof()
    return offsets


def file_descriptor(n_records, record_size, type_code, n_cols, max_range="   65535"):
    offsets = field_offsets(file_descriptor_record)
    content = bytearray(b" " * 720)
    content[0:12] = preamble(1, 192, 720)

    def put(name, text):
        start, size = offsets[name]
        assert len(text) == size, (name, text, size)
        content[start : start + size] = text.encode()

    put("number_of_sar_data_records", f"{n_records:6d}")
    put("sar_data_record_length", f"{record_size:6d}")
    put("sar_related_data_in_the_record.number_of_lines_per_dataset", f"{n_records:8d}")
    put("sar_related_data_in_the_record.number_of_data_groups_per_line", f"{n_cols:8d}")
    put("sar_related_data_in_the_record.interleaving_id", "BSQ ")
    put("prefix_suffix_data_locators.sar_data_format_type_code", f"{type_code:4s}")
    put("prefix_suffix_data_locators.maximum_data_range_of_pixel", max_range)
    return bytes(content)


def processed_record(seq, size):
    body = bytearray(size)
    body[0:12] = preamble(seq, 11, size)
    struct.pack_into(">IIIII", body, 12, seq, 1, 0, (size - 192) // 2, 0)
    struct.pack_into(">IIII", body, 32, 1, 2020, 100 + seq, 1000 * seq)
    struct.pack_into(">HHHH", body, 48, 1, 2, 0, 1)
    for i in range((size - 192) // 2):
        struct.pack_into(">H", body, 192 + 2 * i, seq * 10 + i)
    return bytes(body)


class LoggingFS(fsspec.implementations.memory.MemoryFileSystem):
    cachable = False
    log = []

    def _open(self, path, mode="rb", **kwargs):
        type(self).log.append(("open", path, mode))
        return super()._open(path, mode=mode, **kwargs)


def describe_group(group):
    out = {"type": type(group).__name__, "path": group.path, "url": group.url}
    out["attrs"] = describe(group.attrs)
    out["names"] = list(group.data)
    for name, var in group.data.items():
        if name == "data":
            arr = var.data
            out["data"] = (
                describe(var.dims),
                describe(var.attrs),
                type(arr).__name__,
                type(arr.fs).__name__,
                arr.fs.path,
                type(arr.fs.fs).__name__,
                arr.url,
                arr.type_code,
                describe(arr.shape),
                str(arr.dtype),
                describe(arr.byte_ranges),
                repr(arr.records_per_chunk),
            )
        else:
            out[name] = (describe(var.dims), describe(np.asarray(var.data)), describe(var.attrs))
    return out


def run_open_image(name, *, read_cache, content, path, create_fails=False, **kwargs):
    fs = LoggingFS()
    LoggingFS.log = log = []
    root = f"/root-{name}"
    fs.pipe_file(f"{root}/{path}", content)
    mapper = fs.get_mapper(root)

    def dummy_read_cache(mapper_, path_, **kw):
        log.append(("read_cache", mapper_ is mapper, path_, sorted(kw.items())))
        return read_cache()

    def dummy_create_cache(mapper_, path_, group):
        log.append(("create_cache", mapper_ is mapper, path_, group.path, list(group.data)))
        if create_fails:
            raise OSError("disk full")

    saved = caching.read_cache, caching.create_cache
    caching.read_cache, caching.create_cache = dummy_read_cache, dummy_create_cache
    try:
        def call():
            result = sar_image.open_image(mapper, path, **kwargs)
            if isinstance(result, str):
                return result
            return describe_group(result)

        result = outcome(call)
    finally:
        caching.read_cache, caching.create_cache = saved
        fs.rm(root, recursive=True)
    return result, list(log)


def raiser(exc):
    def func():
        raise exc

    return func


class SubCachingError(CachingError):
    pass


def collect():
    results = {}
    for name, header in attr_headers.items():
        results[f"ea-{name}"] = run_extract_attrs(header)
    for name, header in attr_bad.items():
        results[f"ea-bad-{name}"] = run_extract_attrs(header)
    results["ea-fresh"] = outcome(run_fresh_lists)
    results["ea-input-untouched"] = describe(full_header)

    for name, (overrides, mapping) in override_cases.items():
        results[f"ao-{name}"] = run_apply_overrides(overrides, mapping)

    for filename in filenames:
        results[f"fn-{filename}"] = outcome(lambda: describe(sar_image.filename_to_groupname(filename)))
    results["fn-none"] = outcome(lambda: sar_image.filename_to_groupname(None))

    path = "IMG-HH-ALOS2225333100-180726-WWDR1.1__D-B3"
    path2 = "IMG-HV-ALOS2290760600-191011-WWDR1.5RUA"
    good = file_descriptor(3, 200, "IU2", 4) + b"".join(processed_record(i, 200) for i in (1, 2, 3))
    bad_code = file_descriptor(3, 200, "XYZ", 4) + good[720:]
    no_range = file_descriptor(3, 200, "C*8", 1, max_range="      -1") + good[720:]
    hit = lambda: "cached group"  # noqa: E731

    common = dict(content=good, path=path)
    results["oi-hit"] = run_open_image("hit", read_cache=hit, records_per_chunk=2, **common)
    results["oi-hit-default"] = run_open_image("hit2", read_cache=hit, **common)
    results["oi-hit-create"] = run_open_image(
        "hit3", read_cache=hit, create_cache=True, records_per_chunk=2, **common
    )
    results["oi-hit-none"] = run_open_image("hit4", read_cache=lambda: None, records_per_chunk=2, **common)
    results["oi-hit-falsy"] = run_open_image("hit5", read_cache=lambda: "", records_per_chunk=2, **common)
    for label, exc in {
        "caching": CachingError("no cache found"),
        "subclass": SubCachingError("corrupt"),
        "oserror": OSError("nope"),
        "valueerror": ValueError("bad json"),
        "keyerror": KeyError("k"),
        "exception": Exception("generic"),
        "keyboard": KeyboardInterrupt(),
    }.items():
        for create in (False, True):
            results[f"oi-miss-{label}-{create}"] = run_open_image(
                f"miss-{label}-{create}",
                read_cache=raiser(exc),
                create_cache=create,
                records_per_chunk=2,
                **common,
            )
    for rpc in (1, 2, 3, 1024, None, 0):
        results[f"oi-nocache-{rpc}"] = run_open_image(
            f"nocache-{rpc}", read_cache=hit, use_cache=False, records_per_chunk=rpc, **common
        )
    results["oi-nocache-create"] = run_open_image(
        "nc-create", read_cache=hit, use_cache=False, create_cache=True, records_per_chunk=2, **common
    )
    results["oi-nocache-create-fails"] = run_open_image(
        "nc-create-fails",
        read_cache=hit,
        use_cache=False,
        create_cache=True,
        create_fails=True,
        records_per_chunk=2,
        **common,
    )
    results["oi-miss-create-fails"] = run_open_image(
        "miss-create-fails",
        read_cache=raiser(CachingError("x")),
        create_cache=True,
        create_fails=True,
        records_per_chunk=2,
        **common,
    )
    results["oi-use-cache-0"] = run_open_image(
        "uc0", read_cache=hit, use_cache=0, records_per_chunk=2, **common
    )
    results["oi-use-cache-str"] = run_open_image(
        "ucs", read_cache=hit, use_cache="yes", records_per_chunk=2, **common
    )
    results["oi-path2"] = run_open_image(
        "path2", read_cache=raiser(CachingError("x")), records_per_chunk=2, content=good, path=path2
    )
    results["oi-bad-code"] = run_open_image(
        "bad-code", read_cache=raiser(CachingError("x")), records_per_chunk=2, content=bad_code,
        path=path, create_cache=True,
    )
    results["oi-no-range"] = run_open_image(
        "no-range", read_cache=raiser(CachingError("x")), records_per_chunk=2, content=no_range,
        path=path,
    )
    results["oi-truncated"] = run_open_image(
        "trunc", read_cache=raiser(CachingError("x")), records_per_chunk=2, content=good[:-7],
        path=path,
    )
    results["oi-bad-name"] = run_open_image(
        "bad-name", read_cache=raiser(CachingError("x")), records_per_chunk=2, content=good,
        path="LED-ALOS2290760600-191011-WWDR1.5RUA", create_cache=True,
    )

    def missing_file():
        fs = LoggingFS()
        LoggingFS.log = []
        mapper = fs.get_mapper("/root-missing")
        saved = caching.read_cache
        caching.read_cache = lambda *a, **k: raiser(CachingError("x"))()
        try:
            return sar_image.open_image(mapper, path, records_per_chunk=2)
        finally:
            caching.read_cache = saved

    results["oi-missing-file"] = outcome(missing_file)
    # positional use of the keyword-only arguments has to keep failing
    results["oi-positional"] = outcome(lambda: sar_image.open_image(None, path, True))

    import inspect

    results["signatures"] = {
        name: [
            (p.name, str(p.kind), repr(p.default))
            for p in inspect.signature(func).parameters.values()
        ]
        for name, func in {
            "open_image": sar_image.open_image,
            "filename_to_groupname": sar_image.filename_to_groupname,
            "extract_attrs": metadata.extract_attrs,
            "apply_overrides": metadata.apply_overrides,
        }.items()
    }
    results["names"] = [
        [name for name in names if hasattr(module, name)]
        for module, names in (
            (
                metadata,
                [
                    "extract_format_type", "extract_shape", "extract_attrs", "apply_overrides",
                    "deduplicate_attrs", "transform_line_metadata", "transform_metadata", "dtypes",
                ],
            ),
            (
                sar_image,
                [
                    "Array", "Variable", "caching", "CachingError", "read_metadata",
                    "transform_metadata", "decode_filename", "filename_to_groupname", "open_image",
                ],
            ),
        )
    ]
    return results


def compact(value):
    """long results are compared by digest (keeps the table readable)"""
    import hashlib

    text = repr(value)
    if len(text) <= 300:
        return value
    return ("sha256", hashlib.sha256(text.encode()).hexdigest(), len(text), text[:100])


# recorded from the unchanged code (HEAD) with `--record`
nan = float('nan')
EXPECTED = {'ea-empty': ('ok', (('dict', []), True)),
 'ea-preamble': ('ok', (('dict', []), True)),
 'ea-preamble-flat': ('ok', (('dict', []), True)),
 'ea-full': ('ok',
             (('dict',
               [(('str', "'interleaving_id'"), ('str', "'BSQ'")),
                (('str', "'valid_range'"), ('list', [('int', '0'), ('int', '65535')])),
                (('str', "'number_of_lines_per_burst'"), ('int', '0'))]),
              True)),
 'ea-mapping': ('ok',
                (('dict',
                  [(('str', "'interleaving_id'"), ('str', "'BSQ'")),
                   (('str', "'valid_range'"), ('list', [('int', '0'), ('int', '65535')])),
                   (('str', "'number_of_lines_per_burst'"), ('int', '0'))]),
                 True)),
 'ea-flat-known': ('ok',
                   (('dict',
                     [(('str', "'interleaving_id'"), ('str', "'BSQ'")),
                      (('str', "'number_of_burst_data'"), ('int', '5')),
                      (('str', "'number_of_lines_per_burst'"), ('int', '1')),
                      (('str', "'number_of_overlap_lines_with_adjacent_bursts'"), ('int', '3'))]),
                    True)),
 'ea-unknown': ('ok', (('dict', []), True)),
 'ea-order': ('ok',
              (('dict',
                [(('str', "'number_of_lines_per_burst'"), ('int', '4')),
                 (('str', "'valid_range'"), ('list', [('int', '0'), ('int', '3')])),
                 (('str', "'interleaving_id'"), ('str', "'BIP'")),
                 (('str', "'number_of_burst_data'"), ('int', '2'))]),
               True)),
 'ea-duplicates': ('ok', (('dict', [(('str', "'number_of_lines_per_burst'"), ('int', '8'))]), True)),
 'ea-two-levels': ('ok', (('dict', []), True)),
 'ea-interleaving-empty-str': ('ok', (('dict', [(('str', "'interleaving_id'"), ('str', "''"))]), True)),
 'ea-interleaving-empty-list': ('ok', (('dict', []), True)),
 'ea-interleaving-list': ('ok', (('dict', [(('str', "'interleaving_id'"), ('list', [('int', '1')]))]), True)),
 'ea-interleaving-tuple': ('ok', (('dict', [(('str', "'interleaving_id'"), ('tuple', []))]), True)),
 'ea-interleaving-none': ('ok', (('dict', [(('str', "'interleaving_id'"), ('NoneType', 'None'))]), True)),
 'ea-interleaving--1': ('ok', (('dict', [(('str', "'interleaving_id'"), ('int', '-1'))]), True)),
 'ea-burst-list': ('ok', (('dict', [(('str', "'number_of_lines_per_burst'"), ('list', [('int', '3')]))]), True)),
 'ea-burst-none': ('ok', (('dict', [(('str', "'number_of_burst_data'"), ('NoneType', 'None'))]), True)),
 'ea-burst-str': ('ok', (('dict', [(('str', "'number_of_burst_data'"), ('str', "'-1'"))]), True)),
 'ea-burst-nan': ('ok', (('dict', [(('str', "'number_of_burst_data'"), ('float', 'nan'))]), True)),
 'ea-burst-float': ('ok', (('dict', [(('str', "'number_of_lines_per_burst'"), ('float', '2.5'))]), True)),
 'ea-burst-true': ('ok',
                   (('dict',
                     [(('str', "'number_of_burst_data'"), ('bool', 'True')),
                      (('str', "'number_of_lines_per_burst'"), ('bool', 'False'))]),
                    True)),
 'ea-burst-0': ('ok',
                (('dict',
                  [(('str', "'number_of_burst_data'"), ('int', '0')),
                   (('str', "'number_of_overlap_lines_with_adjacent_bursts'"), ('int', '0'))]),
                 True)),
 'ea-burst-np': ('ok', (('dict', [(('str', "'number_of_lines_per_burst'"), ('int32', 'np.int32(3)'))]), True)),
 'ea-burst-array': ('raised',
                    'ValueError',
                    'The truth value of an array with more than one element is ambiguous. Use a.any() or a.all()',
                    None,
                    None),
 'ea-burst-dict': ('ok',
                   (('dict', [(('str', "'number_of_burst_data'"), ('dict', [(('str', "'a'"), ('int', '1'))]))]), True)),
 'ea-range-27': ('ok', (('dict', [(('str', "'valid_range'"), ('list', [('int', '0'), ('int', '27')]))]), True)),
 'ea-range-nested-27': ('ok', (('dict', [(('str', "'valid_range'"), ('list', [('int', '0'), ('int', '27')]))]), True)),
 'ea-range-0': ('ok', (('dict', [(('str', "'valid_range'"), ('list', [('int', '0'), ('int', '0')]))]), True)),
 'ea-range-nested-0': ('ok', (('dict', [(('str', "'valid_range'"), ('list', [('int', '0'), ('int', '0')]))]), True)),
 'ea-range--1': ('ok', (('dict', []), True)),
 'ea-range-nested--1': ('ok', (('dict', []), True)),
 'ea-range--1.0': ('ok', (('dict', []), True)),
 'ea-range-nested--1.0': ('ok', (('dict', []), True)),
 'ea-range--2': ('ok', (('dict', [(('str', "'valid_range'"), ('list', [('int', '0'), ('int', '-2')]))]), True)),
 'ea-range-nested--2': ('ok', (('dict', [(('str', "'valid_range'"), ('list', [('int', '0'), ('int', '-2')]))]), True)),
 'ea-range-nan': ('ok', (('dict', []), True)),
 'ea-range-nested-nan': ('ok', (('dict', []), True)),
 'ea-range-inf': ('ok', (('dict', [(('str', "'valid_range'"), ('list', [('int', '0'), ('float', 'inf')]))]), True)),
 'ea-range-nested-inf': ('ok',
                         (('dict', [(('str', "'valid_range'"), ('list', [('int', '0'), ('float', 'inf')]))]), True)),
 'ea-range-float': ('ok', (('dict', [(('str', "'valid_range'"), ('list', [('int', '0'), ('float', '2.5')]))]), True)),
 'ea-range-nested-float': ('ok',
                           (('dict', [(('str', "'valid_range'"), ('list', [('int', '0'), ('float', '2.5')]))]), True)),
 'ea-range-true': ('ok', (('dict', [(('str', "'valid_range'"), ('list', [('int', '0'), ('bool', 'True')]))]), True)),
 'ea-range-nested-true': ('ok',
                          (('dict', [(('str', "'valid_range'"), ('list', [('int', '0'), ('bool', 'True')]))]), True)),
 'ea-range-np-int': ('ok',
                     (('dict', [(('str', "'valid_range'"), ('list', [('int', '0'), ('int64', 'np.int64(4)')]))]),
                      True)),
 'ea-range-nested-np-int': ('ok',
                            (('dict', [(('str', "'valid_range'"), ('list', [('int', '0'), ('int64', 'np.int64(4)')]))]),
                             True)),
 'ea-range-np--1': ('ok', (('dict', []), True)),
 'ea-range-nested-np--1': ('ok', (('dict', []), True)),
 'ea-range-np-nan': ('ok', (('dict', []), True)),
 'ea-range-nested-np-nan': ('ok', (('dict', []), True)),
 'ea-range-np-float': ('ok',
                       (('dict',
                         [(('str', "'valid_range'"), ('list', [('int', '0'), ('float64', 'np.float64(1.5)')]))]),
                        True)),
 'ea-range-nested-np-float': ('ok',
                              (('dict',
                                [(('str', "'valid_range'"), ('list', [('int', '0'), ('float64', 'np.float64(1.5)')]))]),
                               True)),
 'ea-range-decimal': ('ok',
                      (('dict', [(('str', "'valid_range'"), ('list', [('int', '0'), ('Decimal', "Decimal('3')")]))]),
                       True)),
 'ea-range-nested-decimal': ('ok',
                             (('dict',
                               [(('str', "'valid_range'"), ('list', [('int', '0'), ('Decimal', "Decimal('3')")]))]),
                              True)),
 'ea-range-decimal-nan': ('ok', (('dict', []), True)),
 'ea-range-nested-decimal-nan': ('ok', (('dict', []), True)),
 'ea-range-fraction': ('ok', (('dict', []), True)),
 'ea-range-nested-fraction': ('ok', (('dict', []), True)),
 'ea-range-none': ('raised', 'TypeError', 'must be real number, not NoneType', None, None),
 'ea-range-nested-none': ('raised', 'TypeError', 'must be real number, not NoneType', None, None),
 'ea-range-str': ('raised', 'TypeError', 'must be real number, not str', None, None),
 'ea-range-nested-str': ('raised', 'TypeError', 'must be real number, not str', None, None),
 'ea-range-list': ('raised', 'TypeError', 'must be real number, not list', None, None),
 'ea-range-nested-list': ('raised', 'TypeError', 'must be real number, not list', None, None),
 'ea-range-empty-list': ('raised', 'TypeError', 'must be real number, not list', None, None),
 'ea-range-nested-empty-list': ('raised', 'TypeError', 'must be real number, not list', None, None),
 'ea-range-complex': ('raised', 'TypeError', 'must be real number, not complex', None, None),
 'ea-range-nested-complex': ('raised', 'TypeError', 'must be real number, not complex', None, None),
 'ea-range-array': ('raised',
                    'ValueError',
                    'The truth value of an array with more than one element is ambiguous. Use a.any() or a.all()',
                    None,
                    None),
 'ea-range-nested-array': ('raised',
                           'ValueError',
                           'The truth value of an array with more than one element is ambiguous. Use a.any() or '
                           'a.all()',
                           None,
                           None),
 'ea-range-array1': ('raised', 'TypeError', 'only 0-dimensional arrays can be converted to Python scalars', None, None),
 'ea-range-nested-array1': ('raised',
                            'TypeError',
                            'only 0-dimensional arrays can be converted to Python scalars',
                            None,
                            None),
 'ea-range-huge': ('raised', 'OverflowError', 'int too large to convert to float', None, None),
 'ea-range-nested-huge': ('raised', 'OverflowError', 'int too large to convert to float', None, None),
 'ea-bad-none': ('raised', 'AttributeError', "'NoneType' object has no attribute 'items'", None, None),
 'ea-bad-list': ('raised', 'AttributeError', "'list' object has no attribute 'items'", None, None),
 'ea-bad-str': ('raised', 'AttributeError', "'str' object has no attribute 'items'", None, None),
 'ea-bad-int': ('raised', 'AttributeError', "'int' object has no attribute 'items'", None, None),
 'ea-bad-list-of-pairs': ('raised', 'AttributeError', "'list' object has no attribute 'items'", None, None),
 'ea-fresh': ('ok',
              (('dict', [(('str', "'valid_range'"), ('list', [('int', '0'), ('int', '5'), ('str', "'modified'")]))]),
               ('dict', [(('str', "'valid_range'"), ('list', [('int', '0'), ('int', '5')]))]),
               False)),
 'ea-input-untouched': ('sha256',
                        'c5fe53e68a82a2079ffc18a8dc46c8bf1405171cafd2c12bab471a264140fb9c',
                        946,
                        '(\'dict\', [((\'str\', "\'preamble\'"), (\'dict\', [((\'str\', "\'record_length\'"), '
                        '(\'int\', \'720\')), ((\'str\', "'),
 'ao-none': ('sha256',
             '45c46cc3b65cb9a0dfc47905d963d849b783c432070471fedd8e556668b31342',
             566,
             '(\'ok\', ((\'dict\', [((\'str\', "\'a\'"), (\'tuple\', [(\'tuple\', [(\'str\', "\'rows\'")]), (\'list\', '
             "[('int', '1')"),
 'ao-a-int8': ('sha256',
               '43515e6db4b128f3012787650b7d5ebfa0cf10e2a7f18a8a32f8706fc80baf06',
               547,
               '(\'ok\', ((\'dict\', [((\'str\', "\'a\'"), (\'tuple\', [(\'tuple\', [(\'str\', "\'rows\'")]), '
               "('ndarray', 'int8', (3"),
 'ao-b-float16': ('sha256',
                  '1008878d3fe6c24e95760744abad8b9d18407ba6baa67db4fd55c9e2073ff8b1',
                  557,
                  '(\'ok\', ((\'dict\', [((\'str\', "\'a\'"), (\'tuple\', [(\'tuple\', [(\'str\', "\'rows\'")]), '
                  "('list', [('int', '1')"),
 'ao-a-and-b': ('sha256',
                'dd1240772621b44e5b2dd7b557b29164db400b02ca77a041c16fc36d4a6be580',
                541,
                '(\'ok\', ((\'dict\', [((\'str\', "\'a\'"), (\'tuple\', [(\'tuple\', [(\'str\', "\'rows\'")]), '
                "('ndarray', 'float64',"),
 'ao-t': ('sha256',
          '25befc90b3cc16edd03959fddd7c1578357df73502a9faac19424925ae04e7cd',
          562,
          '(\'ok\', ((\'dict\', [((\'str\', "\'a\'"), (\'tuple\', [(\'tuple\', [(\'str\', "\'rows\'")]), (\'list\', '
          "[('int', '1')"),
 'ao-scalar': ('sha256',
               'a424d5edd921b96ce76320eef96abe9543f079c9329153274e2ae6507b6b68c1',
               578,
               '(\'ok\', ((\'dict\', [((\'str\', "\'a\'"), (\'tuple\', [(\'tuple\', [(\'str\', "\'rows\'")]), '
               "('list', [('int', '1')"),
 'ao-dtype-none': ('sha256',
                   '85ef48ab670f5e22b8b0d3ff0db34c9a1667995bd8f8cc82466848a525165472',
                   548,
                   '(\'ok\', ((\'dict\', [((\'str\', "\'a\'"), (\'tuple\', [(\'tuple\', [(\'str\', "\'rows\'")]), '
                   "('ndarray', 'int64', ("),
 'ao-empty': ('ok', (('dict', []), [])),
 'ao-bad-dtype': ('raised', 'TypeError', "data type 'not-a-dtype' not understood", None, None),
 'ao-bad-value': ('raised', 'ValueError', "invalid literal for int() with base 10: '2020-01-01T00:00:00'", None, None),
 'ao-bad-tuple': ('raised', 'ValueError', 'not enough values to unpack (expected 3, got 2)', None, None),
 'ao-not-unpackable': ('raised', 'TypeError', 'cannot unpack non-iterable int object', None, None),
 'ao-untouched-non-tuple': ('ok',
                            (('dict', [(('str', "'y'"), ('int', '1')), (('str', "'z'"), ('NoneType', 'None'))]),
                             ['y', 'z'])),
 'ao-list-overrides': ('raised', 'TypeError', 'list indices must be integers or slices, not str', None, None),
 'ao-overrides-none': ('raised', 'TypeError', "argument of type 'NoneType' is not iterable", None, None),
 'ao-mapping-none': ('raised', 'AttributeError', "'NoneType' object has no attribute 'items'", None, None),
 'ao-mapping-obj': ('sha256',
                    '43515e6db4b128f3012787650b7d5ebfa0cf10e2a7f18a8a32f8706fc80baf06',
                    547,
                    '(\'ok\', ((\'dict\', [((\'str\', "\'a\'"), (\'tuple\', [(\'tuple\', [(\'str\', "\'rows\'")]), '
                    "('ndarray', 'int8', (3"),
 'fn-IMG-HH-ALOS2225333100-180726-WWDR1.1__D-B3': ('ok', ('str', "'HH_scan3'")),
 'fn-IMG-HV-ALOS2290760600-191011-WWDR1.5RUA': ('ok', ('str', "'HV'")),
 'fn-IMG-VV-ALOS2225333100-180726-WWDR1.1__D-B5': ('ok', ('str', "'VV_scan5'")),
 'fn-IMG-VH-ALOS2290760600-191011-UBSR2.1GUD': ('raised', 'ValueError', 'invalid product id: UBSR2.1GUD', None, None),
 'fn-IMG-HH-ALOS2290760600-191011-FBDR1.1__A': ('ok', ('str', "'HH'")),
 'fn-some/dir/IMG-HH-ALOS2225333100-180726-WWDR1.1__D-B3': ('raised',
                                                            'ValueError',
                                                            'invalid file name: '
                                                            'some/dir/IMG-HH-ALOS2225333100-180726-WWDR1.1__D-B3',
                                                            None,
                                                            None),
 'fn-IMG-XX-ALOS2225333100-180726-WWDR1.1__D-B3': ('raised',
                                                   'ValueError',
                                                   'invalid file name: IMG-XX-ALOS2225333100-180726-WWDR1.1__D-B3',
                                                   None,
                                                   None),
 'fn-LED-ALOS2290760600-191011-WWDR1.5RUA': ('ok', ('str', "''")),
 'fn-': ('raised', 'ValueError', 'invalid file name: ', None, None),
 'fn-IMG-HH': ('raised', 'ValueError', 'invalid file name: IMG-HH', None, None),
 'fn-none': ('raised', 'TypeError', "expected string or bytes-like object, got 'NoneType'", None, None),
 'oi-hit': (('ok', 'cached group'),
            [('open', '/root-hit/IMG-HH-ALOS2225333100-180726-WWDR1.1__D-B3', 'wb'),
             ('read_cache', True, 'IMG-HH-ALOS2225333100-180726-WWDR1.1__D-B3', [('records_per_chunk', 2)])]),
 'oi-hit-default': (('ok', 'cached group'),
                    [('open', '/root-hit2/IMG-HH-ALOS2225333100-180726-WWDR1.1__D-B3', 'wb'),
                     ('read_cache',
                      True,
                      'IMG-HH-ALOS2225333100-180726-WWDR1.1__D-B3',
                      [('records_per_chunk', None)])]),
 'oi-hit-create': (('ok', 'cached group'),
                   [('open', '/root-hit3/IMG-HH-ALOS2225333100-180726-WWDR1.1__D-B3', 'wb'),
                    ('read_cache', True, 'IMG-HH-ALOS2225333100-180726-WWDR1.1__D-B3', [('records_per_chunk', 2)])]),
 'oi-hit-none': (('raised', 'AttributeError', "'NoneType' object has no attribute 'path'", None, None),
                 [('open', '/root-hit4/IMG-HH-ALOS2225333100-180726-WWDR1.1__D-B3', 'wb'),
                  ('read_cache', True, 'IMG-HH-ALOS2225333100-180726-WWDR1.1__D-B3', [('records_per_chunk', 2)])]),
 'oi-hit-falsy': (('ok', ''),
                  [('open', '/root-hit5/IMG-HH-ALOS2225333100-180726-WWDR1.1__D-B3', 'wb'),
                   ('read_cache', True, 'IMG-HH-ALOS2225333100-180726-WWDR1.1__D-B3', [('records_per_chunk', 2)])]),
 'oi-miss-caching-False': ('sha256',
                           '732b3a9bd7f6cf67a90535cc7d0278f696caa508b883b03f83251edbab7d2f0e',
                           6957,
                           "(('ok', {'type': 'Group', 'path': 'HH_scan3', 'url': None, 'attrs': ('dict', [(('str', "
                           '"\'sar_image_d'),
 'oi-miss-caching-True': ('sha256',
                          '936c14e5814a5dce79db7a94aa03f0ef999d30e5ee2a30ad372af6d87e988e57',
                          7726,
                          "(('ok', {'type': 'Group', 'path': 'HH_scan3', 'url': None, 'attrs': ('dict', [(('str', "
                          '"\'sar_image_d'),
 'oi-miss-subclass-False': ('sha256',
                            'ae721b9067292b1a7de4e86f0c3f8a0ba4bb1d58c341365e27d19c31e3c39641',
                            6960,
                            "(('ok', {'type': 'Group', 'path': 'HH_scan3', 'url': None, 'attrs': ('dict', [(('str', "
                            '"\'sar_image_d'),
 'oi-miss-subclass-True': ('sha256',
                           '7eb4e9533071276254fe13bedbc53a44c959f2bb8203face00d297470f0582e5',
                           7729,
                           "(('ok', {'type': 'Group', 'path': 'HH_scan3', 'url': None, 'attrs': ('dict', [(('str', "
                           '"\'sar_image_d'),
 'oi-miss-oserror-False': (('raised', 'OSError', 'nope', None, None),
                           [('open', '/root-miss-oserror-False/IMG-HH-ALOS2225333100-180726-WWDR1.1__D-B3', 'wb'),
                            ('read_cache',
                             True,
                             'IMG-HH-ALOS2225333100-180726-WWDR1.1__D-B3',
                             [('records_per_chunk', 2)])]),
 'oi-miss-oserror-True': (('raised', 'OSError', 'nope', None, None),
                          [('open', '/root-miss-oserror-True/IMG-HH-ALOS2225333100-180726-WWDR1.1__D-B3', 'wb'),
                           ('read_cache',
                            True,
                            'IMG-HH-ALOS2225333100-180726-WWDR1.1__D-B3',
                            [('records_per_chunk', 2)])]),
 'oi-miss-valueerror-False': (('raised', 'ValueError', 'bad json', None, None),
                              [('open', '/root-miss-valueerror-False/IMG-HH-ALOS2225333100-180726-WWDR1.1__D-B3', 'wb'),
                               ('read_cache',
                                True,
                                'IMG-HH-ALOS2225333100-180726-WWDR1.1__D-B3',
                                [('records_per_chunk', 2)])]),
 'oi-miss-valueerror-True': (('raised', 'ValueError', 'bad json', None, None),
                             [('open', '/root-miss-valueerror-True/IMG-HH-ALOS2225333100-180726-WWDR1.1__D-B3', 'wb'),
                              ('read_cache',
                               True,
                               'IMG-HH-ALOS2225333100-180726-WWDR1.1__D-B3',
                               [('records_per_chunk', 2)])]),
 'oi-miss-keyerror-False': (('raised', 'KeyError', "'k'", None, None),
                            [('open', '/root-miss-keyerror-False/IMG-HH-ALOS2225333100-180726-WWDR1.1__D-B3', 'wb'),
                             ('read_cache',
                              True,
                              'IMG-HH-ALOS2225333100-180726-WWDR1.1__D-B3',
                              [('records_per_chunk', 2)])]),
 'oi-miss-keyerror-True': (('raised', 'KeyError', "'k'", None, None),
                           [('open', '/root-miss-keyerror-True/IMG-HH-ALOS2225333100-180726-WWDR1.1__D-B3', 'wb'),
                            ('read_cache',
                             True,
                             'IMG-HH-ALOS2225333100-180726-WWDR1.1__D-B3',
                             [('records_per_chunk', 2)])]),
 'oi-miss-exception-False': (('raised', 'Exception', 'generic', None, None),
                             [('open', '/root-miss-exception-False/IMG-HH-ALOS2225333100-180726-WWDR1.1__D-B3', 'wb'),
                              ('read_cache',
                               True,
                               'IMG-HH-ALOS2225333100-180726-WWDR1.1__D-B3',
                               [('records_per_chunk', 2)])]),
 'oi-miss-exception-True': (('raised', 'Exception', 'generic', None, None),
                            [('open', '/root-miss-exception-True/IMG-HH-ALOS2225333100-180726-WWDR1.1__D-B3', 'wb'),
                             ('read_cache',
                              True,
                              'IMG-HH-ALOS2225333100-180726-WWDR1.1__D-B3',
                              [('records_per_chunk', 2)])]),
 'oi-miss-keyboard-False': (('raised', 'KeyboardInterrupt', '', None, None),
                            [('open', '/root-miss-keyboard-False/IMG-HH-ALOS2225333100-180726-WWDR1.1__D-B3', 'wb'),
                             ('read_cache',
                              True,
                              'IMG-HH-ALOS2225333100-180726-WWDR1.1__D-B3',
                              [('records_per_chunk', 2)])]),
 'oi-miss-keyboard-True': (('raised', 'KeyboardInterrupt', '', None, None),
                           [('open', '/root-miss-keyboard-True/IMG-HH-ALOS2225333100-180726-WWDR1.1__D-B3', 'wb'),
                            ('read_cache',
                             True,
                             'IMG-HH-ALOS2225333100-180726-WWDR1.1__D-B3',
                             [('records_per_chunk', 2)])]),
 'oi-nocache-1': ('sha256',
                  'ef6b26c3db7328ad61cc3ba0afeca5a94869b60bee32701b2a59c4f76319a413',
                  6834,
                  "(('ok', {'type': 'Group', 'path': 'HH_scan3', 'url': None, 'attrs': ('dict', [(('str', "
                  '"\'sar_image_d'),
 'oi-nocache-2': ('sha256',
                  'bd01f7b4a67d9dd9522eb946c120169084992f577670c3cd567a2ae727712004',
                  6834,
                  "(('ok', {'type': 'Group', 'path': 'HH_scan3', 'url': None, 'attrs': ('dict', [(('str', "
                  '"\'sar_image_d'),
 'oi-nocache-3': ('sha256',
                  'ee752cc15bfc315feb5a4b9546c6038a778701f88d060a35d91b95a99981bf3b',
                  6834,
                  "(('ok', {'type': 'Group', 'path': 'HH_scan3', 'url': None, 'attrs': ('dict', [(('str', "
                  '"\'sar_image_d'),
 'oi-nocache-1024': ('sha256',
                     '52373229bc0638a56359173e59e542081fc3aa77618b0fcbbe1942fde57d4e4a',
                     6843,
                     "(('ok', {'type': 'Group', 'path': 'HH_scan3', 'url': None, 'attrs': ('dict', [(('str', "
                     '"\'sar_image_d'),
 'oi-nocache-None': (('raised', 'TypeError', "unsupported operand type(s) for /: 'int' and 'NoneType'", None, None),
                     [('open', '/root-nocache-None/IMG-HH-ALOS2225333100-180726-WWDR1.1__D-B3', 'wb'),
                      ('open', '/root-nocache-None/IMG-HH-ALOS2225333100-180726-WWDR1.1__D-B3', 'rb')]),
 'oi-nocache-0': (('raised', 'ZeroDivisionError', 'division by zero', None, None),
                  [('open', '/root-nocache-0/IMG-HH-ALOS2225333100-180726-WWDR1.1__D-B3', 'wb'),
                   ('open', '/root-nocache-0/IMG-HH-ALOS2225333100-180726-WWDR1.1__D-B3', 'rb')]),
 'oi-nocache-create': ('sha256',
                       '220555ddad9985fb62910b57ec0480e09b062e1df63f12366ca7aa65a468f086',
                       7606,
                       "(('ok', {'type': 'Group', 'path': 'HH_scan3', 'url': None, 'attrs': ('dict', [(('str', "
                       '"\'sar_image_d'),
 'oi-nocache-create-fails': ('sha256',
                             '5e5037830fc4a87d5bcb5ba5b71f55f313f0c0ade71ad31a3a54987fb2dd8d15',
                             990,
                             "(('raised', 'OSError', 'disk full', None, None), [('open', "
                             "'/root-nc-create-fails/IMG-HH-ALOS2225333"),
 'oi-miss-create-fails': ('sha256',
                          '0b08049233dd28d1ecd6e5915f31707ea1695da2e13b37922ffdf5bc25e6f4ca',
                          1090,
                          "(('raised', 'OSError', 'disk full', None, None), [('open', "
                          "'/root-miss-create-fails/IMG-HH-ALOS22253"),
 'oi-use-cache-0': ('sha256',
                    'ac620d7647e52763457d55c61c51435ffa9d58451cc721f567b134afd16817c9',
                    6816,
                    "(('ok', {'type': 'Group', 'path': 'HH_scan3', 'url': None, 'attrs': ('dict', [(('str', "
                    '"\'sar_image_d'),
 'oi-use-cache-str': (('ok', 'cached group'),
                      [('open', '/root-ucs/IMG-HH-ALOS2225333100-180726-WWDR1.1__D-B3', 'wb'),
                       ('read_cache', True, 'IMG-HH-ALOS2225333100-180726-WWDR1.1__D-B3', [('records_per_chunk', 2)])]),
 'oi-path2': ('sha256',
              '673fa57df48e5b0212630924532184bf2da5bb4eee391437c7fe0bd4cb12a69f',
              6900,
              "(('ok', {'type': 'Group', 'path': 'HV', 'url': None, 'attrs': ('dict', [(('str', "
              '"\'sar_image_data_re'),
 'oi-bad-code': ('sha256',
                 'ddc64a9f4342a1a78b35077c7aa408c29c0fb8ecbe4b1bf1b209712831f067dc',
                 316,
                 "(('raised', 'ValueError', 'unknown type code: XYZ', None, None), [('open', "
                 "'/root-bad-code/IMG-HH-AL"),
 'oi-no-range': ('sha256',
                 '55753fba437413a62c25348d89af0b3813e1ba6d913610be0b33d529bea8ed3b',
                 6858,
                 "(('ok', {'type': 'Group', 'path': 'HH_scan3', 'url': None, 'attrs': ('dict', [(('str', "
                 '"\'sar_image_d'),
 'oi-truncated': ('sha256',
                  '3e44edbc367021cfe540abc39283b383e5bb4095eb1c81dfff101441badb1d38',
                  336,
                  "(('raised', 'ValueError', 'sizes mismatch: chunksize is 0 but got 193 bytes', None, None), "
                  "[('open',"),
 'oi-bad-name': ('sha256',
                 'dd23e48da61222494b6cca53f050032b2acfa39185f7fe2959d4c49b82971b59',
                 7653,
                 "(('ok', {'type': 'Group', 'path': '', 'url': None, 'attrs': ('dict', [(('str', "
                 '"\'sar_image_data_reco'),
 'oi-missing-file': ('raised',
                     'FileNotFoundError',
                     '/root-missing/IMG-HH-ALOS2225333100-180726-WWDR1.1__D-B3',
                     None,
                     None),
 'oi-positional': ('raised', 'TypeError', 'open_image() takes 2 positional arguments but 3 were given', None, None),
 'signatures': ('sha256',
                '049553490b6cdcdc9d02f13b849775539070d2560a7257f66dd54542d079d2a1',
                608,
                '{\'open_image\': [(\'mapper\', \'POSITIONAL_OR_KEYWORD\', "<class \'inspect._empty\'>"), (\'path\', '
                "'POSITIONA"),
 'names': ('sha256',
           '64d4930d196459e6d04eb0e4cc0326935c0a1f3d980cad724a594a89f255ed4c',
           305,
           "[['extract_format_type', 'extract_shape', 'extract_attrs', 'apply_overrides', 'deduplicate_attrs', '")}


def main():
    raw = collect()
    results = {k: compact(v) for k, v in raw.items()}
    if "--raw" in sys.argv:
        pprint.pprint(raw, width=140, sort_dicts=False)
        return
    if "--record" in sys.argv:
        pprint.pprint(results, width=120, sort_dicts=False)
        return
    assert EXPECTED is not None
    assert set(results) == set(EXPECTED), set(results) ^ set(EXPECTED)
    failed = [k for k in results if results[k] != EXPECTED[k]]
    for k in failed:
        print("MISMATCH", k)
        print("   expected:", EXPECTED[k])
        print("   actual:  ", raw[k])
    assert not failed, failed
    print(f"equiv 2: {len(results)} cases OK")


def test_equivalence():
    sys.argv = sys.argv[:1]
    main()


if __name__ == "__main__":
    main()
