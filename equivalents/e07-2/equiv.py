"""Equivalence check for refactoring 2 (``ceos_alos2.xarray``:
``extract_encoding``, ``to_dataset``, ``to_datatree``).

The expected values were produced with the UNCHANGED code (run with ``--print``
to dump the actual values).  File access is served from fsspec's in-memory file
system; ``xr.Dataset.chunk`` is replaced by a recording stub because dask is not
installed in the sandbox.

Run:  cd /tmp/wt2/e07 && PYTHONPATH=/tmp/wt2/e07 /venv/bin/python _eq/2/equiv.py
"""

import pprint
import sys

import fsspec
import numpy as np
import xarray as xr

from ceos_alos2 import xarray as cx
from ceos_alos2.array import Array
from ceos_alos2.hierarchy import Group, Variable

# ---------------------------------------------------------------------------------
# a lazily loaded 4x3 image: every row has a 4 byte prefix and 3 big-endian uint16
# ---------------------------------------------------------------------------------
memfs = fsspec.filesystem("memory")
values = (np.arange(12).reshape(4, 3) + 100).astype(">u2")
content = b"".join(b"\xff\xff\xff\xff" + row.tobytes() for row in values)
memfs.pipe_file("/eq2/file", content)

opened = []


class RecordingFs:
    """minimal file system: counts the opens, serves from memory"""

    def open(self, url, mode="rb"):
        opened.append((url, mode))
        return memfs.open("/eq2/" + url, mode=mode)


def lazy_array(records_per_chunk):
    return Array(
        fs=RecordingFs(),
        url="file",
        byte_ranges=[(x * 10 + 4, x * 10 + 10) for x in range(4)],
        shape=(4, 3),
        dtype="uint16",
        type_code="IU2",
        records_per_chunk=records_per_chunk,
    )


class FakeVar:
    """duck-typed variable for extract_encoding: sizes only has some of the dims"""

    def __init__(self, chunks, sizes):
        self.chunks = chunks
        self._sizes = sizes
        self.size_lookups = 0

    @property
    def sizes(self):
        self.size_lookups += 1
        return self._sizes


def describe_variable(var):
    in_memory = var._in_memory
    return {
        "dims": var.dims,
        "dtype": str(var.dtype),
        "in_memory": in_memory,
        "values": var.values.tolist(),
        "attrs": dict(var.attrs),
        "encoding": dict(var.encoding),
    }


def describe_dataset(ds):
    return {
        "data_vars": list(ds.data_vars),
        "coords": list(ds.coords),
        "sizes": dict(ds.sizes),
        "attrs": dict(ds.attrs),
        "variables": {name: describe_variable(var) for name, var in ds.variables.items()},
    }


def describe_tree(tree):
    return {node.path: describe_dataset(node.to_dataset(inherit=False)) for node in tree.subtree}


def make_group():
    inner = Group(
        path=None,
        url=None,
        data={"q": Variable(["x", "z"], np.array([[1.5, 2.5]]), {"units": "m"})},
        attrs={"level": 2, "coordinates": []},
    )
    sub = Group(
        path=None,
        url=None,
        data={
            "t": Variable("rows", np.array([10, 20, 30, 40], dtype="int64"), {}),
            "inner": inner,
            "u": Variable("rows", np.array([1, 2, 3, 4], dtype="int8"), {"a": 1}),
        },
        attrs={"level": 1, "coordinates": ["u", "t"]},
    )
    return Group(
        path="/",
        url="memory://eq2",
        data={
            "b": Variable("rows", np.array([4, 3, 2, 1], dtype="int16"), {"long_name": "b"}),
            "sub": sub,
            "data": Variable(["rows", "columns"], lazy_array(3), {"kind": "image"}),
            "a": Variable("columns", np.array([0.5, 1.5, 2.5]), {}),
            "other": Group(path=None, url=None, data={}, attrs={"empty": True}),
        },
        attrs={"coordinates": ["a"], "title": "root"},
    )


actual = {}

# --- extract_encoding ---------------------------------------------------------------
actual["encoding"] = {
    "numpy": cx.extract_encoding(Variable("x", np.array([1], dtype="int8"), {})),
    "rpc2": cx.extract_encoding(Variable(["a", "b"], lazy_array(2), {})),
    "rpc-1": cx.extract_encoding(Variable(["a", "b"], lazy_array(-1), {})),
    "rpc_too_big": cx.extract_encoding(Variable(["a", "b"], lazy_array(9), {})),
    "rpc_none": cx.extract_encoding(Variable(["a", "b"], lazy_array(None), {})),
}
fake = FakeVar({"a": None, "b": 5, "c": -1, "d": 0, "e": -1.0}, {"a": 7, "c": 8, "e": 9})
actual["encoding"]["fake"] = cx.extract_encoding(fake)
actual["encoding"]["fake_key_order"] = list(actual["encoding"]["fake"]["preferred_chunksizes"])
actual["encoding"]["fake_size_lookups"] = fake.size_lookups
fake = FakeVar({"a": None, "b": None}, {})
actual["encoding"]["all_none"] = [cx.extract_encoding(fake), fake.size_lookups]
fake = FakeVar({"b": 2, "a": None, "c": None}, {"c": 1})
try:
    cx.extract_encoding(fake)
except KeyError as e:
    actual["encoding"]["missing_size"] = ["KeyError", e.args, fake.size_lookups]

# --- to_dataset ---------------------------------------------------------------------
group = make_group()
opened.clear()
ds = cx.to_dataset(group)
actual["to_dataset_opened_before_load"] = list(opened)
actual["to_dataset"] = describe_dataset(ds)
actual["to_dataset_opened_after_load"] = list(opened)
actual["to_dataset_group_attrs_untouched"] = group.attrs == {"coordinates": ["a"], "title": "root"}
actual["to_dataset_type"] = type(ds).__name__

# chunks: recorded instead of executed (no dask in the sandbox)
chunk_calls = []
original_chunk = xr.Dataset.chunk


def recording_chunk(self, chunks={}, *args, **kwargs):
    chunk_calls.append((dict(chunks), list(chunks), args, kwargs))
    return self.assign_attrs(chunked=len(chunk_calls))


xr.Dataset.chunk = recording_chunk
try:
    actual["to_dataset_chunks"] = {}
    for label, chunks in [
        ("empty", {}),
        ("subset", {"columns": 2, "nope": 4, "rows": -1}),
        ("none_of_them", {"y": 1}),
        ("auto_values", {"rows": "auto"}),
    ]:
        chunk_calls.clear()
        ds = cx.to_dataset(make_group(), chunks=chunks)
        actual["to_dataset_chunks"][label] = [list(chunk_calls), dict(ds.attrs), list(ds.coords)]

    for label, chunks in [("int", -1), ("str", "auto")]:
        chunk_calls.clear()
        try:
            cx.to_dataset(make_group(), chunks=chunks)
        except AttributeError as e:
            actual["to_dataset_chunks"][label] = ["AttributeError", e.args, list(chunk_calls)]

    # --- to_datatree with chunks ---------------------------------------------------
    chunk_calls.clear()
    tree = cx.to_datatree(make_group(), chunks={"rows": 2, "x": 1})
    actual["to_datatree_chunks"] = [
        list(chunk_calls),
        {node.path: node.attrs.get("chunked") for node in tree.subtree},
    ]
finally:
    xr.Dataset.chunk = original_chunk

# --- to_datatree --------------------------------------------------------------------
opened.clear()
tree = cx.to_datatree(make_group())
actual["to_datatree_type"] = type(tree).__name__
actual["to_datatree_paths"] = [node.path for node in tree.subtree]
actual["to_datatree_children"] = list(tree.children)
actual["to_datatree_opened_before_load"] = list(opened)
actual["to_datatree"] = describe_tree(tree)
actual["to_datatree_opened_after_load"] = list(opened)

# a group that is not the root: the "/" entry and the subtree entries are distinct keys
detached = Group(
    path="summary",
    url=None,
    data={
        "v": Variable("x", np.array([1, 2]), {}),
        "child": Group(path=None, url=None, data={"w": Variable("y", np.array([3]), {})}, attrs={}),
    },
    attrs={"s": 1},
)
tree = cx.to_datatree(detached)
actual["to_datatree_detached"] = describe_tree(tree)
actual["to_datatree_detached_paths"] = [node.path for node in tree.subtree]

# conversion errors propagate, and stop the conversion of the later groups
converted = []
original_to_variable = cx.to_variable


def failing_to_variable(var):
    converted.append(var.attrs.get("id"))
    if var.attrs.get("fail"):
        raise RuntimeError("cannot convert")
    return original_to_variable(var)


bad = Group(
    path="/",
    url=None,
    data={
        "v": Variable("x", np.array([1]), {"id": "root/v"}),
        "g1": Group(
            path=None,
            url=None,
            data={
                "ok": Variable("x", np.array([1]), {"id": "g1/ok"}),
                "bad": Variable("x", np.array([1]), {"id": "g1/bad", "fail": True}),
                "after": Variable("x", np.array([1]), {"id": "g1/after"}),
            },
            attrs={},
        ),
        "g2": Group(
            path=None, url=None, data={"w": Variable("x", np.array([1]), {"id": "g2/w"})}, attrs={}
        ),
    },
    attrs={},
)
cx.to_variable = failing_to_variable
try:
    cx.to_datatree(bad)
except RuntimeError as e:
    actual["to_datatree_error"] = ["RuntimeError", e.args, list(converted)]
finally:
    cx.to_variable = original_to_variable


# obtained from the unchanged code with `equiv.py --print`
EXPECTED = {'encoding': {'numpy': {},
              'rpc2': {'preferred_chunksizes': {'a': 2, 'b': 3}},
              'rpc-1': {'preferred_chunksizes': {'a': 4, 'b': 3}},
              'rpc_too_big': {'preferred_chunksizes': {'a': 4, 'b': 3}},
              'rpc_none': {'preferred_chunksizes': {'a': 1024, 'b': 3}},
              'fake': {'preferred_chunksizes': {'a': 7, 'b': 5, 'c': 8, 'd': 0, 'e': 9}},
              'fake_key_order': ['a', 'b', 'c', 'd', 'e'],
              'fake_size_lookups': 3,
              'all_none': [{}, 0],
              'missing_size': ['KeyError', ('a',), 1]},
 'to_dataset_opened_before_load': [],
 'to_dataset': {'data_vars': ['b', 'data'],
                'coords': ['a'],
                'sizes': {'rows': 4, 'columns': 3},
                'attrs': {'title': 'root'},
                'variables': {'b': {'dims': ('rows',),
                                    'dtype': 'int16',
                                    'in_memory': True,
                                    'values': [4, 3, 2, 1],
                                    'attrs': {'long_name': 'b'},
                                    'encoding': {}},
                              'data': {'dims': ('rows', 'columns'),
                                       'dtype': 'uint16',
                                       'in_memory': False,
                                       'values': [[100, 101, 102],
                                                  [103, 104, 105],
                                                  [106, 107, 108],
                                                  [109, 110, 111]],
                                       'attrs': {'kind': 'image'},
                                       'encoding': {'preferred_chunksizes': {'rows': 3, 'columns': 3}}},
                              'a': {'dims': ('columns',),
                                    'dtype': 'float64',
                                    'in_memory': True,
                                    'values': [0.5, 1.5, 2.5],
                                    'attrs': {},
                                    'encoding': {}}}},
 'to_dataset_opened_after_load': [('file', 'rb')],
 'to_dataset_group_attrs_untouched': True,
 'to_dataset_type': 'Dataset',
 'to_dataset_chunks': {'empty': [[({}, [], (), {})], {'title': 'root', 'chunked': 1}, ['a']],
                       'subset': [[({'columns': 2, 'rows': -1}, ['columns', 'rows'], (), {})],
                                  {'title': 'root', 'chunked': 1},
                                  ['a']],
                       'none_of_them': [[({}, [], (), {})], {'title': 'root', 'chunked': 1}, ['a']],
                       'auto_values': [[({'rows': 'auto'}, ['rows'], (), {})],
                                       {'title': 'root', 'chunked': 1},
                                       ['a']],
                       'int': ['AttributeError', ("'int' object has no attribute 'items'",), []],
                       'str': ['AttributeError', ("'str' object has no attribute 'items'",), []]},
 'to_datatree_chunks': [[({'rows': 2}, ['rows'], (), {}),
                         ({'rows': 2}, ['rows'], (), {}),
                         ({'rows': 2}, ['rows'], (), {}),
                         ({'x': 1}, ['x'], (), {}),
                         ({}, [], (), {})],
                        {'/': 2, '/sub': 3, '/other': 5, '/sub/inner': 4}],
 'to_datatree_type': 'DataTree',
 'to_datatree_paths': ['/', '/sub', '/other', '/sub/inner'],
 'to_datatree_children': ['sub', 'other'],
 'to_datatree_opened_before_load': [],
 'to_datatree': {'/': {'data_vars': ['b', 'data'],
                       'coords': ['a'],
                       'sizes': {'rows': 4, 'columns': 3},
                       'attrs': {'title': 'root'},
                       'variables': {'b': {'dims': ('rows',),
                                           'dtype': 'int16',
                                           'in_memory': True,
                                           'values': [4, 3, 2, 1],
                                           'attrs': {'long_name': 'b'},
                                           'encoding': {}},
                                     'data': {'dims': ('rows', 'columns'),
                                              'dtype': 'uint16',
                                              'in_memory': False,
                                              'values': [[100, 101, 102],
                                                         [103, 104, 105],
                                                         [106, 107, 108],
                                                         [109, 110, 111]],
                                              'attrs': {'kind': 'image'},
                                              'encoding': {'preferred_chunksizes': {'rows': 3,
                                                                                    'columns': 3}}},
                                     'a': {'dims': ('columns',),
                                           'dtype': 'float64',
                                           'in_memory': True,
                                           'values': [0.5, 1.5, 2.5],
                                           'attrs': {},
                                           'encoding': {}}}},
                 '/sub': {'data_vars': [],
                          'coords': ['t', 'u'],
                          'sizes': {'rows': 4},
                          'attrs': {'level': 1},
                          'variables': {'t': {'dims': ('rows',),
                                              'dtype': 'int64',
                                              'in_memory': True,
                                              'values': [10, 20, 30, 40],
                                              'attrs': {},
                                              'encoding': {}},
                                        'u': {'dims': ('rows',),
                                              'dtype': 'int8',
                                              'in_memory': True,
                                              'values': [1, 2, 3, 4],
                                              'attrs': {'a': 1},
                                              'encoding': {}}}},
                 '/other': {'data_vars': [],
                            'coords': [],
                            'sizes': {},
                            'attrs': {'empty': True},
                            'variables': {}},
                 '/sub/inner': {'data_vars': ['q'],
                                'coords': [],
                                'sizes': {'x': 1, 'z': 2},
                                'attrs': {'level': 2},
                                'variables': {'q': {'dims': ('x', 'z'),
                                                    'dtype': 'float64',
                                                    'in_memory': True,
                                                    'values': [[1.5, 2.5]],
                                                    'attrs': {'units': 'm'},
                                                    'encoding': {}}}}},
 'to_datatree_opened_after_load': [('file', 'rb')],
 'to_datatree_detached': {'/': {'data_vars': ['v'],
                                'coords': [],
                                'sizes': {'x': 2},
                                'attrs': {'s': 1},
                                'variables': {'v': {'dims': ('x',),
                                                    'dtype': 'int64',
                                                    'in_memory': True,
                                                    'values': [1, 2],
                                                    'attrs': {},
                                                    'encoding': {}}}},
                          '/summary': {'data_vars': ['v'],
                                       'coords': [],
                                       'sizes': {'x': 2},
                                       'attrs': {'s': 1},
                                       'variables': {'v': {'dims': ('x',),
                                                           'dtype': 'int64',
                                                           'in_memory': True,
                                                           'values': [1, 2],
                                                           'attrs': {},
                                                           'encoding': {}}}},
                          '/summary/child': {'data_vars': ['w'],
                                             'coords': [],
                                             'sizes': {'y': 1},
                                             'attrs': {},
                                             'variables': {'w': {'dims': ('y',),
                                                                 'dtype': 'int64',
                                                                 'in_memory': True,
                                                                 'values': [3],
                                                                 'attrs': {},
                                                                 'encoding': {}}}}},
 'to_datatree_detached_paths': ['/', '/summary', '/summary/child'],
 'to_datatree_error': ['RuntimeError', ('cannot convert',), ['root/v', 'root/v', 'g1/ok', 'g1/bad']]}

if "--print" in sys.argv:
    pprint.pprint(actual, width=110, sort_dicts=False)
    sys.exit(0)

assert set(actual) == set(EXPECTED), sorted(set(actual) ^ set(EXPECTED))
for key in EXPECTED:
    assert actual[key] == EXPECTED[key], (key, actual[key], EXPECTED[key])
    # dict == ignores the insertion order; the order matters here
    assert repr(actual[key]) == repr(EXPECTED[key]), (key, actual[key], EXPECTED[key])

print("refactoring 2: all equivalence checks passed")
