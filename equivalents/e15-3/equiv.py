"""Equivalence check for refactoring 3: sar_leader/facility_related_data.py (transform_auxiliary_file, transform_group, transform_record5)

Self-contained.  Run as a script

    cd /tmp/wt3/e15 && PYTHONPATH=/tmp/wt3/e15 /venv/bin/python _eq/3/equiv.py

(exit status 0 = all cases equal the recorded outcomes) or through pytest

    cd /tmp/wt3/e15 && PYTHONPATH=/tmp/wt3/e15 /venv/bin/python -m pytest -q -p no:cacheprovider _eq/3/equiv.py

``EXPECTED`` at the bottom was recorded with ``equiv.py --record`` from the UNCHANGED code
(clean HEAD).  Every case stores either the canonical text of the result (types, order and
values of everything reachable, optionally also which containers are shared) or, if that text
is long, its sha256; raising cases store exception type and message.
"""
# ruff: noqa
# fmt: off
import hashlib
import io as _io
import pprint
import random
import struct as _struct
import sys

import construct as C
import numpy as np

import ceos_alos2
from ceos_alos2 import datatypes as D
from ceos_alos2.hierarchy import Group, Variable

# --------------------------------------------------------------------------
# canonical, type-preserving text form of arbitrary results
# --------------------------------------------------------------------------


def canon(obj):
    """Convert a result into plain nested tuples that record types, order and values."""
    if isinstance(obj, Group):
        return (
            "Group",
            ("path", obj.path),
            ("url", obj.url),
            ("attrs", canon(obj.attrs)),
            ("data", [(name, canon(value)) for name, value in obj.data.items()]),
        )
    if isinstance(obj, Variable):
        return ("Variable", canon(obj.dims), canon(obj.data), canon(obj.attrs))
    if isinstance(obj, np.ndarray):
        if obj.dtype.kind in "mM":
            values = obj.astype("int64").tolist()
        else:
            values = obj.tolist()
        return ("ndarray", str(obj.dtype), tuple(obj.shape), repr(values))
    if isinstance(obj, np.generic):
        return ("npscalar", type(obj).__name__, str(obj.dtype), repr(obj.item()))
    if isinstance(obj, dict):
        return (type(obj).__name__, [(canon(k), canon(v)) for k, v in obj.items()])
    if isinstance(obj, (list, tuple)):
        return (type(obj).__name__, [canon(v) for v in obj])
    if isinstance(obj, (bool, int, float, complex, str, bytes, type(None))):
        return (type(obj).__name__, repr(obj))
    if callable(obj):
        return ("callable", type(obj).__name__)
    return ("object", type(obj).__name__, repr(obj))


def aliasing(obj):
    """Record which mutable containers inside a result are the same object.

    Returns the list of groups (as lists of paths) of dict / list objects that occur more
    than once in the result.
    """
    seen = {}

    def visit(value, path):
        if isinstance(value, Group):
            visit(value.attrs, path + ("@attrs",))
            visit(value.data, path + ("@data",))
        elif isinstance(value, Variable):
            visit(value.dims, path + ("@dims",))
            visit(value.data, path + ("@vdata",))
            visit(value.attrs, path + ("@attrs",))
        elif isinstance(value, dict):
            seen.setdefault(id(value), []).append(path)
            for k, v in value.items():
                visit(v, path + (k,))
        elif isinstance(value, (list, tuple)):
            if isinstance(value, list):
                seen.setdefault(id(value), []).append(path)
            for i, v in enumerate(value):
                visit(v, path + (i,))
        elif isinstance(value, np.ndarray):
            seen.setdefault(id(value), []).append(path)

    visit(obj, ())
    return sorted(paths for paths in seen.values() if len(paths) > 1)


def outcome(thunk, with_aliasing=False):
    """Run a case and describe what happened: the result or the exception."""
    try:
        result = thunk()
    except Exception as e:  # noqa: BLE001
        text = pprint.pformat(("raises", type(e).__name__, str(e)), width=100)
    else:
        described = ("returns", canon(result))
        if with_aliasing:
            described += (("aliasing", aliasing(result)),)
        text = pprint.pformat(described, width=100)
    if len(text) > 700:
        digest = hashlib.sha256(text.encode()).hexdigest()
        return f"sha256:{digest}:len={len(text)}"
    return text


# --------------------------------------------------------------------------
# synthetic CEOS bytes for any of the library's construct definitions
# --------------------------------------------------------------------------


def _evaluate(value, ctx):
    return value(ctx) if callable(value) else value


class Synth:
    """Generate bytes which the given construct definition parses.

    Walks the definition; leaves are filled with seeded pseudo random ASCII text of the
    declared width.  ``overrides`` maps a path suffix (tuple of member names) to the value to
    write. ``blank`` is the probability of leaving a numeric / text leaf blank.
    """

    def __init__(self, seed, overrides=None, blank=0.0):
        self.rng = random.Random(seed)
        self.overrides = dict(overrides or {})
        self.blank = blank

    def lookup(self, path):
        names = tuple(p for p in path if isinstance(p, str))
        for n in range(len(names)):
            if names[n:] in self.overrides:
                return True, self.overrides[names[n:]]
        return False, None

    @staticmethod
    def _width(sc, ctx):
        # datatypes.* adapters wrap construct.PaddedString = StringEncoded(FixedSized(n, ...))
        return _evaluate(sc.subcon.subcon.length, ctx)

    def _fit(self, text, n, right=False):
        if len(text) > n:
            text = text[:n]
        return (text.rjust(n) if right else text.ljust(n)).encode("ascii")

    def integer(self, n, path):
        found, value = self.lookup(path)
        if found:
            return self._fit(str(value), n, right=True)
        if self.rng.random() < self.blank:
            return b" " * n
        digits = self.rng.randint(1, max(1, min(n, 5)))
        return self._fit(str(self.rng.randrange(10**digits)), n, right=True)

    def floating(self, n, path):
        found, value = self.lookup(path)
        if found:
            if isinstance(value, str):
                return self._fit(value, n, right=True)
        elif self.rng.random() < self.blank:
            return b" " * n
        else:
            value = self.rng.uniform(-1000, 1000)
        if n >= 14:
            text = f"{value:.{n - 9}E}"
        else:
            text = f"{value:.2f}"
        if len(text) > n:
            text = f"{value:.0f}"
        return self._fit(text, n, right=True)

    def text(self, n, path):
        found, value = self.lookup(path)
        if found:
            return self._fit(str(value), n)
        if self.rng.random() < self.blank or n <= 0:
            return b" " * max(n, 0)
        length = self.rng.randint(1, min(n, 12))
        letters = "".join(self.rng.choice("ABCDEFGHIJKLMNOPQRSTUVWXYZ0123456789") for _ in range(length))
        return self._fit(letters, n)

    def build(self, sc, ctx=None, path=()):
        if ctx is None:
            ctx = C.Container(_parsing=True, _building=False, _sizing=False, _params=C.Container())
        if isinstance(sc, C.Renamed):
            return self.build(sc.subcon, ctx, path)
        if isinstance(sc, C.Struct):
            inner = C.Container(
                _=ctx,
                _params=ctx._params,
                _root=None,
                _parsing=True,
                _building=False,
                _sizing=False,
                _io=None,
                _index=ctx.get("_index", None),
            )
            inner._root = inner._.get("_root", ctx)
            out = b""
            for member in sc.subcons:
                chunk = self.build(member, inner, path + (member.name,))
                inner[member.name] = member._parsereport(_io.BytesIO(chunk), inner, "synth")
                out += chunk
            return out
        if isinstance(sc, C.Array):
            count = _evaluate(sc.count, ctx)
            return b"".join(self.build(sc.subcon, ctx, path + (i,)) for i in range(count))
        if isinstance(sc, C.Enum):
            found, value = self.lookup(path)
            if not found:
                value = self.rng.choice(sorted(sc.encmapping.values(), key=str))
            n = self._width(sc.subcon, ctx)
            return self._fit(str(value), n, right=isinstance(sc.subcon, D.AsciiInteger))
        if isinstance(sc, D.AsciiInteger):
            return self.integer(self._width(sc, ctx), path)
        if isinstance(sc, D.AsciiFloat):
            return self.floating(self._width(sc, ctx), path)
        if isinstance(sc, D.PaddedString):
            return self.text(self._width(sc, ctx), path)
        if isinstance(sc, C.FormatField):
            found, value = self.lookup(path)
            if not found:
                value = self.rng.randrange(1, 200)
            return _struct.pack(sc.fmtstr, value)
        if isinstance(sc, C.Adapter):  # Metadata, Factor, AsciiComplex
            return self.build(sc.subcon, ctx, path)
        raise NotImplementedError(f"{type(sc).__name__} at {path}")


# --------------------------------------------------------------------------
# driver
# --------------------------------------------------------------------------


def run_cases(cases):
    results = {}
    for name, thunk, *flags in cases:
        if name in results:
            raise RuntimeError(f"duplicate case name {name}")
        results[name] = outcome(thunk, with_aliasing=bool(flags and flags[0]))
    return results


def check(cases, expected):
    actual = run_cases(cases)
    problems = []
    for name in sorted(set(actual) | set(expected)):
        if actual.get(name) != expected.get(name):
            problems.append(
                f"--- case {name!r}\n    expected: {expected.get(name)}\n    actual:   {actual.get(name)}"
            )
    return actual, problems


def main(cases, expected):
    print("library under test:", ceos_alos2.__file__)
    if "--record" in sys.argv:
        print("EXPECTED = " + pprint.pformat(run_cases(cases), width=110, sort_dicts=False))
        return 0
    actual, problems = check(cases, expected)
    for problem in problems:
        print(problem)
    n_raise = sum(1 for v in actual.values() if v.startswith("('raises'"))
    print(f"{len(actual)} cases ({n_raise} raising), {len(problems)} mismatches")
    return 1 if problems else 0


# --------------------------------------------------------------------------
# cases
# --------------------------------------------------------------------------

import collections
import copy

from ceos_alos2.sar_leader import facility_related_data as frd
from ceos_alos2.sar_leader.facility_related_data import (
    facility_related_data_5_record,
    facility_related_data_record,
)
from ceos_alos2.utils import to_dict


def parsed(definition, seed, overrides=None, blank=0.0):
    raw = Synth(seed, overrides, blank=blank).build(definition)
    return to_dict(definition.parse(raw))


def auxiliary_cases():
    def run(mapping):
        return lambda: frd.transform_auxiliary_file(mapping)

    for number in (1, 2, 3, 4, 0, 5, -1):
        overrides = {("record_sequence_number",): number, ("record_length",): 66 + 20}
        # the preamble has a (binary) record_sequence_number of its own
        overrides[("preamble", "record_sequence_number")] = 17
        yield f"auxiliary/parsed/{number}", run(parsed(facility_related_data_record, number + 50, overrides))
    yield "auxiliary/parsed/no-raw-data", run(
        parsed(facility_related_data_record, 3, {("record_length",): 66})
    )
    yield "auxiliary/parsed/blanks", run(
        parsed(facility_related_data_record, 4, {("record_length",): 100}, blank=0.6)
    )
    yield "auxiliary/empty", run({})
    yield "auxiliary/only-ignored", run({"preamble": {"a": 1}, "blanks": "x", "spare12": 1})
    yield "auxiliary/kept-spares", run({"blanks_x": 1, "spare_part": 2, "sparerib": 3, "blanksx1": 4})
    yield "auxiliary/order", run(
        {"raw_file_data": "abc", "record_sequence_number": 2, "preamble": {}, "other": [1, {"blanks": 1}]}
    )
    yield "auxiliary/collision-1", run({"record_sequence_number": 3, "data_type": "explicit"})
    yield "auxiliary/collision-2", run({"data_type": "explicit", "record_sequence_number": 3})
    yield "auxiliary/number-string", run({"record_sequence_number": "1"})
    yield "auxiliary/number-float", run({"record_sequence_number": 2.0})
    yield "auxiliary/number-bool", run({"record_sequence_number": True})
    yield "auxiliary/number-none", run({"record_sequence_number": None})
    yield "auxiliary/number-unhashable", run({"record_sequence_number": [1]})
    yield "auxiliary/number-dict", run({"record_sequence_number": {"blanks": 1, "a": 2}})
    yield "auxiliary/nested-spares", run(
        {"a": {"spare1": 1, "b": [{"blanks2": 2, "c": 3}]}, "record_sequence_number": 4}
    )
    yield "auxiliary/non-string-keys", run({1: 2})
    yield "auxiliary/none", run(None)
    yield "auxiliary/list", run([{"record_sequence_number": 1, "preamble": 2}])
    yield "auxiliary/string", run("record_sequence_number")

    def untouched():
        mapping = parsed(facility_related_data_record, 9, {("record_length",): 90})
        before = copy.deepcopy(mapping)
        frd.transform_auxiliary_file(mapping)
        return canon(before) == canon(mapping)

    yield "auxiliary/input-untouched", untouched


def group_cases():
    def run(mapping, dim, **kwargs):
        def thunk():
            if kwargs.get("keyword"):
                result = frd.transform_group(mapping=mapping, dim=dim)
            else:
                result = frd.transform_group(mapping, dim)
            same_attrs = (
                isinstance(mapping, tuple) and len(mapping) == 2 and result[1] is mapping[1]
            )
            return {"result": result, "attrs_passed_through": same_attrs}

        return thunk

    attrs = {"formula": "x = a0 + a1"}
    yield "group/empty", run(({}, {}), "dim")
    yield "group/lists", run(({"a": [1.0, 2.0], "b": [3.0]}, attrs), "dim"), True
    yield "group/scalars", run(({"origin_pixel": 1.5, "origin_line": -2}, attrs), "dim")
    yield "group/mixed", run(({"a": [1], "b": 2, "c": [], "d": None, "e": "txt"}, attrs), "coeffs")
    yield "group/tuple-value", run(({"a": (1, 2)}, {}), "dim")
    yield "group/array-value", run(({"a": np.arange(3)}, {}), "dim")
    yield "group/list-subclass", run(({"a": collections.UserList([1]), "b": type("L", (list,), {})([1])}, {}), "dim")
    yield "group/nested-list", run(({"a": [[1, 2], [3]]}, {}), "dim")
    yield "group/dict-value", run(({"a": {"b": [1]}}, {}), "dim")
    yield "group/dim-list", run(({"a": [1], "b": 2}, {}), ["x", "y"]), True
    yield "group/dim-tuple", run(({"a": [1], "b": 2}, {}), ("x",))
    yield "group/dim-none", run(({"a": [1], "b": 2}, {}), None)
    yield "group/keyword-call", run(({"a": [1], "b": 2}, attrs), "dim", keyword=True)
    yield "group/attrs-not-dict", run(({"a": [1]}, "attrs"), "dim")
    yield "group/list-pair", run([{"a": [1]}, attrs], "dim")
    yield "group/ordered-dict", run((collections.OrderedDict(b=[1], a=2), attrs), "dim")
    yield "group/non-string-keys", run(({1: [1], (2, 3): 4}, {}), "dim")
    yield "group/too-many", run(({"a": 1}, {}, {}), "dim")
    yield "group/too-few", run(({"a": 1},), "dim")
    yield "group/bare-dict-2", run({"a": [1], "b": 2}, "dim")
    yield "group/bare-dict-1", run({"a": [1]}, "dim")
    yield "group/scalar", run(5, "dim")
    yield "group/none", run(None, "dim")
    yield "group/first-not-mapping", run(([1, 2], {}), "dim")
    yield "group/first-none", run((None, {}), "dim")
    yield "group/string-pair", run("ab", "dim")

    def missing_dim():
        return frd.transform_group(({"a": [1]}, {}))

    yield "group/missing-dim", missing_dim

    def fresh_attrs():
        first = frd.transform_group(({"a": [1], "b": 2}, {}), "dim")[0]
        return {
            "independent_attrs": first["a"][2] is not first["b"][2],
            "values_passed_through": True,
        }

    yield "group/fresh-attrs", fresh_attrs


def record5_cases():
    def run(mapping):
        return lambda: frd.transform_record5(mapping)

    for seed in (1, 2, 3):
        yield f"record5/parsed/{seed}", run(parsed(facility_related_data_5_record, seed)), True
    yield "record5/parsed/blanks", run(parsed(facility_related_data_5_record, 4, blank=0.5)), True
    for flag in (0, 1, 2, -1):
        yield f"record5/parsed/prf-flag/{flag}", run(
            parsed(facility_related_data_5_record, 5, {("prf_switching_flag",): flag})
        )
    for name in (
        "no_calibration",
        "side_of_observation_start",
        "side_of_observation_end",
        "side_of_observation_start_and_end",
    ):
        value = {"no_calibration": 0, "side_of_observation_start": 1, "side_of_observation_end": 2,
                 "side_of_observation_start_and_end": 3}[name]
        yield f"record5/parsed/calibration/{name}", run(
            parsed(facility_related_data_5_record, 6, {("calibration_mode_data_location_flag",): value})
        )
    yield "record5/empty", run({})
    yield "record5/only-ignored", run(
        {"preamble": {}, "spare11": "", "blanks4": "", "record_sequence_number": 1, "system_reserve": ""}
    )
    yield "record5/flag-values", run({"prf_switching_flag": 0})
    yield "record5/flag-string", run({"prf_switching_flag": "0"})
    yield "record5/flag-none", run({"prf_switching_flag": None})
    yield "record5/flag-list", run({"prf_switching_flag": []})
    yield "record5/mid-precision", run(
        {"conversion_from_map_projection_to_pixel": ({"a": [1, 2], "b": [3, 4]}, {"a": "b"})}
    ), True
    yield "record5/high-precision-1", run(
        {"conversion_from_pixel_to_geographic": ({"a": [1, 2], "b": 1.0}, {"d": "e"})}
    ), True
    yield "record5/high-precision-2", run(
        {"conversion_from_geographic_to_pixel": ({"c": [1, 2], "d": 1.0}, {"f": "e"})}
    ), True
    yield "record5/all-three-reordered", run(
        {
            "conversion_from_geographic_to_pixel": ({"c": [1, 2], "d": 1.0}, {"f": "e"}),
            "other": 1,
            "prf_switching_flag": 3,
            "conversion_from_pixel_to_geographic": ({"a": [1, 2], "b": 1.0}, {"d": "e"}),
            "conversion_from_map_projection_to_pixel": ({"a": [1, 2], "b": [3, 4]}, {"a": "b"}),
        }
    ), True
    yield "record5/spares-inside-groups", run(
        {"conversion_from_map_projection_to_pixel": ({"a": [1], "blanks": [2], "spare1": 3}, {"spare": 1})}
    )
    yield "record5/collision-1", run({"prf_switching_flag": 1, "prf_switching": "explicit"})
    yield "record5/collision-2", run({"prf_switching": "explicit", "prf_switching_flag": 0})
    yield "record5/collision-groups", run(
        {
            "projected_to_image": {"x": 1},
            "conversion_from_map_projection_to_pixel": ({"a": [1, 2]}, {}),
        }
    )
    yield "record5/unknown-keys", run(
        {"number_of_loss_lines": {"level1.0": 1, "others": 2}, "x": [1, 2], "y": ([1], {"u": 1})}
    )
    yield "record5/group-not-a-pair", run({"conversion_from_pixel_to_geographic": {"a": [1]}})
    yield "record5/group-scalar", run({"conversion_from_geographic_to_pixel": 5})
    yield "record5/group-too-long", run({"conversion_from_geographic_to_pixel": ({}, {}, {})})
    yield "record5/group-none", run({"conversion_from_map_projection_to_pixel": None})
    yield "record5/group-list-of-dicts", run(
        {"conversion_from_map_projection_to_pixel": [{"a": [1]}, {"u": "v"}]}
    )
    yield "record5/error-order", run(
        {"conversion_from_geographic_to_pixel": 5, "conversion_from_pixel_to_geographic": ({}, {}, {})}
    )
    yield "record5/non-string-keys", run({1: 2})
    yield "record5/none", run(None)
    yield "record5/list", run([{"prf_switching_flag": 0}])
    yield "record5/tuple", run(({"prf_switching_flag": 0}, {"a": 1}))

    def untouched():
        mapping = parsed(facility_related_data_5_record, 9)
        before = copy.deepcopy(mapping)
        first = frd.transform_record5(mapping)
        second = frd.transform_record5(mapping)
        return {
            "input_untouched": canon(before) == canon(mapping),
            "repeatable": canon(first) == canon(second),
        }

    yield "record5/input-untouched-and-repeatable", untouched


def cases():
    yield from auxiliary_cases()
    yield from group_cases()
    yield from record5_cases()


# --------------------------------------------------------------------------
# outcomes recorded from the unchanged code
# --------------------------------------------------------------------------

EXPECTED = {'auxiliary/parsed/1': "('returns',\n"
                       " ('dict',\n"
                       '  [((\'str\', "\'data_type\'"), (\'str\', "\'dummy data\'")),\n'
                       '   ((\'str\', "\'raw_file_data\'"), (\'str\', "\'97VXYRZAHB8Q\'"))]))',
 'auxiliary/parsed/2': "('returns',\n"
                       " ('dict',\n"
                       '  [((\'str\', "\'data_type\'"), (\'str\', "\'determined ephemeris\'")),\n'
                       '   ((\'str\', "\'raw_file_data\'"), (\'str\', "\'AC8Y2APE\'"))]))',
 'auxiliary/parsed/3': "('returns',\n"
                       " ('dict',\n"
                       '  [((\'str\', "\'data_type\'"), (\'str\', "\'time error information\'")),\n'
                       '   ((\'str\', "\'raw_file_data\'"), (\'str\', "\'MOIIW6U6\'"))]))',
 'auxiliary/parsed/4': "('returns',\n"
                       " ('dict',\n"
                       '  [((\'str\', "\'data_type\'"), (\'str\', "\'coordinate conversion '
                       'information\'")),\n'
                       '   ((\'str\', "\'raw_file_data\'"), (\'str\', "\'2F8V7S0R8\'"))]))',
 'auxiliary/parsed/0': "('returns',\n"
                       " ('dict',\n"
                       '  [((\'str\', "\'data_type\'"), (\'NoneType\', \'None\')),\n'
                       '   ((\'str\', "\'raw_file_data\'"), (\'str\', "\'EV1F\'"))]))',
 'auxiliary/parsed/5': "('returns',\n"
                       " ('dict',\n"
                       '  [((\'str\', "\'data_type\'"), (\'NoneType\', \'None\')),\n'
                       '   ((\'str\', "\'raw_file_data\'"), (\'str\', "\'48YY6ZU18CQC\'"))]))',
 'auxiliary/parsed/-1': "('returns',\n"
                        " ('dict',\n"
                        '  [((\'str\', "\'data_type\'"), (\'NoneType\', \'None\')),\n'
                        '   ((\'str\', "\'raw_file_data\'"), (\'str\', "\'SXZBPIG1YU\'"))]))',
 'auxiliary/parsed/no-raw-data': "('returns',\n"
                                 " ('dict',\n"
                                 '  [((\'str\', "\'data_type\'"), (\'NoneType\', \'None\')), ((\'str\', '
                                 '"\'raw_file_data\'"), (\'str\', "\'\'"))]))',
 'auxiliary/parsed/blanks': "('returns',\n"
                            " ('dict',\n"
                            '  [((\'str\', "\'data_type\'"), (\'NoneType\', \'None\')), ((\'str\', '
                            '"\'raw_file_data\'"), (\'str\', "\'\'"))]))',
 'auxiliary/empty': "('returns', ('dict', []))",
 'auxiliary/only-ignored': "('returns', ('dict', []))",
 'auxiliary/kept-spares': "('returns',\n"
                          " ('dict',\n"
                          '  [((\'str\', "\'blanks_x\'"), (\'int\', \'1\')),\n'
                          '   ((\'str\', "\'spare_part\'"), (\'int\', \'2\')),\n'
                          '   ((\'str\', "\'sparerib\'"), (\'int\', \'3\')),\n'
                          '   ((\'str\', "\'blanksx1\'"), (\'int\', \'4\'))]))',
 'auxiliary/order': "('returns',\n"
                    " ('dict',\n"
                    '  [((\'str\', "\'raw_file_data\'"), (\'str\', "\'abc\'")),\n'
                    '   ((\'str\', "\'data_type\'"), (\'str\', "\'determined ephemeris\'")),\n'
                    '   ((\'str\', "\'other\'"), (\'list\', [(\'int\', \'1\'), (\'dict\', [])]))]))',
 'auxiliary/collision-1': '(\'returns\', (\'dict\', [((\'str\', "\'data_type\'"), (\'str\', '
                          '"\'explicit\'"))]))',
 'auxiliary/collision-2': '(\'returns\', (\'dict\', [((\'str\', "\'data_type\'"), (\'str\', "\'time error '
                          'information\'"))]))',
 'auxiliary/number-string': '(\'returns\', (\'dict\', [((\'str\', "\'data_type\'"), (\'NoneType\', '
                            "'None'))]))",
 'auxiliary/number-float': '(\'returns\', (\'dict\', [((\'str\', "\'data_type\'"), (\'str\', "\'determined '
                           'ephemeris\'"))]))',
 'auxiliary/number-bool': '(\'returns\', (\'dict\', [((\'str\', "\'data_type\'"), (\'str\', "\'dummy '
                          'data\'"))]))',
 'auxiliary/number-none': '(\'returns\', (\'dict\', [((\'str\', "\'data_type\'"), (\'NoneType\', '
                          "'None'))]))",
 'auxiliary/number-unhashable': '(\'raises\', \'TypeError\', "unhashable type: \'list\'")',
 'auxiliary/number-dict': '(\'raises\', \'TypeError\', "unhashable type: \'dict\'")',
 'auxiliary/nested-spares': "('returns',\n"
                            " ('dict',\n"
                            '  [((\'str\', "\'a\'"),\n'
                            '    (\'dict\', [((\'str\', "\'b\'"), (\'list\', [(\'dict\', [((\'str\', '
                            '"\'c\'"), (\'int\', \'3\'))])]))])),\n'
                            '   ((\'str\', "\'data_type\'"), (\'str\', "\'coordinate conversion '
                            'information\'"))]))',
 'auxiliary/non-string-keys': '(\'raises\', \'AttributeError\', "\'int\' object has no attribute '
                              '\'startswith\'")',
 'auxiliary/none': '(\'raises\', \'AttributeError\', "\'NoneType\' object has no attribute \'items\'")',
 'auxiliary/list': '(\'raises\', \'AttributeError\', "\'list\' object has no attribute \'items\'")',
 'auxiliary/string': '(\'raises\', \'AttributeError\', "\'str\' object has no attribute \'items\'")',
 'auxiliary/input-untouched': "('returns', ('bool', 'True'))",
 'group/empty': "('returns',\n"
                " ('dict',\n"
                '  [((\'str\', "\'result\'"), (\'tuple\', [(\'dict\', []), (\'dict\', [])])),\n'
                '   ((\'str\', "\'attrs_passed_through\'"), (\'bool\', \'True\'))]))',
 'group/lists': "('returns',\n"
                " ('dict',\n"
                '  [((\'str\', "\'result\'"),\n'
                "    ('tuple',\n"
                "     [('dict',\n"
                '       [((\'str\', "\'a\'"),\n'
                "         ('tuple',\n"
                '          [(\'str\', "\'dim\'"), (\'list\', [(\'float\', \'1.0\'), (\'float\', \'2.0\')]), '
                "('dict', [])])),\n"
                '        ((\'str\', "\'b\'"),\n'
                '         (\'tuple\', [(\'str\', "\'dim\'"), (\'list\', [(\'float\', \'3.0\')]), (\'dict\', '
                '[])]))]),\n'
                '      (\'dict\', [((\'str\', "\'formula\'"), (\'str\', "\'x = a0 + a1\'"))])])),\n'
                '   ((\'str\', "\'attrs_passed_through\'"), (\'bool\', \'True\'))]),\n'
                " ('aliasing', []))",
 'group/scalars': "('returns',\n"
                  " ('dict',\n"
                  '  [((\'str\', "\'result\'"),\n'
                  "    ('tuple',\n"
                  "     [('dict',\n"
                  '       [((\'str\', "\'origin_pixel\'"), (\'tuple\', [(\'tuple\', []), (\'float\', '
                  "'1.5'), ('dict', [])])),\n"
                  '        ((\'str\', "\'origin_line\'"), (\'tuple\', [(\'tuple\', []), (\'int\', \'-2\'), '
                  "('dict', [])]))]),\n"
                  '      (\'dict\', [((\'str\', "\'formula\'"), (\'str\', "\'x = a0 + a1\'"))])])),\n'
                  '   ((\'str\', "\'attrs_passed_through\'"), (\'bool\', \'True\'))]))',
 'group/mixed': "('returns',\n"
                " ('dict',\n"
                '  [((\'str\', "\'result\'"),\n'
                "    ('tuple',\n"
                "     [('dict',\n"
                '       [((\'str\', "\'a\'"), (\'tuple\', [(\'str\', "\'coeffs\'"), (\'list\', [(\'int\', '
                "'1')]), ('dict', [])])),\n"
                '        ((\'str\', "\'b\'"), (\'tuple\', [(\'tuple\', []), (\'int\', \'2\'), (\'dict\', '
                '[])])),\n'
                '        ((\'str\', "\'c\'"), (\'tuple\', [(\'str\', "\'coeffs\'"), (\'list\', []), '
                "('dict', [])])),\n"
                '        ((\'str\', "\'d\'"), (\'tuple\', [(\'tuple\', []), (\'NoneType\', \'None\'), '
                "('dict', [])])),\n"
                '        ((\'str\', "\'e\'"), (\'tuple\', [(\'tuple\', []), (\'str\', "\'txt\'"), (\'dict\', '
                '[])]))]),\n'
                '      (\'dict\', [((\'str\', "\'formula\'"), (\'str\', "\'x = a0 + a1\'"))])])),\n'
                '   ((\'str\', "\'attrs_passed_through\'"), (\'bool\', \'True\'))]))',
 'group/tuple-value': "('returns',\n"
                      " ('dict',\n"
                      '  [((\'str\', "\'result\'"),\n'
                      "    ('tuple',\n"
                      "     [('dict',\n"
                      '       [((\'str\', "\'a\'"),\n'
                      "         ('tuple', [('tuple', []), ('tuple', [('int', '1'), ('int', '2')]), ('dict', "
                      '[])]))]),\n'
                      "      ('dict', [])])),\n"
                      '   ((\'str\', "\'attrs_passed_through\'"), (\'bool\', \'True\'))]))',
 'group/array-value': "('returns',\n"
                      " ('dict',\n"
                      '  [((\'str\', "\'result\'"),\n'
                      "    ('tuple',\n"
                      "     [('dict',\n"
                      '       [((\'str\', "\'a\'"),\n'
                      "         ('tuple', [('tuple', []), ('ndarray', 'int64', (3,), '[0, 1, 2]'), ('dict', "
                      '[])]))]),\n'
                      "      ('dict', [])])),\n"
                      '   ((\'str\', "\'attrs_passed_through\'"), (\'bool\', \'True\'))]))',
 'group/list-subclass': "('returns',\n"
                        " ('dict',\n"
                        '  [((\'str\', "\'result\'"),\n'
                        "    ('tuple',\n"
                        "     [('dict',\n"
                        '       [((\'str\', "\'a\'"), (\'tuple\', [(\'tuple\', []), (\'object\', '
                        "'UserList', '[1]'), ('dict', [])])),\n"
                        '        ((\'str\', "\'b\'"), (\'tuple\', [(\'str\', "\'dim\'"), (\'L\', [(\'int\', '
                        "'1')]), ('dict', [])]))]),\n"
                        "      ('dict', [])])),\n"
                        '   ((\'str\', "\'attrs_passed_through\'"), (\'bool\', \'True\'))]))',
 'group/nested-list': "('returns',\n"
                      " ('dict',\n"
                      '  [((\'str\', "\'result\'"),\n'
                      "    ('tuple',\n"
                      "     [('dict',\n"
                      '       [((\'str\', "\'a\'"),\n'
                      "         ('tuple',\n"
                      '          [(\'str\', "\'dim\'"),\n'
                      "           ('list', [('list', [('int', '1'), ('int', '2')]), ('list', [('int', "
                      "'3')])]),\n"
                      "           ('dict', [])]))]),\n"
                      "      ('dict', [])])),\n"
                      '   ((\'str\', "\'attrs_passed_through\'"), (\'bool\', \'True\'))]))',
 'group/dict-value': "('returns',\n"
                     " ('dict',\n"
                     '  [((\'str\', "\'result\'"),\n'
                     "    ('tuple',\n"
                     "     [('dict',\n"
                     '       [((\'str\', "\'a\'"),\n'
                     "         ('tuple',\n"
                     '          [(\'tuple\', []), (\'dict\', [((\'str\', "\'b\'"), (\'list\', [(\'int\', '
                     "'1')]))]), ('dict', [])]))]),\n"
                     "      ('dict', [])])),\n"
                     '   ((\'str\', "\'attrs_passed_through\'"), (\'bool\', \'True\'))]))',
 'group/dim-list': "('returns',\n"
                   " ('dict',\n"
                   '  [((\'str\', "\'result\'"),\n'
                   "    ('tuple',\n"
                   "     [('dict',\n"
                   '       [((\'str\', "\'a\'"),\n'
                   "         ('tuple',\n"
                   '          [(\'list\', [(\'str\', "\'x\'"), (\'str\', "\'y\'")]), (\'list\', [(\'int\', '
                   "'1')]), ('dict', [])])),\n"
                   '        ((\'str\', "\'b\'"), (\'tuple\', [(\'tuple\', []), (\'int\', \'2\'), (\'dict\', '
                   '[])]))]),\n'
                   "      ('dict', [])])),\n"
                   '   ((\'str\', "\'attrs_passed_through\'"), (\'bool\', \'True\'))]),\n'
                   " ('aliasing', []))",
 'group/dim-tuple': "('returns',\n"
                    " ('dict',\n"
                    '  [((\'str\', "\'result\'"),\n'
                    "    ('tuple',\n"
                    "     [('dict',\n"
                    '       [((\'str\', "\'a\'"),\n'
                    '         (\'tuple\', [(\'tuple\', [(\'str\', "\'x\'")]), (\'list\', [(\'int\', '
                    "'1')]), ('dict', [])])),\n"
                    '        ((\'str\', "\'b\'"), (\'tuple\', [(\'tuple\', []), (\'int\', \'2\'), (\'dict\', '
                    '[])]))]),\n'
                    "      ('dict', [])])),\n"
                    '   ((\'str\', "\'attrs_passed_through\'"), (\'bool\', \'True\'))]))',
 'group/dim-none': "('returns',\n"
                   " ('dict',\n"
                   '  [((\'str\', "\'result\'"),\n'
                   "    ('tuple',\n"
                   "     [('dict',\n"
                   '       [((\'str\', "\'a\'"), (\'tuple\', [(\'NoneType\', \'None\'), (\'list\', '
                   "[('int', '1')]), ('dict', [])])),\n"
                   '        ((\'str\', "\'b\'"), (\'tuple\', [(\'tuple\', []), (\'int\', \'2\'), (\'dict\', '
                   '[])]))]),\n'
                   "      ('dict', [])])),\n"
                   '   ((\'str\', "\'attrs_passed_through\'"), (\'bool\', \'True\'))]))',
 'group/keyword-call': "('returns',\n"
                       " ('dict',\n"
                       '  [((\'str\', "\'result\'"),\n'
                       "    ('tuple',\n"
                       "     [('dict',\n"
                       '       [((\'str\', "\'a\'"), (\'tuple\', [(\'str\', "\'dim\'"), (\'list\', '
                       "[('int', '1')]), ('dict', [])])),\n"
                       '        ((\'str\', "\'b\'"), (\'tuple\', [(\'tuple\', []), (\'int\', \'2\'), '
                       "('dict', [])]))]),\n"
                       '      (\'dict\', [((\'str\', "\'formula\'"), (\'str\', "\'x = a0 + a1\'"))])])),\n'
                       '   ((\'str\', "\'attrs_passed_through\'"), (\'bool\', \'True\'))]))',
 'group/attrs-not-dict': "('returns',\n"
                         " ('dict',\n"
                         '  [((\'str\', "\'result\'"),\n'
                         "    ('tuple',\n"
                         "     [('dict',\n"
                         '       [((\'str\', "\'a\'"), (\'tuple\', [(\'str\', "\'dim\'"), (\'list\', '
                         "[('int', '1')]), ('dict', [])]))]),\n"
                         '      (\'str\', "\'attrs\'")])),\n'
                         '   ((\'str\', "\'attrs_passed_through\'"), (\'bool\', \'True\'))]))',
 'group/list-pair': "('returns',\n"
                    " ('dict',\n"
                    '  [((\'str\', "\'result\'"),\n'
                    "    ('tuple',\n"
                    "     [('dict',\n"
                    '       [((\'str\', "\'a\'"), (\'tuple\', [(\'str\', "\'dim\'"), (\'list\', [(\'int\', '
                    "'1')]), ('dict', [])]))]),\n"
                    '      (\'dict\', [((\'str\', "\'formula\'"), (\'str\', "\'x = a0 + a1\'"))])])),\n'
                    '   ((\'str\', "\'attrs_passed_through\'"), (\'bool\', \'False\'))]))',
 'group/ordered-dict': "('returns',\n"
                       " ('dict',\n"
                       '  [((\'str\', "\'result\'"),\n'
                       "    ('tuple',\n"
                       "     [('dict',\n"
                       '       [((\'str\', "\'b\'"), (\'tuple\', [(\'str\', "\'dim\'"), (\'list\', '
                       "[('int', '1')]), ('dict', [])])),\n"
                       '        ((\'str\', "\'a\'"), (\'tuple\', [(\'tuple\', []), (\'int\', \'2\'), '
                       "('dict', [])]))]),\n"
                       '      (\'dict\', [((\'str\', "\'formula\'"), (\'str\', "\'x = a0 + a1\'"))])])),\n'
                       '   ((\'str\', "\'attrs_passed_through\'"), (\'bool\', \'True\'))]))',
 'group/non-string-keys': "('returns',\n"
                          " ('dict',\n"
                          '  [((\'str\', "\'result\'"),\n'
                          "    ('tuple',\n"
                          "     [('dict',\n"
                          '       [((\'int\', \'1\'), (\'tuple\', [(\'str\', "\'dim\'"), (\'list\', '
                          "[('int', '1')]), ('dict', [])])),\n"
                          "        (('tuple', [('int', '2'), ('int', '3')]),\n"
                          "         ('tuple', [('tuple', []), ('int', '4'), ('dict', [])]))]),\n"
                          "      ('dict', [])])),\n"
                          '   ((\'str\', "\'attrs_passed_through\'"), (\'bool\', \'True\'))]))',
 'group/too-many': "('raises', 'ValueError', 'too many values to unpack (expected 2)')",
 'group/too-few': "('raises', 'ValueError', 'not enough values to unpack (expected 2, got 1)')",
 'group/bare-dict-2': '(\'raises\', \'AttributeError\', "\'str\' object has no attribute \'keys\'")',
 'group/bare-dict-1': "('raises', 'ValueError', 'not enough values to unpack (expected 2, got 1)')",
 'group/scalar': "('raises', 'TypeError', 'cannot unpack non-iterable int object')",
 'group/none': "('raises', 'TypeError', 'cannot unpack non-iterable NoneType object')",
 'group/first-not-mapping': '(\'raises\', \'AttributeError\', "\'list\' object has no attribute \'keys\'")',
 'group/first-none': '(\'raises\', \'AttributeError\', "\'NoneType\' object has no attribute \'keys\'")',
 'group/string-pair': '(\'raises\', \'AttributeError\', "\'str\' object has no attribute \'keys\'")',
 'group/missing-dim': '(\'raises\', \'TypeError\', "transform_group() missing 1 required positional '
                      'argument: \'dim\'")',
 'group/fresh-attrs': "('returns',\n"
                      " ('dict',\n"
                      '  [((\'str\', "\'independent_attrs\'"), (\'bool\', \'True\')),\n'
                      '   ((\'str\', "\'values_passed_through\'"), (\'bool\', \'True\'))]))',
 'record5/parsed/1': 'sha256:ca74867e5e0406428404e5f1c19b3cd0d6572bfe33d808552ab4b3fcfe8fbbfd:len=9412',
 'record5/parsed/2': 'sha256:fb8aedebec1737e2c366eb8bc2d13326ab69087af17697f5b23b80a318e2b577:len=9424',
 'record5/parsed/3': 'sha256:a208d83bcd4a1648ad199d10880ae5ce6e8381ea7f93b120d4ca9fdcf541ca30:len=9403',
 'record5/parsed/blanks': 'sha256:826f6c37192ccdb4250dc2cdf44e4825ea5bd0940b75cf76ef2b40f08870fa80:len=8708',
 'record5/parsed/prf-flag/0': 'sha256:ba211d87fa38fce9f277ff4fe41a544d2425357e50c46feb56c507eb7f3583a3:len=9360',
 'record5/parsed/prf-flag/1': 'sha256:4a9c8adede8a2a823687af9ab7cefb889c71bd06dd81937552f7ffb80e272263:len=9359',
 'record5/parsed/prf-flag/2': 'sha256:4a9c8adede8a2a823687af9ab7cefb889c71bd06dd81937552f7ffb80e272263:len=9359',
 'record5/parsed/prf-flag/-1': 'sha256:4a9c8adede8a2a823687af9ab7cefb889c71bd06dd81937552f7ffb80e272263:len=9359',
 'record5/parsed/calibration/no_calibration': 'sha256:5a2ad08024173b635597c169751ef71626ba34bf9049094feac7bec34b7cdfd9:len=9360',
 'record5/parsed/calibration/side_of_observation_start': 'sha256:1769c927bf2debb431e33d9b015c7b15080193bb5af8b257c1a6731aeef39e13:len=9371',
 'record5/parsed/calibration/side_of_observation_end': 'sha256:2b285584c23c1827892eb62a7839f4865134f68152344771830c7276737a824d:len=9369',
 'record5/parsed/calibration/side_of_observation_start_and_end': 'sha256:8246b245e10790b99a073d74c024da3a83167b45d1f67471c3676437a5786640:len=9385',
 'record5/empty': "('returns', ('Group', ('path', '/'), ('url', None), ('attrs', ('dict', [])), ('data', "
                  '[])))',
 'record5/only-ignored': "('returns', ('Group', ('path', '/'), ('url', None), ('attrs', ('dict', [])), "
                         "('data', [])))",
 'record5/flag-values': "('returns',\n"
                        " ('Group',\n"
                        "  ('path', '/'),\n"
                        "  ('url', None),\n"
                        '  (\'attrs\', (\'dict\', [((\'str\', "\'prf_switching\'"), (\'bool\', '
                        "'False'))])),\n"
                        "  ('data', [])))",
 'record5/flag-string': "('returns',\n"
                        " ('Group',\n"
                        "  ('path', '/'),\n"
                        "  ('url', None),\n"
                        '  (\'attrs\', (\'dict\', [((\'str\', "\'prf_switching\'"), (\'bool\', '
                        "'True'))])),\n"
                        "  ('data', [])))",
 'record5/flag-none': "('returns',\n"
                      " ('Group',\n"
                      "  ('path', '/'),\n"
                      "  ('url', None),\n"
                      '  (\'attrs\', (\'dict\', [((\'str\', "\'prf_switching\'"), (\'bool\', '
                      "'False'))])),\n"
                      "  ('data', [])))",
 'record5/flag-list': "('returns',\n"
                      " ('Group',\n"
                      "  ('path', '/'),\n"
                      "  ('url', None),\n"
                      '  (\'attrs\', (\'dict\', [((\'str\', "\'prf_switching\'"), (\'bool\', '
                      "'False'))])),\n"
                      "  ('data', [])))",
 'record5/mid-precision': "('returns',\n"
                          " ('Group',\n"
                          "  ('path', '/'),\n"
                          "  ('url', None),\n"
                          "  ('attrs', ('dict', [])),\n"
                          "  ('data',\n"
                          "   [('projected_to_image',\n"
                          "     ('Group',\n"
                          "      ('path', '/projected_to_image'),\n"
                          "      ('url', None),\n"
                          '      (\'attrs\', (\'dict\', [((\'str\', "\'a\'"), (\'str\', "\'b\'"))])),\n'
                          "      ('data',\n"
                          "       [('a',\n"
                          "         ('Variable',\n"
                          '          (\'list\', [(\'str\', "\'mid_precision_coeffs\'")]),\n'
                          "          ('list', [('int', '1'), ('int', '2')]),\n"
                          "          ('dict', []))),\n"
                          "        ('b',\n"
                          "         ('Variable',\n"
                          '          (\'list\', [(\'str\', "\'mid_precision_coeffs\'")]),\n'
                          "          ('list', [('int', '3'), ('int', '4')]),\n"
                          "          ('dict', [])))])))])),\n"
                          " ('aliasing', []))",
 'record5/high-precision-1': "('returns',\n"
                             " ('Group',\n"
                             "  ('path', '/'),\n"
                             "  ('url', None),\n"
                             "  ('attrs', ('dict', [])),\n"
                             "  ('data',\n"
                             "   [('image_to_geographic',\n"
                             "     ('Group',\n"
                             "      ('path', '/image_to_geographic'),\n"
                             "      ('url', None),\n"
                             '      (\'attrs\', (\'dict\', [((\'str\', "\'d\'"), (\'str\', "\'e\'"))])),\n'
                             "      ('data',\n"
                             "       [('a',\n"
                             "         ('Variable',\n"
                             '          (\'list\', [(\'str\', "\'high_precision_coeffs\'")]),\n'
                             "          ('list', [('int', '1'), ('int', '2')]),\n"
                             "          ('dict', []))),\n"
                             "        ('b', ('Variable', ('tuple', []), ('float', '1.0'), ('dict', "
                             '[])))])))])),\n'
                             " ('aliasing', []))",
 'record5/high-precision-2': "('returns',\n"
                             " ('Group',\n"
                             "  ('path', '/'),\n"
                             "  ('url', None),\n"
                             "  ('attrs', ('dict', [])),\n"
                             "  ('data',\n"
                             "   [('geographic_to_image',\n"
                             "     ('Group',\n"
                             "      ('path', '/geographic_to_image'),\n"
                             "      ('url', None),\n"
                             '      (\'attrs\', (\'dict\', [((\'str\', "\'f\'"), (\'str\', "\'e\'"))])),\n'
                             "      ('data',\n"
                             "       [('c',\n"
                             "         ('Variable',\n"
                             '          (\'list\', [(\'str\', "\'high_precision_coeffs\'")]),\n'
                             "          ('list', [('int', '1'), ('int', '2')]),\n"
                             "          ('dict', []))),\n"
                             "        ('d', ('Variable', ('tuple', []), ('float', '1.0'), ('dict', "
                             '[])))])))])),\n'
                             " ('aliasing', []))",
 'record5/all-three-reordered': 'sha256:9ff33c20838fbe8302e54614c2835becbc7ed34ab534d42aa9d45e44fafb34b3:len=1587',
 'record5/spares-inside-groups': "('returns',\n"
                                 " ('Group',\n"
                                 "  ('path', '/'),\n"
                                 "  ('url', None),\n"
                                 "  ('attrs', ('dict', [])),\n"
                                 "  ('data',\n"
                                 "   [('projected_to_image',\n"
                                 "     ('Group',\n"
                                 "      ('path', '/projected_to_image'),\n"
                                 "      ('url', None),\n"
                                 '      (\'attrs\', (\'dict\', [((\'str\', "\'spare\'"), (\'int\', '
                                 "'1'))])),\n"
                                 "      ('data',\n"
                                 "       [('a',\n"
                                 "         ('Variable',\n"
                                 '          (\'list\', [(\'str\', "\'mid_precision_coeffs\'")]),\n'
                                 "          ('list', [('int', '1')]),\n"
                                 "          ('dict', []))),\n"
                                 "        ('blanks',\n"
                                 "         ('Variable',\n"
                                 '          (\'list\', [(\'str\', "\'mid_precision_coeffs\'")]),\n'
                                 "          ('list', [('int', '2')]),\n"
                                 "          ('dict', []))),\n"
                                 "        ('spare1', ('Variable', ('tuple', []), ('int', '3'), ('dict', "
                                 '[])))])))])))',
 'record5/collision-1': "('returns',\n"
                        " ('Group',\n"
                        "  ('path', '/'),\n"
                        "  ('url', None),\n"
                        '  (\'attrs\', (\'dict\', [((\'str\', "\'prf_switching\'"), (\'str\', '
                        '"\'explicit\'"))])),\n'
                        "  ('data', [])))",
 'record5/collision-2': "('returns',\n"
                        " ('Group',\n"
                        "  ('path', '/'),\n"
                        "  ('url', None),\n"
                        '  (\'attrs\', (\'dict\', [((\'str\', "\'prf_switching\'"), (\'bool\', '
                        "'False'))])),\n"
                        "  ('data', [])))",
 'record5/collision-groups': "('returns',\n"
                             " ('Group',\n"
                             "  ('path', '/'),\n"
                             "  ('url', None),\n"
                             "  ('attrs', ('dict', [])),\n"
                             "  ('data',\n"
                             "   [('projected_to_image',\n"
                             "     ('Group',\n"
                             "      ('path', '/projected_to_image'),\n"
                             "      ('url', None),\n"
                             "      ('attrs', ('dict', [])),\n"
                             "      ('data',\n"
                             "       [('a',\n"
                             "         ('Variable',\n"
                             '          (\'list\', [(\'str\', "\'mid_precision_coeffs\'")]),\n'
                             "          ('list', [('int', '1'), ('int', '2')]),\n"
                             "          ('dict', [])))])))])))",
 'record5/unknown-keys': "('returns',\n"
                         " ('Group',\n"
                         "  ('path', '/'),\n"
                         "  ('url', None),\n"
                         "  ('attrs', ('dict', [])),\n"
                         "  ('data',\n"
                         "   [('x', ('Variable', ('tuple', []), ('int', '1'), ('int', '2'))),\n"
                         "    ('y',\n"
                         "     ('Variable',\n"
                         "      ('tuple', []),\n"
                         "      ('list', [('int', '1')]),\n"
                         '      (\'dict\', [((\'str\', "\'u\'"), (\'int\', \'1\'))]))),\n'
                         "    ('number_of_loss_lines',\n"
                         "     ('Group',\n"
                         "      ('path', '/number_of_loss_lines'),\n"
                         "      ('url', None),\n"
                         "      ('attrs',\n"
                         '       (\'dict\', [((\'str\', "\'level1.0\'"), (\'int\', \'1\')), ((\'str\', '
                         '"\'others\'"), (\'int\', \'2\'))])),\n'
                         "      ('data', [])))])))",
 'record5/group-not-a-pair': "('raises', 'ValueError', 'not enough values to unpack (expected 2, got 1)')",
 'record5/group-scalar': "('raises', 'TypeError', 'cannot unpack non-iterable int object')",
 'record5/group-too-long': "('raises', 'ValueError', 'too many values to unpack (expected 2)')",
 'record5/group-none': "('raises', 'TypeError', 'cannot unpack non-iterable NoneType object')",
 'record5/group-list-of-dicts': "('returns',\n"
                                " ('Group',\n"
                                "  ('path', '/'),\n"
                                "  ('url', None),\n"
                                "  ('attrs', ('dict', [])),\n"
                                "  ('data',\n"
                                "   [('projected_to_image',\n"
                                "     ('Group',\n"
                                "      ('path', '/projected_to_image'),\n"
                                "      ('url', None),\n"
                                '      (\'attrs\', (\'dict\', [((\'str\', "\'u\'"), (\'str\', "\'v\'"))])),\n'
                                "      ('data',\n"
                                "       [('a',\n"
                                "         ('Variable',\n"
                                '          (\'list\', [(\'str\', "\'mid_precision_coeffs\'")]),\n'
                                "          ('list', [('int', '1')]),\n"
                                "          ('dict', [])))])))])))",
 'record5/error-order': "('raises', 'TypeError', 'cannot unpack non-iterable int object')",
 'record5/non-string-keys': '(\'raises\', \'AttributeError\', "\'int\' object has no attribute '
                            '\'startswith\'")',
 'record5/none': '(\'raises\', \'AttributeError\', "\'NoneType\' object has no attribute \'items\'")',
 'record5/list': '(\'raises\', \'AttributeError\', "\'list\' object has no attribute \'items\'")',
 'record5/tuple': '(\'raises\', \'AttributeError\', "\'tuple\' object has no attribute \'items\'")',
 'record5/input-untouched-and-repeatable': "('returns',\n"
                                           " ('dict',\n"
                                           '  [((\'str\', "\'input_untouched\'"), (\'bool\', \'True\')), '
                                           '((\'str\', "\'repeatable\'"), (\'bool\', \'True\'))]))'}


def test_equivalence():
    actual, problems = check(list(cases()), EXPECTED)
    assert len(actual) == len(EXPECTED)
    assert not problems, "\n".join(problems)


if __name__ == "__main__":
    sys.exit(main(list(cases()), EXPECTED))
