"""Equivalence check for refactoring 3 (ceos_alos2/utils.py, ceos_alos2/dicttoolz.py).

Run as
    cd <worktree> && PYTHONPATH=<worktree> /venv/bin/python _eq/3/equiv.py

The expected values below were produced by the UNCHANGED code; the script must
pass both with and without the patch applied.
"""

import datetime
from collections import namedtuple

from construct import Array, Bytes, Container, Enum, EnumIntegerString, Int8ub, ListContainer, Struct

from ceos_alos2 import dicttoolz as DT
from ceos_alos2 import utils as U


def outcome(f, *args, **kwargs):
    try:
        return f(*args, **kwargs)
    except Exception as e:  # noqa: BLE001
        return "EXC " + type(e).__name__


def check(label, actual, expected):
    # the repr also pins dict order and list / tuple distinctions
    assert type(actual) is type(expected), f"{label}: got {actual!r}, expected {expected!r}"
    assert repr(actual) == repr(expected), f"{label}: got {actual!r}, expected {expected!r}"


# === utils.to_dict ==============================================================
struct = Struct(
    "a" / Int8ub,
    "e" / Enum(Int8ub, one=1, two=2),
    "arr" / Array(2, Int8ub),
    "n" / Struct("x" / Int8ub, "b" / Bytes(1)),
    "arrs" / Array(2, Struct("y" / Int8ub)),
)
converted = U.to_dict(struct.parse(b"\x05\x02\x01\x02\x07z\x08\x09"))
check(
    "to_dict parsed",
    converted,
    {"a": 5, "e": "two", "arr": [1, 2], "n": {"x": 7, "b": b"z"}, "arrs": [{"y": 8}, {"y": 9}]},
)
assert type(converted["e"]) is str
assert type(converted["arr"]) is list and type(converted["arrs"]) is list
assert type(converted["n"]) is dict and type(converted["arrs"][0]) is dict

# unknown enum value: construct yields an EnumInteger (an int), passed through
unknown = U.to_dict(struct.parse(b"\x05\x09\x01\x02\x07z\x08\x09"))["e"]
assert unknown == 9 and type(unknown).__name__ == "EnumInteger"

dtm = datetime.datetime(2020, 1, 2)
for value, expected in [
    (5, 5),
    (1.5, 1.5),
    ("s", "s"),
    (b"b", b"b"),
    (1j, 1j),
    (dtm, dtm),
    (True, True),
    (None, "EXC AttributeError"),
    ([1, (2, {"a": [3]})], [1, (2, {"a": [3]})]),
    ((), ()),
    ([], []),
    ({}, {}),
    ({"_io": 1, "a": {"_io": 2, "b": 3}}, {"a": {"b": 3}}),
    (ListContainer([1, ListContainer([2])]), [1, [2]]),
    (Container(a=1, _io=None), {"a": 1}),
    (datetime.date(2020, 1, 1), "EXC AttributeError"),
    ({1, 2}, "EXC AttributeError"),
    ({"a": None}, "EXC AttributeError"),
    (EnumIntegerString.new(3, "three"), "three"),
]:
    check(f"to_dict {value!r}", outcome(U.to_dict, value), expected)
for scalar in (5, 1.5, "s", b"b", 1j, dtm):
    assert U.to_dict(scalar) is scalar

NT = namedtuple("NT", "a b")


class L(list):
    pass


check("to_dict namedtuple", outcome(U.to_dict, NT(1, 2)), "EXC TypeError")
assert type(U.to_dict(L([1, 2]))) is L and U.to_dict(L([1, 2])) == [1, 2]
assert type(U.to_dict(ListContainer([1]))) is list

# === utils.rename ===============================================================
for args, expected in [
    (({"a": 1, "b": 2, "c": 3}, {"a": "x", "c": "z"}), {"x": 1, "b": 2, "z": 3}),
    (({"a": 1, "b": 2}, {"a": "b"}), {"b": 2}),  # collision: later value wins
    (({"a": 1, "b": 2}, {"b": "a"}), {"a": 2}),
    (({}, {"a": "b"}), {}),
    (({"a": 1}, {}), {"a": 1}),
    (({"a": 1, "b": 2}, {"a": "b", "b": "a"}), {"b": 1, "a": 2}),
    (({("t",): 1}, {("t",): "x"}), {"x": 1}),
    (([1], {}), "EXC AttributeError"),
    (({"a": 1}, None), "EXC AttributeError"),
    (({}, None), {}),
]:
    check(f"rename {args!r}", outcome(U.rename, *args), expected)

# === utils.remove_nesting_layer ===================================================
for mapping, expected in [
    ({"a": {"x": 1, "y": 2}, "b": 3, "c": {"z": {"w": 1}}}, {"x": 1, "y": 2, "b": 3, "z": {"w": 1}}),
    ({"a": {"x": 1}, "x": 2}, {"x": 2}),  # collisions: later wins, first position kept
    ({"x": 2, "a": {"x": 1}}, {"x": 1}),
    ({"a": {"b": 0, "x": 1}, "b": {"x": 2}}, {"b": 0, "x": 2}),
    ({}, {}),
    ({"a": {}}, {}),
    ({"a": [{"x": 1}]}, {"a": [{"x": 1}]}),
    ([1], "EXC AttributeError"),
    ({"a": {"a": {"a": 1}}}, {"a": {"a": 1}}),
    (Container(a=Container(x=1), b=2), {"x": 1, "b": 2}),
]:
    check(f"remove_nesting_layer {mapping!r}", outcome(U.remove_nesting_layer, mapping), expected)
source = {"b": 3}
assert U.remove_nesting_layer(source) is not source

check("unique", U.unique([3, 1, 3, 2, 1]), [3, 1, 2])
check("starcall", U.starcall(lambda a, b, c=0: (a, b, c), (1, 2), c=3), (1, 2, 3))

# === dicttoolz ====================================================================
d = {"a": 1, "b": 2, "c": 3, "d": 0}
check("itemsplit", DT.itemsplit(lambda it: it[1] > 1, d), ({"b": 2, "c": 3}, {"a": 1, "d": 0}))
check("valsplit", DT.valsplit(lambda v: v % 2 == 0, d), ({"b": 2, "d": 0}, {"a": 1, "c": 3}))
check("keysplit", DT.keysplit(lambda k: k in "ab", d), ({"a": 1, "b": 2}, {"c": 3, "d": 0}))
# non-bool predicate results: only values equal to True / False are kept
check("valsplit non-bool", DT.valsplit(lambda v: v, d), ({"a": 1}, {"d": 0}))
check("keysplit None", DT.keysplit(lambda k: None, d), ({}, {}))
check("valsplit empty", DT.valsplit(lambda v: v > 1, {}), ({}, {}))
check("keysplit raising", outcome(DT.keysplit, lambda k: k.x, d), "EXC AttributeError")

check("assoc", DT.assoc("k", 1, {"a": 0}), {"a": 0, "k": 1})

for keys, mapping, expected in [
    (["a", "c"], d, {"b": 2, "d": 0}),
    ([], d, d),
    ("ab", d, {"c": 3, "d": 0}),
    ({"a"}, {}, {}),
    (None, d, "EXC TypeError"),
    (["z"], d, d),
    (5, {}, {}),
    (5, d, "EXC TypeError"),
]:
    check(f"dissoc {keys!r}", outcome(DT.dissoc, keys, mapping), expected)
assert DT.dissoc([], d) is not d

for mappings, kwargs, expected in [
    (({"a": 1, "b": 2}, {"b": 3, "c": 4}), {}, {"a": [1, None], "b": [2, 3], "c": [None, 4]}),
    (({"a": 1}, {"b": 2}), {"default": 0}, {"a": [1, 0], "b": [0, 2]}),
    ((), {}, {}),
    (({},), {}, {}),
    (({"a": 1},), {}, {"a": [1]}),
    (
        ({"b": 1, "a": 2}, {"a": 3, "b": 4}, {"c": 5}),
        {},
        {"b": [1, 4, None], "a": [2, 3, None], "c": [None, None, 5]},
    ),
    (({"a": 1}, None), {}, "EXC TypeError"),
    (({"a": 1}, ["a"]), {}, "EXC AttributeError"),
]:
    check(f"zip_default {mappings!r}", outcome(DT.zip_default, *mappings, **kwargs), expected)

check("apply_to_items", DT.apply_to_items({"a": str}, {"a": 1, "b": 2}), {"a": "1", "b": 2})

m = {"a": {"b": {"c": 1}}, "d": 2}
pristine = {"a": {"b": {"c": 1}}, "d": 2}
check(
    "copy_items",
    outcome(
        DT.copy_items,
        {("x", "y"): ["a", "b", "c"], ("z",): ["d"], ("q",): ["nope"], ("a", "b", "e"): ["d"]},
        m,
    ),
    {"a": {"b": {"c": 1, "e": 2}}, "d": 2, "x": {"y": 1}, "z": 2},
)
assert m == pristine
assert DT.copy_items({}, m) is m
assert DT.copy_items({("x",): ["a", "zz", "c"]}, m) is m  # missing source -> untouched
assert DT.copy_items({("x",): ["d", "zz"]}, m) is m  # subscripting an int -> treated as missing
check("copy_items empty dest", outcome(DT.copy_items, {(): ["d"]}, m), "EXC StopIteration")
copied = DT.copy_items({("x",): ["a", "b"]}, m)
assert copied["x"] is m["a"]["b"] and copied["a"] is m["a"]

check(
    "move_items",
    outcome(DT.move_items, {("x", "y"): ["a", "b", "c"], ("z",): ["d"], ("q",): ["nope"]}, m),
    {"a": {"b": {}}, "x": {"y": 1}, "z": 2},
)
assert m == pristine
for instructions, expected in [
    ({}, pristine),
    ({("x",): ["a", "nope", "c"]}, pristine),
    ({("x",): ["a", "b"]}, {"a": {}, "d": 2, "x": {"c": 1}}),
    ({("d",): ["a", "b", "c"]}, {"a": {"b": {}}, "d": 1}),
    ({("x",): []}, "EXC ValueError"),
    ({("x",): ["d", "c"]}, "EXC AttributeError"),
]:
    check(f"move_items {instructions!r}", outcome(DT.move_items, instructions, m), expected)
    assert m == pristine
moved = DT.move_items({}, m)
assert moved is not m and moved["a"] is not m["a"]

for key, mapping, expected in [
    ("a", m, True),
    ("a.b.c", m, True),
    ("a.b.x", m, False),
    (["a", "b"], m, True),
    ("z", m, False),
    (".", m, False),
    ("", {"": 1}, True),
    ("d.x", m, False),
    (("a", "b"), m, False),
    ([], m, True),
    (5, {5: 1}, "EXC TypeError"),
    ("a", {"a": None}, True),
]:
    check(f"key_exists {key!r}", outcome(DT.key_exists, key, mapping), expected)

print("refactoring 3: all equivalence checks passed")
