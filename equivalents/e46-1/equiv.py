"""Equivalence check for refactoring 1 (ASCII number adapters in ceos_alos2/datatypes.py).

Run as ``python equiv.py`` or through pytest.  The expected values were recorded
from the unchanged code (HEAD) and must be reproduced with and without the patch.
"""

import construct

from ceos_alos2 import datatypes


def outcome(func, *args, **kwargs):
    try:
        value = func(*args, **kwargs)
    except Exception as e:  # noqa: BLE001
        return f"raised {type(e).__module__}.{type(e).__qualname__}: {e}"
    return f"{type(value).__name__} {value!r}"


INTEGER_CASES = [
    (2, b"15"),
    (4, b"3989"),
    (4, b"  16"),
    (4, b"16  "),
    (4, b" 16 "),
    (4, b"    "),
    (4, b"\t\n\r "),
    (4, b"0000"),
    (4, b"  -7"),
    (4, b"  +7"),
    (4, b"-  7"),
    (4, b"1_00"),
    (4, b"1 00"),
    (4, b"12.5"),
    (4, b"abcd"),
    (4, b"0x1f"),
    (4, b"\x00\x00\x00\x00"),
    (4, b"12\x00\x00"),
    (4, b"\x00\x0012"),
    (4, b" \x00 \x00"),
    (4, b"12\xff4"),
    (4, b"123"),
    (4, b""),
    (0, b""),
    (1, b" "),
    (1, b"7"),
    (8, b"12345678"),
    (16, b"    123456789012"),
    (6, b"123456trailing"),
]

FLOAT_CASES = [
    (8, b"1558.423"),
    (8, b" 165.820"),
    (8, b"165.820 "),
    (8, b"        "),
    (8, b"\t       "),
    (16, b"162436598487.832"),
    (16, b"     6598487.832"),
    (8, b"     nan"),
    (8, b"     NaN"),
    (8, b"     inf"),
    (8, b"    -inf"),
    (8, b"Infinity"),
    (8, b"    1e-3"),
    (8, b" 1.5E+10"),
    (8, b"   1e999"),
    (8, b"    -0.0"),
    (8, b"      -0"),
    (8, b"      .5"),
    (8, b"      5."),
    (8, b"    1_0.5"[:8]),
    (8, b"   1,5  "),
    (8, b"  1. 5  "),
    (8, b"abcdefgh"),
    (8, b"\x00\x00\x00\x00\x00\x00\x00\x00"),
    (8, b"1.5\x00\x00\x00\x00\x00"),
    (8, b"1.5\xff    "),
    (8, b"1.5"),
    (0, b""),
    (1, b" "),
    (1, b"3"),
]

COMPLEX_CASES = [
    (8, b"1.558.42"),
    (8, b"        "),
    (8, b"1.55    "),
    (8, b"    8.42"),
    (16, b"162.3659487.8321"),
    (16, b" 62.3659 87.8321"),
    (16, b"     inf     1.0"),
    (16, b"     1.0     inf"),
    (16, b"     1.0    -inf"),
    (16, b"     inf     inf"),
    (16, b"     nan     2.0"),
    (16, b"     2.0     nan"),
    (16, b"    -0.0    -0.0"),
    (16, b"     0.0    -0.0"),
    (16, b"    -0.0     0.0"),
    (16, b"   1e308   1e308"),
    (16, b"    abcd     1.0"),
    (16, b"     1.0    abcd"),
    (16, b"     1.0"),
    (16, b""),
    (9, b"1.558.42X"),
    (7, b"1.58.4YZ"),
    (1, b"5"),
    (0, b""),
    (2, b"12"),
    (32, b"            1.25" + b"           -2.50"),
]


def describe(adapter):
    def walk(con):
        parts = [type(con).__name__, repr(getattr(con, "name", None))]
        for attr in ("length", "encoding"):
            if hasattr(con, attr):
                parts.append(f"{attr}={getattr(con, attr)!r}")
        if hasattr(con, "subcons"):
            parts.append("[" + ", ".join(walk(sub) for sub in con.subcons) + "]")
        elif hasattr(con, "subcon"):
            parts.append("<" + walk(con.subcon) + ">")
        return " ".join(parts)

    return walk(adapter)


def observe():
    observed = []

    for n_bytes, data in INTEGER_CASES:
        adapter = datatypes.AsciiInteger(n_bytes)
        observed.append(("int", n_bytes, data, outcome(adapter.parse, data)))
    for n_bytes, data in FLOAT_CASES:
        adapter = datatypes.AsciiFloat(n_bytes)
        observed.append(("float", n_bytes, data, outcome(adapter.parse, data)))
    for n_bytes, data in COMPLEX_CASES:
        adapter = datatypes.AsciiComplex(n_bytes)
        observed.append(("complex", n_bytes, data, outcome(adapter.parse, data)))

    # direct calls of the decoders, bypassing the byte decoding
    integer = datatypes.AsciiInteger(4)
    floating = datatypes.AsciiFloat(4)
    complex_ = datatypes.AsciiComplex(8)
    for obj in ["", " ", "12", " 12 ", "x", "１２", " 12", b"", b"  ", b" 12", 12, None]:
        observed.append(("int._decode", obj, outcome(integer._decode, obj, {}, "(p)")))
        observed.append(("float._decode", obj, outcome(floating._decode, obj, {}, "(p)")))
    for real, imaginary in [
        (1.0, 2.0),
        (float("inf"), 1.0),
        (1.0, float("inf")),
        (-0.0, -0.0),
        (0.0, -0.0),
        (1, 2),
        (1.5, None),
        (None, 1.5),
        ("a", 1.0),
    ]:
        obj = construct.Container(real=real, imaginary=imaginary)
        observed.append(
            ("complex._decode", repr(real), repr(imaginary), outcome(complex_._decode, obj, {}, "(p)"))
        )
    observed.append(("complex._decode", "missing", outcome(complex_._decode, construct.Container(real=1.0), {}, "")))
    observed.append(("complex._decode", "missing", outcome(complex_._decode, construct.Container(imaginary=1.0), {}, "")))
    observed.append(("complex._decode", "missing", outcome(complex_._decode, construct.Container(), {}, "")))

    # construction: structure, sizes, odd arguments
    for cls in (datatypes.AsciiInteger, datatypes.AsciiFloat, datatypes.AsciiComplex):
        for n_bytes in [0, 1, 2, 3, 8, 9, 16, 8.0, 7.5, True, None, "8", -2]:

            def build(cls=cls, n_bytes=n_bytes):
                adapter = cls(n_bytes)
                return describe(adapter) + " sizeof=" + outcome(adapter.sizeof)

            observed.append((cls.__name__, "init", repr(n_bytes), outcome(build)))
        observed.append((cls.__name__, "build", outcome(cls(8).build, 1)))
        observed.append((cls.__name__, "_encode", outcome(cls(8)._encode, 1, {}, "")))

    # embedded in a struct: error paths carry the field names
    record = construct.Struct(
        "a" / datatypes.AsciiInteger(4),
        "b" / datatypes.AsciiFloat(8),
        "c" / datatypes.AsciiComplex(16),
    )
    for data in [
        b"  12" + b"    1.25" + b"     1.0    -2.0",
        b"    " + b"        " + b"                ",
        b"  1x" + b"    1.25" + b"     1.0    -2.0",
        b"  12" + b"    1,25" + b"     1.0    -2.0",
        b"  12" + b"    1.25" + b"     1.0    -2,0",
        b"  12" + b"    1.25" + b"     1.0",
        b"  12" + b"    1",
        b"",
    ]:
        observed.append(("record", data, outcome(lambda: {k: v for k, v in record.parse(data).items() if k != "_io"})))

    return observed


EXPECTED = [('int', 2, b'15', 'int 15'),
 ('int', 4, b'3989', 'int 3989'),
 ('int', 4, b'  16', 'int 16'),
 ('int', 4, b'16  ', 'int 16'),
 ('int', 4, b' 16 ', 'int 16'),
 ('int', 4, b'    ', 'int -1'),
 ('int', 4, b'\t\n\r ', 'int -1'),
 ('int', 4, b'0000', 'int 0'),
 ('int', 4, b'  -7', 'int -7'),
 ('int', 4, b'  +7', 'int 7'),
 ('int', 4, b'-  7', "raised builtins.ValueError: invalid literal for int() with base 10: '-  7'"),
 ('int', 4, b'1_00', 'int 100'),
 ('int', 4, b'1 00', "raised builtins.ValueError: invalid literal for int() with base 10: '1 00'"),
 ('int', 4, b'12.5', "raised builtins.ValueError: invalid literal for int() with base 10: '12.5'"),
 ('int', 4, b'abcd', "raised builtins.ValueError: invalid literal for int() with base 10: 'abcd'"),
 ('int', 4, b'0x1f', "raised builtins.ValueError: invalid literal for int() with base 10: '0x1f'"),
 ('int', 4, b'\x00\x00\x00\x00', 'int -1'),
 ('int', 4, b'12\x00\x00', 'int 12'),
 ('int',
  4,
  b'\x00\x0012',
  "raised builtins.ValueError: invalid literal for int() with base 10: '\\x00\\x0012'"),
 ('int',
  4,
  b' \x00 \x00',
  "raised builtins.ValueError: invalid literal for int() with base 10: '\\x00'"),
 ('int',
  4,
  b'12\xff4',
  "raised construct.core.StringError: cannot use encoding 'ascii' to decode b'12\\xff4'"),
 ('int',
  4,
  b'123',
  'raised construct.core.StreamError: Error in path (parsing)\n'
  'stream read less than specified amount, expected 4, found 3'),
 ('int',
  4,
  b'',
  'raised construct.core.StreamError: Error in path (parsing)\n'
  'stream read less than specified amount, expected 4, found 0'),
 ('int', 0, b'', 'int -1'),
 ('int', 1, b' ', 'int -1'),
 ('int', 1, b'7', 'int 7'),
 ('int', 8, b'12345678', 'int 12345678'),
 ('int', 16, b'    123456789012', 'int 123456789012'),
 ('int', 6, b'123456trailing', 'int 123456'),
 ('float', 8, b'1558.423', 'float 1558.423'),
 ('float', 8, b' 165.820', 'float 165.82'),
 ('float', 8, b'165.820 ', 'float 165.82'),
 ('float', 8, b'        ', 'float nan'),
 ('float', 8, b'\t       ', 'float nan'),
 ('float', 16, b'162436598487.832', 'float 162436598487.832'),
 ('float', 16, b'     6598487.832', 'float 6598487.832'),
 ('float', 8, b'     nan', 'float nan'),
 ('float', 8, b'     NaN', 'float nan'),
 ('float', 8, b'     inf', 'float inf'),
 ('float', 8, b'    -inf', 'float -inf'),
 ('float', 8, b'Infinity', 'float inf'),
 ('float', 8, b'    1e-3', 'float 0.001'),
 ('float', 8, b' 1.5E+10', 'float 15000000000.0'),
 ('float', 8, b'   1e999', 'float inf'),
 ('float', 8, b'    -0.0', 'float -0.0'),
 ('float', 8, b'      -0', 'float -0.0'),
 ('float', 8, b'      .5', 'float 0.5'),
 ('float', 8, b'      5.', 'float 5.0'),
 ('float', 8, b'    1_0.', 'float 10.0'),
 ('float', 8, b'   1,5  ', "raised builtins.ValueError: could not convert string to float: '1,5'"),
 ('float', 8, b'  1. 5  ', "raised builtins.ValueError: could not convert string to float: '1. 5'"),
 ('float',
  8,
  b'abcdefgh',
  "raised builtins.ValueError: could not convert string to float: 'abcdefgh'"),
 ('float', 8, b'\x00\x00\x00\x00\x00\x00\x00\x00', 'float nan'),
 ('float', 8, b'1.5\x00\x00\x00\x00\x00', 'float 1.5'),
 ('float',
  8,
  b'1.5\xff    ',
  "raised construct.core.StringError: cannot use encoding 'ascii' to decode b'1.5\\xff    '"),
 ('float',
  8,
  b'1.5',
  'raised construct.core.StreamError: Error in path (parsing)\n'
  'stream read less than specified amount, expected 8, found 3'),
 ('float', 0, b'', 'float nan'),
 ('float', 1, b' ', 'float nan'),
 ('float', 1, b'3', 'float 3.0'),
 ('complex', 8, b'1.558.42', 'complex (1.55+8.42j)'),
 ('complex', 8, b'        ', 'complex (nan+nanj)'),
 ('complex', 8, b'1.55    ', 'complex (nan+nanj)'),
 ('complex', 8, b'    8.42', 'complex (nan+8.42j)'),
 ('complex', 16, b'162.3659487.8321', 'complex (162.3659+487.8321j)'),
 ('complex', 16, b' 62.3659 87.8321', 'complex (62.3659+87.8321j)'),
 ('complex', 16, b'     inf     1.0', 'complex (inf+1j)'),
 ('complex', 16, b'     1.0     inf', 'complex (nan+infj)'),
 ('complex', 16, b'     1.0    -inf', 'complex (nan-infj)'),
 ('complex', 16, b'     inf     inf', 'complex (nan+infj)'),
 ('complex', 16, b'     nan     2.0', 'complex (nan+2j)'),
 ('complex', 16, b'     2.0     nan', 'complex (nan+nanj)'),
 ('complex', 16, b'    -0.0    -0.0', 'complex (-0+0j)'),
 ('complex', 16, b'     0.0    -0.0', 'complex 0j'),
 ('complex', 16, b'    -0.0     0.0', 'complex 0j'),
 ('complex', 16, b'   1e308   1e308', 'complex (1e+308+1e+308j)'),
 ('complex',
  16,
  b'    abcd     1.0',
  "raised builtins.ValueError: could not convert string to float: 'abcd'"),
 ('complex',
  16,
  b'     1.0    abcd',
  "raised builtins.ValueError: could not convert string to float: 'abcd'"),
 ('complex',
  16,
  b'     1.0',
  'raised construct.core.StreamError: Error in path (parsing) -> imaginary\n'
  'stream read less than specified amount, expected 8, found 0'),
 ('complex',
  16,
  b'',
  'raised construct.core.StreamError: Error in path (parsing) -> real\n'
  'stream read less than specified amount, expected 8, found 0'),
 ('complex', 9, b'1.558.42X', 'complex (1.55+8.42j)'),
 ('complex', 7, b'1.58.4YZ', 'complex (1.5+8.4j)'),
 ('complex', 1, b'5', 'complex (nan+nanj)'),
 ('complex', 0, b'', 'complex (nan+nanj)'),
 ('complex', 2, b'12', 'complex (1+2j)'),
 ('complex', 32, b'            1.25           -2.50', 'complex (1.25-2.5j)'),
 ('int._decode', '', 'int -1'),
 ('float._decode', '', 'float nan'),
 ('int._decode', ' ', 'int -1'),
 ('float._decode', ' ', 'float nan'),
 ('int._decode', '12', 'int 12'),
 ('float._decode', '12', 'float 12.0'),
 ('int._decode', ' 12 ', 'int 12'),
 ('float._decode', ' 12 ', 'float 12.0'),
 ('int._decode', 'x', "raised builtins.ValueError: invalid literal for int() with base 10: 'x'"),
 ('float._decode', 'x', "raised builtins.ValueError: could not convert string to float: 'x'"),
 ('int._decode', '１２', 'int 12'),
 ('float._decode', '１２', 'float 12.0'),
 ('int._decode', '\xa012', 'int 12'),
 ('float._decode', '\xa012', 'float 12.0'),
 ('int._decode', b'', 'int -1'),
 ('float._decode', b'', 'float nan'),
 ('int._decode', b'  ', 'int -1'),
 ('float._decode', b'  ', 'float nan'),
 ('int._decode', b' 12', 'int 12'),
 ('float._decode', b' 12', 'float 12.0'),
 ('int._decode', 12, "raised builtins.AttributeError: 'int' object has no attribute 'strip'"),
 ('float._decode', 12, "raised builtins.AttributeError: 'int' object has no attribute 'strip'"),
 ('int._decode',
  None,
  "raised builtins.AttributeError: 'NoneType' object has no attribute 'strip'"),
 ('float._decode',
  None,
  "raised builtins.AttributeError: 'NoneType' object has no attribute 'strip'"),
 ('complex._decode', '1.0', '2.0', 'complex (1+2j)'),
 ('complex._decode', 'inf', '1.0', 'complex (inf+1j)'),
 ('complex._decode', '1.0', 'inf', 'complex (nan+infj)'),
 ('complex._decode', '-0.0', '-0.0', 'complex (-0+0j)'),
 ('complex._decode', '0.0', '-0.0', 'complex 0j'),
 ('complex._decode', '1', '2', 'complex (1+2j)'),
 ('complex._decode',
  '1.5',
  'None',
  "raised builtins.TypeError: unsupported operand type(s) for *: 'complex' and 'NoneType'"),
 ('complex._decode',
  'None',
  '1.5',
  "raised builtins.TypeError: unsupported operand type(s) for +: 'NoneType' and 'complex'"),
 ('complex._decode',
  "'a'",
  '1.0',
  'raised builtins.TypeError: can only concatenate str (not "complex") to str'),
 ('complex._decode', 'missing', 'raised builtins.AttributeError: imaginary'),
 ('complex._decode', 'missing', 'raised builtins.AttributeError: real'),
 ('complex._decode', 'missing', 'raised builtins.AttributeError: real'),
 ('AsciiInteger',
  'init',
  '0',
  'str "AsciiInteger None <StringEncoded None encoding=\'ascii\' <FixedSized None length=0 '
  '<NullStripped None <GreedyBytes None>>>> sizeof=int 0"'),
 ('AsciiInteger',
  'init',
  '1',
  'str "AsciiInteger None <StringEncoded None encoding=\'ascii\' <FixedSized None length=1 '
  '<NullStripped None <GreedyBytes None>>>> sizeof=int 1"'),
 ('AsciiInteger',
  'init',
  '2',
  'str "AsciiInteger None <StringEncoded None encoding=\'ascii\' <FixedSized None length=2 '
  '<NullStripped None <GreedyBytes None>>>> sizeof=int 2"'),
 ('AsciiInteger',
  'init',
  '3',
  'str "AsciiInteger None <StringEncoded None encoding=\'ascii\' <FixedSized None length=3 '
  '<NullStripped None <GreedyBytes None>>>> sizeof=int 3"'),
 ('AsciiInteger',
  'init',
  '8',
  'str "AsciiInteger None <StringEncoded None encoding=\'ascii\' <FixedSized None length=8 '
  '<NullStripped None <GreedyBytes None>>>> sizeof=int 8"'),
 ('AsciiInteger',
  'init',
  '9',
  'str "AsciiInteger None <StringEncoded None encoding=\'ascii\' <FixedSized None length=9 '
  '<NullStripped None <GreedyBytes None>>>> sizeof=int 9"'),
 ('AsciiInteger',
  'init',
  '16',
  'str "AsciiInteger None <StringEncoded None encoding=\'ascii\' <FixedSized None length=16 '
  '<NullStripped None <GreedyBytes None>>>> sizeof=int 16"'),
 ('AsciiInteger',
  'init',
  '8.0',
  'str "AsciiInteger None <StringEncoded None encoding=\'ascii\' <FixedSized None length=8.0 '
  '<NullStripped None <GreedyBytes None>>>> sizeof=float 8.0"'),
 ('AsciiInteger',
  'init',
  '7.5',
  'str "AsciiInteger None <StringEncoded None encoding=\'ascii\' <FixedSized None length=7.5 '
  '<NullStripped None <GreedyBytes None>>>> sizeof=float 7.5"'),
 ('AsciiInteger',
  'init',
  'True',
  'str "AsciiInteger None <StringEncoded None encoding=\'ascii\' <FixedSized None length=True '
  '<NullStripped None <GreedyBytes None>>>> sizeof=bool True"'),
 ('AsciiInteger',
  'init',
  'None',
  'str "AsciiInteger None <StringEncoded None encoding=\'ascii\' <FixedSized None length=None '
  "<NullStripped None <GreedyBytes None>>>> sizeof=raised builtins.TypeError: '<' not supported "
  'between instances of \'NoneType\' and \'int\'"'),
 ('AsciiInteger',
  'init',
  "'8'",
  'str "AsciiInteger None <StringEncoded None encoding=\'ascii\' <FixedSized None length=\'8\' '
  "<NullStripped None <GreedyBytes None>>>> sizeof=raised builtins.TypeError: '<' not supported "
  'between instances of \'str\' and \'int\'"'),
 ('AsciiInteger',
  'init',
  '-2',
  'str "AsciiInteger None <StringEncoded None encoding=\'ascii\' <FixedSized None length=-2 '
  '<NullStripped None <GreedyBytes None>>>> sizeof=raised construct.core.PaddingError: Error in '
  'path (sizeof)\\nlength cannot be negative"'),
 ('AsciiInteger', 'build', 'raised builtins.NotImplementedError: '),
 ('AsciiInteger', '_encode', 'raised builtins.NotImplementedError: '),
 ('AsciiFloat',
  'init',
  '0',
  'str "AsciiFloat None <StringEncoded None encoding=\'ascii\' <FixedSized None length=0 '
  '<NullStripped None <GreedyBytes None>>>> sizeof=int 0"'),
 ('AsciiFloat',
  'init',
  '1',
  'str "AsciiFloat None <StringEncoded None encoding=\'ascii\' <FixedSized None length=1 '
  '<NullStripped None <GreedyBytes None>>>> sizeof=int 1"'),
 ('AsciiFloat',
  'init',
  '2',
  'str "AsciiFloat None <StringEncoded None encoding=\'ascii\' <FixedSized None length=2 '
  '<NullStripped None <GreedyBytes None>>>> sizeof=int 2"'),
 ('AsciiFloat',
  'init',
  '3',
  'str "AsciiFloat None <StringEncoded None encoding=\'ascii\' <FixedSized None length=3 '
  '<NullStripped None <GreedyBytes None>>>> sizeof=int 3"'),
 ('AsciiFloat',
  'init',
  '8',
  'str "AsciiFloat None <StringEncoded None encoding=\'ascii\' <FixedSized None length=8 '
  '<NullStripped None <GreedyBytes None>>>> sizeof=int 8"'),
 ('AsciiFloat',
  'init',
  '9',
  'str "AsciiFloat None <StringEncoded None encoding=\'ascii\' <FixedSized None length=9 '
  '<NullStripped None <GreedyBytes None>>>> sizeof=int 9"'),
 ('AsciiFloat',
  'init',
  '16',
  'str "AsciiFloat None <StringEncoded None encoding=\'ascii\' <FixedSized None length=16 '
  '<NullStripped None <GreedyBytes None>>>> sizeof=int 16"'),
 ('AsciiFloat',
  'init',
  '8.0',
  'str "AsciiFloat None <StringEncoded None encoding=\'ascii\' <FixedSized None length=8.0 '
  '<NullStripped None <GreedyBytes None>>>> sizeof=float 8.0"'),
 ('AsciiFloat',
  'init',
  '7.5',
  'str "AsciiFloat None <StringEncoded None encoding=\'ascii\' <FixedSized None length=7.5 '
  '<NullStripped None <GreedyBytes None>>>> sizeof=float 7.5"'),
 ('AsciiFloat',
  'init',
  'True',
  'str "AsciiFloat None <StringEncoded None encoding=\'ascii\' <FixedSized None length=True '
  '<NullStripped None <GreedyBytes None>>>> sizeof=bool True"'),
 ('AsciiFloat',
  'init',
  'None',
  'str "AsciiFloat None <StringEncoded None encoding=\'ascii\' <FixedSized None length=None '
  "<NullStripped None <GreedyBytes None>>>> sizeof=raised builtins.TypeError: '<' not supported "
  'between instances of \'NoneType\' and \'int\'"'),
 ('AsciiFloat',
  'init',
  "'8'",
  'str "AsciiFloat None <StringEncoded None encoding=\'ascii\' <FixedSized None length=\'8\' '
  "<NullStripped None <GreedyBytes None>>>> sizeof=raised builtins.TypeError: '<' not supported "
  'between instances of \'str\' and \'int\'"'),
 ('AsciiFloat',
  'init',
  '-2',
  'str "AsciiFloat None <StringEncoded None encoding=\'ascii\' <FixedSized None length=-2 '
  '<NullStripped None <GreedyBytes None>>>> sizeof=raised construct.core.PaddingError: Error in '
  'path (sizeof)\\nlength cannot be negative"'),
 ('AsciiFloat', 'build', 'raised builtins.NotImplementedError: '),
 ('AsciiFloat', '_encode', 'raised builtins.NotImplementedError: '),
 ('AsciiComplex',
  'init',
  '0',
  'str "AsciiComplex None <Struct None [Renamed \'real\' <AsciiFloat None <StringEncoded None '
  "encoding='ascii' <FixedSized None length=0 <NullStripped None <GreedyBytes None>>>>>, Renamed "
  "'imaginary' <AsciiFloat None <StringEncoded None encoding='ascii' <FixedSized None length=0 "
  '<NullStripped None <GreedyBytes None>>>>>]> sizeof=int 0"'),
 ('AsciiComplex',
  'init',
  '1',
  'str "AsciiComplex None <Struct None [Renamed \'real\' <AsciiFloat None <StringEncoded None '
  "encoding='ascii' <FixedSized None length=0 <NullStripped None <GreedyBytes None>>>>>, Renamed "
  "'imaginary' <AsciiFloat None <StringEncoded None encoding='ascii' <FixedSized None length=0 "
  '<NullStripped None <GreedyBytes None>>>>>]> sizeof=int 0"'),
 ('AsciiComplex',
  'init',
  '2',
  'str "AsciiComplex None <Struct None [Renamed \'real\' <AsciiFloat None <StringEncoded None '
  "encoding='ascii' <FixedSized None length=1 <NullStripped None <GreedyBytes None>>>>>, Renamed "
  "'imaginary' <AsciiFloat None <StringEncoded None encoding='ascii' <FixedSized None length=1 "
  '<NullStripped None <GreedyBytes None>>>>>]> sizeof=int 2"'),
 ('AsciiComplex',
  'init',
  '3',
  'str "AsciiComplex None <Struct None [Renamed \'real\' <AsciiFloat None <StringEncoded None '
  "encoding='ascii' <FixedSized None length=1 <NullStripped None <GreedyBytes None>>>>>, Renamed "
  "'imaginary' <AsciiFloat None <StringEncoded None encoding='ascii' <FixedSized None length=1 "
  '<NullStripped None <GreedyBytes None>>>>>]> sizeof=int 2"'),
 ('AsciiComplex',
  'init',
  '8',
  'str "AsciiComplex None <Struct None [Renamed \'real\' <AsciiFloat None <StringEncoded None '
  "encoding='ascii' <FixedSized None length=4 <NullStripped None <GreedyBytes None>>>>>, Renamed "
  "'imaginary' <AsciiFloat None <StringEncoded None encoding='ascii' <FixedSized None length=4 "
  '<NullStripped None <GreedyBytes None>>>>>]> sizeof=int 8"'),
 ('AsciiComplex',
  'init',
  '9',
  'str "AsciiComplex None <Struct None [Renamed \'real\' <AsciiFloat None <StringEncoded None '
  "encoding='ascii' <FixedSized None length=4 <NullStripped None <GreedyBytes None>>>>>, Renamed "
  "'imaginary' <AsciiFloat None <StringEncoded None encoding='ascii' <FixedSized None length=4 "
  '<NullStripped None <GreedyBytes None>>>>>]> sizeof=int 8"'),
 ('AsciiComplex',
  'init',
  '16',
  'str "AsciiComplex None <Struct None [Renamed \'real\' <AsciiFloat None <StringEncoded None '
  "encoding='ascii' <FixedSized None length=8 <NullStripped None <GreedyBytes None>>>>>, Renamed "
  "'imaginary' <AsciiFloat None <StringEncoded None encoding='ascii' <FixedSized None length=8 "
  '<NullStripped None <GreedyBytes None>>>>>]> sizeof=int 16"'),
 ('AsciiComplex',
  'init',
  '8.0',
  'str "AsciiComplex None <Struct None [Renamed \'real\' <AsciiFloat None <StringEncoded None '
  "encoding='ascii' <FixedSized None length=4.0 <NullStripped None <GreedyBytes None>>>>>, Renamed "
  "'imaginary' <AsciiFloat None <StringEncoded None encoding='ascii' <FixedSized None length=4.0 "
  '<NullStripped None <GreedyBytes None>>>>>]> sizeof=float 8.0"'),
 ('AsciiComplex',
  'init',
  '7.5',
  'str "AsciiComplex None <Struct None [Renamed \'real\' <AsciiFloat None <StringEncoded None '
  "encoding='ascii' <FixedSized None length=3.0 <NullStripped None <GreedyBytes None>>>>>, Renamed "
  "'imaginary' <AsciiFloat None <StringEncoded None encoding='ascii' <FixedSized None length=3.0 "
  '<NullStripped None <GreedyBytes None>>>>>]> sizeof=float 6.0"'),
 ('AsciiComplex',
  'init',
  'True',
  'str "AsciiComplex None <Struct None [Renamed \'real\' <AsciiFloat None <StringEncoded None '
  "encoding='ascii' <FixedSized None length=0 <NullStripped None <GreedyBytes None>>>>>, Renamed "
  "'imaginary' <AsciiFloat None <StringEncoded None encoding='ascii' <FixedSized None length=0 "
  '<NullStripped None <GreedyBytes None>>>>>]> sizeof=int 0"'),
 ('AsciiComplex',
  'init',
  'None',
  "raised builtins.TypeError: unsupported operand type(s) for //: 'NoneType' and 'int'"),
 ('AsciiComplex',
  'init',
  "'8'",
  "raised builtins.TypeError: unsupported operand type(s) for //: 'str' and 'int'"),
 ('AsciiComplex',
  'init',
  '-2',
  'str "AsciiComplex None <Struct None [Renamed \'real\' <AsciiFloat None <StringEncoded None '
  "encoding='ascii' <FixedSized None length=-1 <NullStripped None <GreedyBytes None>>>>>, Renamed "
  "'imaginary' <AsciiFloat None <StringEncoded None encoding='ascii' <FixedSized None length=-1 "
  '<NullStripped None <GreedyBytes None>>>>>]> sizeof=raised construct.core.PaddingError: Error in '
  'path (sizeof) -> real\\nlength cannot be negative"'),
 ('AsciiComplex', 'build', 'raised builtins.NotImplementedError: '),
 ('AsciiComplex', '_encode', 'raised builtins.NotImplementedError: '),
 ('record', b'  12    1.25     1.0    -2.0', "dict {'a': 12, 'b': 1.25, 'c': (1-2j)}"),
 ('record', b'                            ', "dict {'a': -1, 'b': nan, 'c': (nan+nanj)}"),
 ('record',
  b'  1x    1.25     1.0    -2.0',
  "raised builtins.ValueError: invalid literal for int() with base 10: '1x'"),
 ('record',
  b'  12    1,25     1.0    -2.0',
  "raised builtins.ValueError: could not convert string to float: '1,25'"),
 ('record',
  b'  12    1.25     1.0    -2,0',
  "raised builtins.ValueError: could not convert string to float: '-2,0'"),
 ('record',
  b'  12    1.25     1.0',
  'raised construct.core.StreamError: Error in path (parsing) -> c -> imaginary\n'
  'stream read less than specified amount, expected 8, found 0'),
 ('record',
  b'  12    1',
  'raised construct.core.StreamError: Error in path (parsing) -> b\n'
  'stream read less than specified amount, expected 8, found 5'),
 ('record',
  b'',
  'raised construct.core.StreamError: Error in path (parsing) -> a\n'
  'stream read less than specified amount, expected 4, found 0')]


def test_equivalence():
    observed = observe()
    assert len(observed) == len(EXPECTED)
    for actual, expected in zip(observed, EXPECTED):
        assert actual == expected
    assert observed == EXPECTED


if __name__ == "__main__":
    test_equivalence()
    print(f"ok: {len(EXPECTED)} observations identical")
