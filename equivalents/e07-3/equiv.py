"""Equivalence check for refactoring 3 (``open_sar_leader`` / ``open_volume_directory``).

The mappers are in-memory (a recording dict subclass and fsspec's ``memory://``
mapper).  ``parse_data`` is stubbed the same way the project's tests do it (there is
no binary sample in the repository), plus a run through the real parser on garbage
input.  The expected values were produced with the UNCHANGED code.

Run:  cd /tmp/wt2/e07 && PYTHONPATH=/tmp/wt2/e07 /venv/bin/python _eq/3/equiv.py
"""

import fsspec

from ceos_alos2 import sar_leader, volume_directory
from ceos_alos2.hierarchy import Group, Variable
from ceos_alos2.sar_leader import io as leader_io
from ceos_alos2.volume_directory import io as volume_io

# the public entry points are still the same objects
assert sar_leader.open_sar_leader is leader_io.open_sar_leader
assert volume_directory.open_volume_directory is volume_io.open_volume_directory


def describe(obj):
    if isinstance(obj, Group):
        return {
            "path": obj.path,
            "url": obj.url,
            "attrs": obj.attrs,
            "data": {name: describe(item) for name, item in obj.data.items()},
        }
    if isinstance(obj, Variable):
        return ["var", list(obj.dims), obj.data, obj.attrs]
    raise TypeError(type(obj))


class RecordingMapper(dict):
    root = "/somewhere"

    def __init__(self, *args, error=None, **kwargs):
        super().__init__(*args, **kwargs)
        self.log = []
        self.error = error

    def __getitem__(self, key):
        self.log.append(key)
        if self.error is not None:
            raise self.error
        return super().__getitem__(key)


parsed = []


def install_parsers(leader_result=None, volume_result=None, error=None):
    parsed.clear()

    def fake_leader_parse(data):
        parsed.append(("leader", data))
        if error is not None:
            raise error
        return leader_result

    def fake_volume_parse(data):
        parsed.append(("volume", data))
        if error is not None:
            raise error
        return volume_result

    leader_io.parse_data = fake_leader_parse
    volume_io.parse_data = fake_volume_parse


def outcome(func, mapper, path):
    try:
        return describe(func(mapper, path))
    except Exception as e:  # noqa: BLE001
        cause = e.__cause__
        return [
            "raised",
            type(e).__name__,
            e.args,
            type(cause).__name__,
            getattr(cause, "args", None),
            e.__suppress_context__,
            e.__context__ is cause,
        ]


LEADER_MAPPING = {"facility_related_data_5": {"prf_switching_flag": 0}}
VOLUME_MAPPING = {
    "volume_descriptor": {"preamble": "a", "logical_volume_generating_agency": "b"},
    "file_descriptors": [],
    "text_record": {"physical_tape_id": 2, "location_and_datetime_of_product_creation": "c"},
}
LEADER_TREE = {
    "path": "/",
    "url": None,
    "attrs": {},
    "data": {
        "transformations": {
            "path": "/transformations",
            "url": None,
            "attrs": {"prf_switching": False},
            "data": {},
        }
    },
}
VOLUME_TREE = {
    "path": "/",
    "url": None,
    "attrs": {"creation_agency": "b", "product_creation": "c"},
    "data": {},
}

readers = [
    ("leader", leader_io.open_sar_leader, LEADER_TREE),
    ("volume", volume_io.open_volume_directory, VOLUME_TREE),
]

for kind, reader, expected_tree in readers:
    # --- existing file in a dict-like mapper: read once, parsed once, transformed ------
    install_parsers(LEADER_MAPPING, VOLUME_MAPPING)
    mapper = RecordingMapper({"LED-1": b"\x01\x03", "VOL-1": b"\x01\x02", 3: b"three"})
    assert outcome(reader, mapper, "LED-1") == expected_tree
    assert mapper.log == ["LED-1"] and parsed == [(kind, b"\x01\x03")], (mapper.log, parsed)

    # repeated calls: nothing is remembered between calls
    mapper["LED-1"] = b"changed"
    assert outcome(reader, mapper, "LED-1") == expected_tree
    assert outcome(reader, mapper, 3) == expected_tree
    assert mapper.log == ["LED-1", "LED-1", 3], mapper.log
    assert parsed == [(kind, b"\x01\x03"), (kind, b"changed"), (kind, b"three")], parsed

    # --- missing file: FileNotFoundError chained to the KeyError, nothing parsed -------
    install_parsers(LEADER_MAPPING, VOLUME_MAPPING)
    mapper = RecordingMapper({"LED-1": b"\x01\x03"})
    assert outcome(reader, mapper, "LED-2") == [
        "raised",
        "FileNotFoundError",
        ("Cannot open LED-2",),
        "KeyError",
        ("LED-2",),
        True,
        True,
    ]
    assert outcome(reader, mapper, 7) == [
        "raised",
        "FileNotFoundError",
        ("Cannot open 7",),
        "KeyError",
        (7,),
        True,
        True,
    ]
    assert outcome(reader, mapper, "") == [
        "raised",
        "FileNotFoundError",
        ("Cannot open ",),
        "KeyError",
        ("",),
        True,
        True,
    ]
    assert mapper.log == ["LED-2", 7, ""] and parsed == [], (mapper.log, parsed)
    # ... and a later call for an existing file still works
    assert outcome(reader, mapper, "LED-1") == expected_tree

    # --- a subclass of KeyError from the mapper is converted as well -------------------
    class Missing(KeyError):
        pass

    mapper = RecordingMapper({"LED-1": b"x"}, error=Missing("weird", 1))
    assert outcome(reader, mapper, "LED-1") == [
        "raised",
        "FileNotFoundError",
        ("Cannot open LED-1",),
        "Missing",
        ("weird", 1),
        True,
        True,
    ]

    # --- other errors of the mapper are not touched -------------------------------------
    for error in [PermissionError("denied"), LookupError("lookup"), IndexError("idx"), OSError(5, "io")]:
        install_parsers(LEADER_MAPPING, VOLUME_MAPPING)
        mapper = RecordingMapper({"LED-1": b"x"}, error=error)
        try:
            reader(mapper, "LED-1")
        except Exception as e:  # noqa: BLE001
            assert e is error and e.__cause__ is None and e.__context__ is None
        else:
            raise AssertionError("no error")
        assert mapper.log == ["LED-1"] and parsed == []

    # --- a KeyError from the parser / the transformation is NOT converted ----------------
    error = KeyError("from the parser")
    install_parsers(error=error)
    mapper = RecordingMapper({"LED-1": b"x"})
    try:
        reader(mapper, "LED-1")
    except KeyError as e:
        assert e is error and e.__cause__ is None
    else:
        raise AssertionError("no error")

    install_parsers(None, None)  # the transformation cannot cope with the parser's result
    mapper = RecordingMapper({"LED-1": b"x"})
    result = outcome(reader, mapper, "LED-1")
    message = "'NoneType' object has no attribute 'items'"
    assert result == ["raised", "AttributeError", (message,), "NoneType", None, False, True], result

    install_parsers({}, {})  # nothing to transform: an empty tree
    assert outcome(reader, mapper, "LED-1") == {"path": "/", "url": None, "attrs": {}, "data": {}}

    # --- fsspec mapper (what ``io.open`` passes) -----------------------------------------
    install_parsers(LEADER_MAPPING, VOLUME_MAPPING)
    mapper = fsspec.get_mapper("memory://eq3")
    mapper["led2"] = b"\x01\x03"
    assert outcome(reader, mapper, "led2") == expected_tree
    assert parsed == [(kind, b"\x01\x03")]
    assert outcome(reader, mapper, "led1") == [
        "raised",
        "FileNotFoundError",
        ("Cannot open led1",),
        "KeyError",
        ("led1",),
        True,
        True,
    ]
    assert sorted(mapper) == ["led2"]  # nothing was written

# --- the real parsers on garbage: same construct error, no conversion ---------------------
import importlib  # noqa: E402

importlib.reload(leader_io)
importlib.reload(volume_io)
mapper = RecordingMapper({"f": b"\x00" * 16})
for reader in (leader_io.open_sar_leader, volume_io.open_volume_directory):
    result = outcome(reader, mapper, "f")
    assert result[:2] == ["raised", "StreamError"], result
    assert result[3:] == ["NoneType", None, False, True], result
    assert outcome(reader, mapper, "g")[:5] == [
        "raised",
        "FileNotFoundError",
        ("Cannot open g",),
        "KeyError",
        ("g",),
    ]
assert mapper.log == ["f", "g", "f", "g"], mapper.log

print("refactoring 3: all equivalence checks passed")
