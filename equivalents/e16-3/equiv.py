"""Equivalence checks for refactoring 3 (ceos_alos2/transformers.py).

Exercises ``remove_spares``, ``item_type`` (directly and through ``as_group``)
and ``transform_nested``. All expected values were recorded from the unchanged
code (HEAD); the script has to pass both with and without ``patch.diff``
applied.

run with either of

    python _eq/3/equiv.py
    python -m pytest -q -p no:cacheprovider _eq/3/equiv.py
"""

import collections

import pytest

from ceos_alos2 import transformers
from ceos_alos2.hierarchy import Group, Variable


def typed(obj):
    if isinstance(obj, dict):
        return (type(obj).__name__, [(k, typed(v)) for k, v in obj.items()])
    if isinstance(obj, (list, tuple)):
        return (type(obj).__name__, [typed(v) for v in obj])
    return (type(obj).__name__, repr(obj))


class MyDict(dict):
    pass


class MyList(list):
    pass


class MyTuple(tuple):
    pass


# ---------------------------------------------------------------- remove_spares

SPARE_KEYS = [
    "spare",
    "spare1",
    "spare12",
    "blanks",
    "blanks3",
    "spareblanks",
    "spareblanks7",
    "blanksspare",
    "blanksspare1",
    "sparespare",
    "spare_1",
    "spare1a",
    "spares",
    "blanks_",
    "blank",
    "blank1",
    "spar",
    "Spare1",
    "a_spare1",
    "spare 1",
    "spare-1",
    "spare1.5",
    "spare²",
    "spare٣",
    "blanks①",
    "",
    "1",
    "value",
]

KEPT_KEYS = [
    "blanksspare",
    "blanksspare1",
    "sparespare",
    "spare_1",
    "spare1a",
    "spares",
    "blanks_",
    "blank",
    "blank1",
    "spar",
    "Spare1",
    "a_spare1",
    "spare 1",
    "spare-1",
    "spare1.5",
    "",
    "1",
    "value",
]


def test_remove_spares_keys():
    mapping = {key: index for index, key in enumerate(SPARE_KEYS)}
    actual = transformers.remove_spares(mapping)

    assert type(actual) is dict
    assert list(actual) == KEPT_KEYS
    assert all(actual[key] == mapping[key] for key in KEPT_KEYS)
    assert list(mapping) == SPARE_KEYS

    # one by one, to catch order dependencies
    for key in SPARE_KEYS:
        result = transformers.remove_spares({key: 0})
        assert result == ({key: 0} if key in KEPT_KEYS else {}), key


def test_remove_spares_nested():
    mapping = {
        "a": 1,
        "spare1": {"keep": 1},
        "b": {
            "blanks": 0,
            "ba": [{"spare2": 1, "x": (1, {"spare3": 1})}, 5, [{"spare4": 1, "y": 2}], "spare5"],
            "bb": {"spare6": 1, "bba": {"blanks7": 2, "z": None}},
            "bc": ({"spare8": 1}, [{"spare9": 1}]),
        },
        "c": [],
        "d": {},
        "e": [[], {}, [[{"spare": 1}]]],
    }
    expected = (
        "dict",
        [
            ("a", ("int", "1")),
            (
                "b",
                (
                    "dict",
                    [
                        (
                            "ba",
                            (
                                "list",
                                [
                                    (
                                        "dict",
                                        [
                                            (
                                                "x",
                                                (
                                                    "tuple",
                                                    [
                                                        ("int", "1"),
                                                        ("dict", [("spare3", ("int", "1"))]),
                                                    ],
                                                ),
                                            )
                                        ],
                                    ),
                                    ("int", "5"),
                                    ("list", [("dict", [("y", ("int", "2"))])]),
                                    ("str", "'spare5'"),
                                ],
                            ),
                        ),
                        (
                            "bb",
                            ("dict", [("bba", ("dict", [("z", ("NoneType", "None"))]))]),
                        ),
                        (
                            "bc",
                            (
                                "tuple",
                                [
                                    ("dict", [("spare8", ("int", "1"))]),
                                    ("list", [("dict", [("spare9", ("int", "1"))])]),
                                ],
                            ),
                        ),
                    ],
                ),
            ),
            ("c", ("list", [])),
            ("d", ("dict", [])),
            ("e", ("list", [("list", []), ("dict", []), ("list", [("list", [("dict", [])])])])),
        ],
    )
    actual = transformers.remove_spares(mapping)
    assert typed(actual) == expected

    # tuples are passed through as they are
    assert actual["b"]["bc"] is mapping["b"]["bc"]
    # lists and dicts are always rebuilt
    assert actual["c"] is not mapping["c"]
    assert actual["d"] is not mapping["d"]
    assert "spare1" in mapping and "blanks" in mapping["b"]


def test_remove_spares_toplevel_and_types():
    assert transformers.remove_spares(1) == 1
    assert transformers.remove_spares(None) is None
    assert transformers.remove_spares("spare1") == "spare1"
    value = ({"spare1": 1},)
    assert transformers.remove_spares(value) is value
    assert typed(transformers.remove_spares([{"spare1": 1, "a": 2}, 3])) == (
        "list",
        [("dict", [("a", ("int", "2"))]), ("int", "3")],
    )
    assert transformers.remove_spares(mapping={"spare": 1}) == {}

    # subclasses are converted to the plain types
    actual = transformers.remove_spares(
        MyDict(a=MyList([MyDict(spare1=1, b=2)]), c=collections.OrderedDict(blanks1=1, d=1))
    )
    assert typed(actual) == (
        "dict",
        [
            ("a", ("list", [("dict", [("b", ("int", "2"))])])),
            ("c", ("dict", [("d", ("int", "1"))])),
        ],
    )


def test_remove_spares_errors():
    with pytest.raises(AttributeError) as excinfo:
        transformers.remove_spares({1: 2})
    assert str(excinfo.value) == "'int' object has no attribute 'startswith'"

    with pytest.raises(AttributeError) as excinfo:
        transformers.remove_spares({"a": [{"b": {None: 1}}]})
    assert str(excinfo.value) == "'NoneType' object has no attribute 'startswith'"

    with pytest.raises(TypeError) as excinfo:
        transformers.remove_spares({b"spare1": 2})
    assert str(excinfo.value) == "a bytes-like object is required, not 'str'"

    # all keys of a level are checked before descending
    with pytest.raises(AttributeError) as excinfo:
        transformers.remove_spares({"a": {b"x": 1}, 2: 1})
    assert str(excinfo.value) == "'int' object has no attribute 'startswith'"


# ---------------------------------------------------------------- item_type


@pytest.mark.parametrize(
    ["value", "expected"],
    (
        (1, "attribute"),
        (1.5, "attribute"),
        ("abc", "attribute"),
        (b"abc", "attribute"),
        (None, "attribute"),
        ({1, 2}, "attribute"),
        (range(3), "attribute"),
        ([], "variable"),
        ([1, 2], "variable"),
        ([{}], "variable"),
        ([{"a": 1}], "variable"),
        (MyList([1]), "variable"),
        ((1, {}), "variable"),
        (([1, 2], {"u": "m"}), "variable"),
        (("x", [1, 2], {}), "variable"),
        ((None,), "variable"),
        (([{}],), "variable"),
        (MyTuple((1, {})), "variable"),
        ({}, "group"),
        ({"a": 1}, "group"),
        (MyDict(a=1), "group"),
        (collections.OrderedDict(a=1), "group"),
        (({}, {}), "group"),
        (({"a": [1]}, {"b": 1}), "group"),
        ((MyDict(),), "group"),
        (({}, 1, 2), "group"),
        (MyTuple(({}, {})), "group"),
    ),
)
def test_item_type(value, expected):
    assert transformers.item_type(("name", value)) == expected
    assert transformers.item_type(["name", value]) == expected


def test_item_type_errors():
    with pytest.raises(IndexError) as excinfo:
        transformers.item_type(("name", ()))
    assert str(excinfo.value) == "tuple index out of range"

    with pytest.raises(IndexError):
        transformers.item_type(("name", MyTuple()))

    with pytest.raises(StopIteration):
        transformers.item_type(("name",))

    assert transformers.item_type("ab") == "attribute"
    assert transformers.item_type(("n", {}, "ignored")) == "group"


def describe(obj):
    if isinstance(obj, Group):
        return (
            "Group",
            obj.path,
            obj.url,
            typed(obj.attrs),
            [(name, describe(value)) for name, value in obj.data.items()],
        )
    if isinstance(obj, Variable):
        return ("Variable", typed(obj.dims), typed(obj.data), typed(obj.attrs))
    raise TypeError(type(obj))


def test_as_group_uses_item_type():
    mapping = (
        {
            "attr1": 1,
            "var1": ([1, 2], {"units": "m"}),
            "group1": {"attr2": "a", "var2": ("x", [1], {}), "group2": ({"q": 1}, {"extra": 2})},
            "var3": [1, 2, 3, 4],
            "attr3": None,
            "group3": {},
            "var4": (1, {}),
        },
        {"attr1": "overridden", "additional": True},
    )
    # lists are variables by classification, but can't be converted
    with pytest.raises(ValueError) as excinfo:
        transformers.as_group(mapping)
    assert "too many values to unpack (expected 3" in str(excinfo.value)

    mapping[0]["var3"] = ("y", [1, 2, 3], {"a": 1})
    actual = transformers.as_group(mapping)
    expected = (
        "Group",
        "/",
        None,
        (
            "dict",
            [
                ("attr1", ("str", "'overridden'")),
                ("attr3", ("NoneType", "None")),
                ("additional", ("bool", "True")),
            ],
        ),
        [
            (
                "var1",
                (
                    "Variable",
                    ("tuple", []),
                    ("list", [("int", "1"), ("int", "2")]),
                    ("dict", [("units", ("str", "'m'"))]),
                ),
            ),
            (
                "var3",
                (
                    "Variable",
                    ("list", [("str", "'y'")]),
                    ("list", [("int", "1"), ("int", "2"), ("int", "3")]),
                    ("dict", [("a", ("int", "1"))]),
                ),
            ),
            ("var4", ("Variable", ("tuple", []), ("int", "1"), ("dict", []))),
            (
                "group1",
                (
                    "Group",
                    "/group1",
                    None,
                    ("dict", [("attr2", ("str", "'a'"))]),
                    [
                        (
                            "var2",
                            (
                                "Variable",
                                ("list", [("str", "'x'")]),
                                ("list", [("int", "1")]),
                                ("dict", []),
                            ),
                        ),
                        (
                            "group2",
                            (
                                "Group",
                                "/group1/group2",
                                None,
                                ("dict", [("q", ("int", "1")), ("extra", ("int", "2"))]),
                                [],
                            ),
                        ),
                    ],
                ),
            ),
            ("group3", ("Group", "/group3", None, ("dict", []), [])),
        ],
    )
    assert describe(actual) == expected

    assert describe(transformers.as_group({})) == ("Group", "/", None, ("dict", []), [])


# ---------------------------------------------------------------- transform_nested


@pytest.mark.parametrize(
    ["mapping", "expected"],
    (
        ({}, {}),
        ({"a": 1, "b": "x", "c": None}, {"a": 1, "b": "x", "c": None}),
        ({"a": []}, {"a": []}),
        ({"a": [1, 2]}, {"a": [1, 2]}),
        ({"a": [1, {"b": 1}]}, {"a": [1, {"b": 1}]}),
        ({"a": ({"b": 1}, {"b": 2})}, {"a": ({"b": 1}, {"b": 2})}),
        ({"a": [{"b": 1}]}, {"a": {"b": [1]}}),
        ({"a": [{}]}, {"a": {}}),
        ({"a": [{}, {}]}, {"a": {}}),
        (
            {"a": [{"b": 1, "c": 2}, {"b": 3, "c": 4}], "d": 0},
            {"a": {"b": [1, 3], "c": [2, 4]}, "d": 0},
        ),
        # ragged records
        ({"a": [{"b": 1}, {"c": 2}, {"c": 3, "b": 4}]}, {"a": {"b": [1, 4], "c": [2, 3]}}),
        # only one level
        (
            {"a": [{"b": [{"c": 1}, {"c": 2}]}, {"b": [{"c": 3}]}]},
            {"a": {"b": [[{"c": 1}, {"c": 2}], [{"c": 3}]]}},
        ),
        ({"a": {"b": [{"c": 1}, {"c": 2}]}}, {"a": {"b": [{"c": 1}, {"c": 2}]}}),
        # the top-level object itself may be a list of records
        ([{"a": 1}, {"a": 2}], {"a": [1, 2]}),
        (
            [{"a": [{"x": 1}]}, {"a": [{"x": 2}]}],
            {"a": [[{"x": 1}], [{"x": 2}]]},
        ),
        ([{"a": {"x": 1}}, {"a": {"x": 2}}], {"a": {"x": [1, 2]}}),
        (MyDict(a=MyList([MyDict(b=1), {"b": 2}])), {"a": {"b": [1, 2]}}),
    ),
)
def test_transform_nested(mapping, expected):
    actual = transformers.transform_nested(mapping)
    assert typed(actual) == typed(expected)


def test_transform_nested_identity():
    value = [1, 2]
    record = {"b": 1}
    mapping = {"a": value, "r": [record]}
    actual = transformers.transform_nested(mapping)

    assert actual is not mapping
    assert actual["a"] is value
    assert mapping == {"a": [1, 2], "r": [{"b": 1}]}
    assert transformers.transform_nested(mapping=mapping) == {"a": [1, 2], "r": {"b": [1]}}


class BrokenItems(dict):
    def items(self):
        raise TypeError("boom")


class BrokenKeys(dict):
    def keys(self):
        raise TypeError("bang")


def test_transform_nested_errors():
    for value, message in (
        (1, "'int' object has no attribute 'keys'"),
        (None, "'NoneType' object has no attribute 'keys'"),
        ([], "'list' object has no attribute 'keys'"),
        ([1, {"a": 1}], "'list' object has no attribute 'keys'"),
        ("abc", "'str' object has no attribute 'keys'"),
    ):
        with pytest.raises(AttributeError) as excinfo:
            transformers.transform_nested(value)
        assert str(excinfo.value) == message

    with pytest.raises(AttributeError) as excinfo:
        transformers.transform_nested({"a": [{"b": 1}, 2]})
    assert str(excinfo.value) == "'int' object has no attribute 'items'"

    with pytest.raises(AttributeError) as excinfo:
        transformers.transform_nested([{"b": 1}, [1]])
    assert str(excinfo.value) == "'list' object has no attribute 'items'"

    # `TypeError`s from within the steps are propagated unchanged
    with pytest.raises(TypeError) as excinfo:
        transformers.transform_nested([BrokenItems(a=1)])
    assert str(excinfo.value) == "boom"

    with pytest.raises(TypeError) as excinfo:
        transformers.transform_nested({"a": [BrokenItems(a=1)]})
    assert str(excinfo.value) == "boom"

    with pytest.raises(TypeError) as excinfo:
        transformers.transform_nested(BrokenKeys(a=1))
    assert str(excinfo.value) == "bang"

    with pytest.raises(TypeError) as excinfo:
        transformers.transform_nested()
    assert "missing 1 required positional argument: 'mapping'" in str(excinfo.value)


def test_users_attitude_like_pipeline():
    # the way `sar_leader.attitude` combines the transformers
    raw = {
        "preamble": {"record_sequence_number": 3},
        "number_of_points": 2,
        "data_points": [
            {"time": {"day": 1, "ms": 10}, "pitch": (0.5, {"units": "deg"}), "spare1": ""},
            {"time": {"day": 1, "ms": 20}, "pitch": (0.7, {"units": "deg"}), "spare1": ""},
        ],
        "blanks": "",
    }
    cleaned = transformers.remove_spares(raw)
    nested = transformers.transform_nested(cleaned)
    assert typed(nested) == (
        "dict",
        [
            ("preamble", ("dict", [("record_sequence_number", ("int", "3"))])),
            ("number_of_points", ("int", "2")),
            (
                "data_points",
                (
                    "dict",
                    [
                        (
                            "time",
                            (
                                "list",
                                [
                                    ("dict", [("day", ("int", "1")), ("ms", ("int", "10"))]),
                                    ("dict", [("day", ("int", "1")), ("ms", ("int", "20"))]),
                                ],
                            ),
                        ),
                        (
                            "pitch",
                            (
                                "list",
                                [
                                    (
                                        "tuple",
                                        [("float", "0.5"), ("dict", [("units", ("str", "'deg'"))])],
                                    ),
                                    (
                                        "tuple",
                                        [("float", "0.7"), ("dict", [("units", ("str", "'deg'"))])],
                                    ),
                                ],
                            ),
                        ),
                    ],
                ),
            ),
        ],
    )
    inner = transformers.transform_nested(nested["data_points"])
    assert typed(inner["time"]) == (
        "dict",
        [("day", ("list", [("int", "1"), ("int", "1")])), ("ms", ("list", [("int", "10"), ("int", "20")]))],
    )
    assert transformers.separate_attrs(inner["pitch"]) == ([0.5, 0.7], {"units": "deg"})


if __name__ == "__main__":
    import sys

    sys.exit(pytest.main(["-q", "-p", "no:cacheprovider", __file__]))
