"""equivalence check for refactoring 3: ceos_alos2/sar_image/metadata.py (extract_attrs)

run as

    cd /tmp/wt8/e61 && PYTHONPATH=/tmp/wt8/e61 /venv/bin/python _eq/3/equiv.py

`extract_attrs` is called on file descriptors parsed from synthetic bytes (as plain
dicts and as construct containers) and on hand-written headers: every known
attribute with ordinary, missing (-1), NaN and oddly typed values, nested sections,
duplicated names in different orders, the ignored "preamble" section, non-dict
inputs; `transform_metadata` (its only caller) is run on complete synthetic files.
Every case describes the outcome (the returned value with the types of all
containers and the order of the keys, or the type and message of the exception);
the descriptions are compared with the ones recorded from the unchanged code
(`EXPECTED`, at the bottom; long descriptions are stored as sha256).
"""
import datetime as _dt
import hashlib
import pprint
import sys
import types as _types

import numpy as np

from ceos_alos2.array import Array
from ceos_alos2.hierarchy import Group, Variable


# --------------------------------------------------------------------------
# harness: describe results (values *and* types) in a deterministic way, record
# them with `--record`, compare them with the recorded ones otherwise
# --------------------------------------------------------------------------
def describe(obj):
    """deterministic, type-aware description of a result"""
    if isinstance(obj, Group):
        return "Group(path={}, url={}, attrs={}, data={})".format(
            describe(obj.path), describe(obj.url), describe(obj.attrs), describe(obj.data)
        )
    if isinstance(obj, Variable):
        return "Variable(dims={}, data={}, attrs={})".format(
            describe(obj.dims), describe(obj.data), describe(obj.attrs)
        )
    if isinstance(obj, Array):
        return "Array({})".format(
            ", ".join(
                "{}={}".format(name, describe(getattr(obj, name)))
                for name in [
                    "url",
                    "byte_ranges",
                    "shape",
                    "dtype",
                    "type_code",
                    "records_per_chunk",
                    "chunk_offsets",
                ]
            )
        )
    if isinstance(obj, np.ndarray):
        return "ndarray(dtype={}, shape={}, data={})".format(
            obj.dtype, obj.shape, describe(obj.astype(str).tolist())
        )
    if isinstance(obj, dict):
        return "{}{{{}}}".format(
            type(obj).__name__,
            ", ".join("{}: {}".format(describe(k), describe(v)) for k, v in obj.items()),
        )
    if isinstance(obj, (list, tuple)):
        return "{}[{}]".format(type(obj).__name__, ", ".join(describe(v) for v in obj))
    if isinstance(obj, (set, frozenset)):
        return "{}[{}]".format(type(obj).__name__, ", ".join(sorted(describe(v) for v in obj)))
    if isinstance(obj, float) and obj != obj:
        return "float:nan"
    if isinstance(obj, (_dt.datetime, _dt.date)):
        return "{}:{}".format(type(obj).__name__, obj.isoformat())
    if obj is None or isinstance(obj, (bool, int, float, complex, str, bytes, np.generic)):
        return "{}:{!r}".format(type(obj).__name__, obj)
    if isinstance(obj, _types.GeneratorType) or type(obj).__name__.endswith("iterator"):
        # no addresses
        return "<{}>".format(type(obj).__name__)
    if hasattr(obj, "__dict__"):
        return "{}<{}>".format(type(obj).__name__, describe(vars(obj)))
    return "{}:{!r}".format(type(obj).__name__, obj)


def outcome(thunk):
    try:
        result = thunk()
    except Exception as e:  # noqa: BLE001
        return "raised {}: {}".format(type(e).__name__, e)
    return "returned " + describe(result)


def compact(text):
    if len(text) <= 200:
        return text
    return "sha256:{} (len {})".format(hashlib.sha256(text.encode()).hexdigest(), len(text))


CASES = {}


def case(name):
    def register(thunk):
        assert name not in CASES, name
        CASES[name] = thunk
        return thunk

    return register


def main(expected):
    import ceos_alos2

    print("using", ceos_alos2.__file__)
    if "--show" in sys.argv:
        # full descriptions of the cases whose names contain the given text
        pattern = sys.argv[sys.argv.index("--show") + 1]
        for name, thunk in CASES.items():
            if pattern in name:
                print("{}\n    {}".format(name, outcome(thunk)))
        return 0

    actual = {name: compact(outcome(thunk)) for name, thunk in CASES.items()}
    if "--record" in sys.argv:
        print("EXPECTED = \\")
        pprint.pprint(actual, width=100, sort_dicts=False)
        return 0

    failures = []
    for name, value in actual.items():
        if name not in expected:
            failures.append((name, "<not recorded>", value))
        elif expected[name] != value:
            failures.append((name, expected[name], value))
    for name in expected:
        if name not in actual:
            failures.append((name, expected[name], "<missing>"))

    for name, want, got in failures:
        print("MISMATCH {}\n   recorded: {}\n   actual:   {}".format(name, want, got))
    print("{} cases, {} mismatches".format(len(actual), len(failures)))
    return 1 if failures else 0

import struct


# --------------------------------------------------------------------------
# synthetic CEOS bytes
# --------------------------------------------------------------------------
def preamble(seq, record_type, length):
    return struct.pack(">IBBBBI", seq, 50, record_type, 18, 20, length)


def processed_record(seq, line, n_data_bytes, *, scan_id=0, doy=10, fill=None, length=None):
    """record type 11 (level 1.1 / 1.5): 192 bytes of prefix + pixel data"""
    length = 192 + n_data_bytes if length is None else length
    prefix = b"".join(
        [
            preamble(seq, 11, length),
            struct.pack(">6I", line, 1, 0, n_data_bytes // 2, 0, 1),
            struct.pack(">3I", 2020, doy, 45_462_451 + line),
            struct.pack(">4H", 2, 0, 0, 1),
            struct.pack(">2I", 2_100_000 + line, scan_id),
            struct.pack(">3I", 700_000, 720_000 + line, 740_000),
            struct.pack(">3I", 1000, 2000, 3000 + line),
            struct.pack(">3I", 11, 12, 13),
            struct.pack(">2I", 30_000_000, 1_000_000),
            b"\x00" * 20,
            struct.pack(">I", 1),
            struct.pack(">6I", 35_000_000, 35_100_000, 35_200_000 + line, 139_000_000, 1, 2),
            struct.pack(">I", 4_000_000),
            b"\x00" * 4,
            struct.pack(">2I", 4_100_000, 500_000),
            b"ab\x00\x00",
            struct.pack(">2I", 600_000, 190_000_000),
            b"\x00" * 8,
        ]
    )
    assert len(prefix) == 192, len(prefix)
    data = bytes((fill if fill is not None else (seq + i) % 251) for i in range(n_data_bytes))
    return prefix + data


def signal_record(seq, line, n_data_bytes, *, scan_id=3, channel_id=1, frame=710):
    """record type 10 (level 1.0 / 1.1 signal data): 544 bytes of prefix + data"""
    length = 544 + n_data_bytes
    prefix = b"".join(
        [
            preamble(seq, 10, length),
            struct.pack(">6I", line, 1, 2, n_data_bytes // 8, 3, 0),
            struct.pack(">3I", 2019, 283, 12_345_678 + line),
            struct.pack(">4H", channel_id, 0, 1, 0),
            struct.pack(">2I", 1_500_000, scan_id),
            struct.pack(">2H", 1, 0),
            struct.pack(">4I", 30_000, 0, 1, 2),
            struct.pack(">Q", 12_345_678_901 + line),
            struct.pack(">2I", 40, 0),
            struct.pack(">4I", 1, 2, 3, 4),
            struct.pack(">3I", 800_000, 5_000, 0),
            struct.pack(">5I", 1, 34_500_000, 135_250_000, 628_000, 700_000),
            struct.pack(">6I", 1, 2, 3, 4, 5, 6),
            struct.pack(">2I", 190_000_000, 191_000_000),
            struct.pack(">3I", 7, 8, 9),
            struct.pack(">6I", 10, 11, 12, 13, 14, 15 + line),
            struct.pack(">2I", 2, 17 + line),
            b"\x00" * 60,
            struct.pack(">I", frame),
            b"aux" + b"\x00" * 253,
        ]
    )
    assert len(prefix) == 544, len(prefix)
    return prefix + bytes((seq * 3 + i) % 256 for i in range(n_data_bytes))


def _fill(subcon, values, prefix=()):
    from construct import Renamed, Struct

    name = subcon.name
    inner = subcon.subcon if isinstance(subcon, Renamed) else subcon
    if name == "preamble":
        return preamble(1, 192, 720)
    if isinstance(inner, Struct):
        return b"".join(_fill(sub, values, prefix + (name,)) for sub in inner.subcons)
    width = inner.sizeof()
    value = values.get(".".join(prefix + (name,)), values.get(name, ""))
    text = str(value)
    assert len(text) <= width, (name, text, width)
    if isinstance(value, int):
        return text.rjust(width).encode("ascii")
    return text.ljust(width).encode("ascii")


def file_descriptor(n_records, record_length, n_lines=None, n_pixels=4, type_code="IU2", **extra):
    """720 bytes of file descriptor; `extra` overrides fields by name"""
    from ceos_alos2.sar_image.file_descriptor import file_descriptor_record

    values = {
        "ascii_ebcdic_flag": "A",
        "format_control_document_id": "CEOS-SAR",
        "file_number": 2,
        "file_id": "IMOP",
        "number_of_sar_data_records": n_records,
        "sar_data_record_length": record_length,
        "number_of_lines_per_dataset": n_records if n_lines is None else n_lines,
        "number_of_data_groups_per_line": n_pixels,
        "interleaving_id": "BSQ",
        "sar_data_format_type_code": type_code,
        "sar_data_format_type_indicator": "UNSIGNED INTEGER*2",
    }
    values.update(extra)
    content = b"".join(_fill(sub, values) for sub in file_descriptor_record.subcons)
    assert len(content) == 720, len(content)
    return content


def image_file(kind, n_records, n_data_bytes, **descriptor):
    make = {"processed": processed_record, "signal": signal_record}[kind]
    prefix = {"processed": 192, "signal": 544}[kind]
    records = [make(index + 1, index + 1, n_data_bytes) for index in range(n_records)]
    header = file_descriptor(n_records, prefix + n_data_bytes, **descriptor)
    return header + b"".join(records)


class LoggingFile:
    """file-like object that records the requests it receives"""

    def __init__(self, content, log=None, coerce=False):
        import io as _io

        self._f = _io.BytesIO(content)
        self.log = [] if log is None else log
        self.coerce = coerce

    def read(self, size=-1):
        self.log.append(("read", size, self._f.tell()))
        if self.coerce:
            # fsspec's buffered files accept anything `int` accepts
            size = -1 if size is None else int(size)
        return self._f.read(size)

    def seek(self, offset, whence=0):
        self.log.append(("seek", offset, whence))
        return self._f.seek(offset, whence)

    def tell(self):
        return self._f.tell()

    def close(self):
        self.log.append(("close",))

    def __enter__(self):
        return self

    def __exit__(self, *args):
        self.close()

import collections  # noqa: E402
import copy  # noqa: E402
import decimal  # noqa: E402
import fractions  # noqa: E402

from ceos_alos2.sar_image import io as sio  # noqa: E402
from ceos_alos2.sar_image import metadata as md  # noqa: E402
from ceos_alos2.sar_image.file_descriptor import file_descriptor_record  # noqa: E402
from ceos_alos2.utils import to_dict  # noqa: E402

nan = float("nan")


def attrs_of(header):
    snapshot = copy.deepcopy(header)
    result = md.extract_attrs(header)
    return {
        "type": type(result).__name__,
        "result": result,
        "input unchanged": describe(snapshot) == describe(header),
        "fresh": result is not header,
    }


# --------------------------------------------------------------------------
# headers as they come out of the reader
# --------------------------------------------------------------------------
def parsed_header(**fields):
    content = file_descriptor(3, 200, **fields)
    return to_dict(file_descriptor_record.parse(content))


_descriptor_fields = {
    "plain": {},
    "level-1.5": {"maximum_data_range_of_pixel": 65535},
    "zero-range": {"maximum_data_range_of_pixel": 0},
    "negative-range": {"maximum_data_range_of_pixel": -5},
    "minus-one-range": {"maximum_data_range_of_pixel": -1},
    "specan": {
        "number_of_burst_data": 5,
        "number_of_lines_per_burst": 123,
        "number_of_overlap_lines_with_adjacent_bursts": 7,
    },
    "specan-zeros": {
        "number_of_burst_data": 0,
        "number_of_lines_per_burst": 0,
        "number_of_overlap_lines_with_adjacent_bursts": 0,
    },
    "specan-minus-one": {
        "number_of_burst_data": -1,
        "number_of_lines_per_burst": -1,
        "number_of_overlap_lines_with_adjacent_bursts": -1,
    },
    "everything": {
        "maximum_data_range_of_pixel": 255,
        "number_of_burst_data": 2,
        "number_of_lines_per_burst": 30,
        "number_of_overlap_lines_with_adjacent_bursts": 4,
        "interleaving_id": "BIL",
    },
    "blank-interleaving": {"interleaving_id": ""},
}

for _name, _fields in _descriptor_fields.items():

    @case(f"extract_attrs/parsed/{_name}")
    def _(fields=_fields):
        return attrs_of(parsed_header(**fields))

    @case(f"extract_attrs/parsed-container/{_name}")
    def _(fields=_fields):
        # the construct container itself (a dict subclass, with "_io" entries)
        header = file_descriptor_record.parse(file_descriptor(3, 200, **fields))
        return md.extract_attrs(header)

    @case(f"transform_metadata/parsed/{_name}")
    def _(fields=_fields):
        content = file_descriptor(2, 200, **fields) + b"".join(
            processed_record(i, i, 8) for i in (1, 2)
        )
        header, metadata = sio.read_metadata(LoggingFile(content), 2)
        return md.transform_metadata(header, metadata)


# --------------------------------------------------------------------------
# hand-written headers
# --------------------------------------------------------------------------
_headers = {
    "empty": {},
    "preamble-only": {"preamble": {}},
    "preamble-with-known-names": {"preamble": {"interleaving_id": "BSQ", "number_of_burst_data": 4}},
    "known-attrs": {
        "interleaving_id": "BSQ",
        "number_of_burst_data": 5,
        "number_of_lines_per_burst": 1,
        "number_of_overlap_lines_with_adjacent_bursts": 3,
    },
    "unknown-attrs": {"a": 1, "b": {"c": 2, "d": [1]}, "valid_range": [1, 2]},
    "range/27": {"maximum_data_range_of_pixel": 27},
    "range/nan": {"maximum_data_range_of_pixel": nan},
    "range/-1": {"maximum_data_range_of_pixel": -1},
    "range/-1.0": {"maximum_data_range_of_pixel": -1.0},
    "range/0": {"maximum_data_range_of_pixel": 0},
    "range/float": {"maximum_data_range_of_pixel": 2.5},
    "range/inf": {"maximum_data_range_of_pixel": float("inf")},
    "range/True": {"maximum_data_range_of_pixel": True},
    "range/numpy": {"maximum_data_range_of_pixel": np.float32(7)},
    "range/numpy-nan": {"maximum_data_range_of_pixel": np.float64("nan")},
    "range/numpy-int": {"maximum_data_range_of_pixel": np.int16(-1)},
    "range/fraction": {"maximum_data_range_of_pixel": fractions.Fraction(-2, 2)},
    "range/decimal": {"maximum_data_range_of_pixel": decimal.Decimal("NaN")},
    "range/str": {"maximum_data_range_of_pixel": "27"},
    "range/None": {"maximum_data_range_of_pixel": None},
    "range/list": {"maximum_data_range_of_pixel": [1]},
    "range/complex": {"maximum_data_range_of_pixel": 1j},
    "range/array": {"maximum_data_range_of_pixel": np.array([1, 2])},
    "range/already-valid_range": {"valid_range": [0, 1], "maximum_data_range_of_pixel": 9},
    "bursts/-1": {"number_of_burst_data": -1, "number_of_lines_per_burst": 2},
    "bursts/-1.0": {"number_of_lines_per_burst": -1.0, "number_of_burst_data": 1},
    "bursts/lists": {
        "number_of_burst_data": [],
        "number_of_lines_per_burst": [0],
        "number_of_overlap_lines_with_adjacent_bursts": [-1],
    },
    "bursts/None": {"number_of_burst_data": None, "number_of_lines_per_burst": nan},
    "bursts/array": {"number_of_burst_data": np.array([1, -1])},
    "bursts/tuple": {"number_of_burst_data": (), "number_of_lines_per_burst": ""},
    "interleaving/list": {"interleaving_id": []},
    "interleaving/non-empty-list": {"interleaving_id": ["BSQ"]},
    "interleaving/falsy": {"interleaving_id": ""},
    "interleaving/-1": {"interleaving_id": -1},
    "interleaving/tuple": {"interleaving_id": ()},
    "interleaving/list-subclass": {"interleaving_id": collections.UserList()},
    "nested/one-level": {
        "x": {"interleaving_id": "BIP", "other": 1},
        "y": {"maximum_data_range_of_pixel": 3, "number_of_burst_data": -1},
    },
    "nested/two-levels": {"x": {"y": {"interleaving_id": "BIP"}}},
    "nested/known-name-for-a-section": {"interleaving_id": {"number_of_burst_data": 2}},
    "nested/known-name-for-a-section-of-sections": {
        "interleaving_id": {"interleaving_id": {"a": 1}}
    },
    "nested/section-called-maximum": {"x": {"maximum_data_range_of_pixel": {"a": 1}}},
    "nested/ordered-dict": {"x": collections.OrderedDict(interleaving_id="BSQ")},
    "nested/user-dict": {"x": collections.UserDict(interleaving_id="BSQ")},
    "duplicates/nested-later": {"interleaving_id": "top", "x": {"interleaving_id": "nested"}},
    "duplicates/nested-earlier": {"x": {"interleaving_id": "nested"}, "interleaving_id": "top"},
    "duplicates/two-sections": {
        "x": {"number_of_burst_data": 1, "interleaving_id": "x"},
        "y": {"interleaving_id": "y", "number_of_burst_data": -1},
    },
    "duplicates/order": {
        "number_of_lines_per_burst": 1,
        "x": {"interleaving_id": "x", "number_of_lines_per_burst": 2},
        "number_of_burst_data": 3,
        "y": {"interleaving_id": "y"},
        "maximum_data_range_of_pixel": 4,
    },
    "duplicates/last-one-is-dropped": {
        "number_of_burst_data": 1,
        "x": {"number_of_burst_data": -1},
    },
    "duplicates/only-the-last-one-is-transformed": {
        "maximum_data_range_of_pixel": "not a number",
        "x": {"maximum_data_range_of_pixel": 5},
    },
    "duplicates/in-ignored-section": {
        "preamble": {"interleaving_id": "ignored"},
        "interleaving_id": "kept",
    },
    "order/reversed": {
        "number_of_overlap_lines_with_adjacent_bursts": 3,
        "number_of_lines_per_burst": 1,
        "number_of_burst_data": 5,
        "maximum_data_range_of_pixel": 8,
        "interleaving_id": "BSQ",
    },
    "keys/non-string": {1: 2, None: 3, ("a", "b"): 4, "interleaving_id": "BSQ"},
    "keys/preamble-is-not-a-section": {"preamble": 4, "interleaving_id": "BSQ"},
    "keys/nested-preamble-is-kept": {"x": {"preamble": {"interleaving_id": "a"}}},
}

for _name, _header in _headers.items():

    @case(f"extract_attrs/{_name}")
    def _(header=_header):
        return attrs_of(copy.deepcopy(header))


@case("extract_attrs/not-a-dict")
def _():
    values = [None, 3, "abc", [("interleaving_id", "BSQ")], [], (), {1, 2}]
    return [outcome(lambda v=v: md.extract_attrs(v)) for v in values]


@case("extract_attrs/mappings")
def _():
    values = [
        collections.OrderedDict(interleaving_id="BSQ", number_of_burst_data=-1),
        collections.UserDict(interleaving_id="BSQ"),
        collections.ChainMap({"interleaving_id": "BSQ"}, {"number_of_burst_data": 4}),
        collections.Counter(number_of_burst_data=4),
    ]
    return [outcome(lambda v=v: md.extract_attrs(v)) for v in values]


@case("extract_attrs/independent-results")
def _():
    header = {"maximum_data_range_of_pixel": 3, "number_of_burst_data": 2}
    first = md.extract_attrs(header)
    second = md.extract_attrs(header)
    first["valid_range"].append("changed")
    first["extra"] = 1
    third = md.extract_attrs(header)
    return [first, second, third, first["valid_range"] is second["valid_range"]]


@case("extract_attrs/values-are-passed-through-as-they-are")
def _():
    marker = ["BSQ"]
    result = md.extract_attrs({"interleaving_id": marker, "number_of_burst_data": marker})
    return [result["interleaving_id"] is marker, result["number_of_burst_data"] is marker]


@case("extract_attrs/comparison-order")
def _():
    # the value is compared with -1 first and only then passed to isnan
    events = []

    class Value:
        def __ne__(self, other):
            events.append(("ne", other))
            return True

        def __eq__(self, other):
            events.append(("eq", other))
            return False

        __hash__ = None

        def __float__(self):
            events.append(("float",))
            return 1.0

        def __repr__(self):
            return "Value()"

    result = md.extract_attrs(
        {"maximum_data_range_of_pixel": Value(), "number_of_burst_data": Value()}
    )
    return [describe(result), events]


@case("module/public-names")
def _():
    names = [
        "extract_format_type",
        "extract_shape",
        "extract_attrs",
        "apply_overrides",
        "deduplicate_attrs",
        "transform_line_metadata",
        "transform_metadata",
        "dtypes",
    ]
    return {name: hasattr(md, name) for name in names}


# --------------------------------------------------------------------------
# recorded from the unchanged code (git HEAD) with `python equiv.py --record`
# --------------------------------------------------------------------------
EXPECTED = \
{'extract_attrs/parsed/plain': "returned dict{str:'type': str:'dict', str:'result': "
                               "dict{str:'interleaving_id': str:'BSQ'}, str:'input unchanged': "
                               "bool:True, str:'fresh': bool:True}",
 'extract_attrs/parsed-container/plain': "returned dict{str:'interleaving_id': str:'BSQ'}",
 'transform_metadata/parsed/plain': 'sha256:ec0763930161c45e2b34ae5ae4e757d1791ade2878598ccebd335a14f8d10de1 '
                                    '(len 4862)',
 'extract_attrs/parsed/level-1.5': "returned dict{str:'type': str:'dict', str:'result': "
                                   "dict{str:'interleaving_id': str:'BSQ', str:'valid_range': "
                                   "list[int:0, int:65535]}, str:'input unchanged': bool:True, "
                                   "str:'fresh': bool:True}",
 'extract_attrs/parsed-container/level-1.5': "returned dict{str:'interleaving_id': str:'BSQ', "
                                             "str:'valid_range': list[int:0, int:65535]}",
 'transform_metadata/parsed/level-1.5': 'sha256:a04e4bbd03cdf268c4ce9a08599d536b532b1cf4fe949ba7c897c6826edaa55e '
                                        '(len 4905)',
 'extract_attrs/parsed/zero-range': "returned dict{str:'type': str:'dict', str:'result': "
                                    "dict{str:'interleaving_id': str:'BSQ', str:'valid_range': "
                                    "list[int:0, int:0]}, str:'input unchanged': bool:True, "
                                    "str:'fresh': bool:True}",
 'extract_attrs/parsed-container/zero-range': "returned dict{str:'interleaving_id': str:'BSQ', "
                                              "str:'valid_range': list[int:0, int:0]}",
 'transform_metadata/parsed/zero-range': 'sha256:a88dd8e968eda93b8e85efc11d3001030111044045ff48dcfb63ff7bfa046641 '
                                         '(len 4901)',
 'extract_attrs/parsed/negative-range': "returned dict{str:'type': str:'dict', str:'result': "
                                        "dict{str:'interleaving_id': str:'BSQ', str:'valid_range': "
                                        "list[int:0, int:-5]}, str:'input unchanged': bool:True, "
                                        "str:'fresh': bool:True}",
 'extract_attrs/parsed-container/negative-range': "returned dict{str:'interleaving_id': str:'BSQ', "
                                                  "str:'valid_range': list[int:0, int:-5]}",
 'transform_metadata/parsed/negative-range': 'sha256:b6fb22b7980754ff2979111762fd793d431a57813562c3d445ac6a31dc1bb35b '
                                             '(len 4902)',
 'extract_attrs/parsed/minus-one-range': "returned dict{str:'type': str:'dict', str:'result': "
                                         "dict{str:'interleaving_id': str:'BSQ'}, str:'input "
                                         "unchanged': bool:True, str:'fresh': bool:True}",
 'extract_attrs/parsed-container/minus-one-range': "returned dict{str:'interleaving_id': "
                                                   "str:'BSQ'}",
 'transform_metadata/parsed/minus-one-range': 'sha256:ec0763930161c45e2b34ae5ae4e757d1791ade2878598ccebd335a14f8d10de1 '
                                              '(len 4862)',
 'extract_attrs/parsed/specan': 'sha256:96063b5f5d03aacd64230ed9202ff27875e0bda051ffc572ff9768e1d1bb1638 '
                                '(len 285)',
 'extract_attrs/parsed-container/specan': "returned dict{str:'interleaving_id': str:'BSQ', "
                                          "str:'number_of_burst_data': int:5, "
                                          "str:'number_of_lines_per_burst': int:123, "
                                          "str:'number_of_overlap_lines_with_adjacent_bursts': "
                                          'int:7}',
 'transform_metadata/parsed/specan': 'sha256:c4de163817315132ac26561aed8f73704a3bc526dd6102c428b87d4cafe9551b '
                                     '(len 4998)',
 'extract_attrs/parsed/specan-zeros': 'sha256:e71ed45ca36c11bfe35457451806f0d6280247ae2410c5ad7d6341218040ee20 '
                                      '(len 283)',
 'extract_attrs/parsed-container/specan-zeros': "returned dict{str:'interleaving_id': str:'BSQ', "
                                                "str:'number_of_burst_data': int:0, "
                                                "str:'number_of_lines_per_burst': int:0, "
                                                "str:'number_of_overlap_lines_with_adjacent_bursts': "
                                                'int:0}',
 'transform_metadata/parsed/specan-zeros': 'sha256:5c55f24a1127f3dd26a64d6b209258fd9cb7634d2a33184ba4802f19edcf3a76 '
                                           '(len 4996)',
 'extract_attrs/parsed/specan-minus-one': "returned dict{str:'type': str:'dict', str:'result': "
                                          "dict{str:'interleaving_id': str:'BSQ'}, str:'input "
                                          "unchanged': bool:True, str:'fresh': bool:True}",
 'extract_attrs/parsed-container/specan-minus-one': "returned dict{str:'interleaving_id': "
                                                    "str:'BSQ'}",
 'transform_metadata/parsed/specan-minus-one': 'sha256:ec0763930161c45e2b34ae5ae4e757d1791ade2878598ccebd335a14f8d10de1 '
                                               '(len 4862)',
 'extract_attrs/parsed/everything': 'sha256:396391ca63b64b05f7f366a8b5e4053dab3cc475a42adee3afe8524cafe667c3 '
                                    '(len 325)',
 'extract_attrs/parsed-container/everything': 'sha256:52fb7c32eccaed0d79ffb8f77b5fc6f3889ee410077cde9afd863ad964c4bb6d '
                                              '(len 223)',
 'transform_metadata/parsed/everything': 'sha256:75e4502c406fe8e3483cfb104208f1cc752c52d1e1af14e4eb46180cbaaeb6c1 '
                                         '(len 5038)',
 'extract_attrs/parsed/blank-interleaving': "returned dict{str:'type': str:'dict', str:'result': "
                                            "dict{str:'interleaving_id': str:''}, str:'input "
                                            "unchanged': bool:True, str:'fresh': bool:True}",
 'extract_attrs/parsed-container/blank-interleaving': "returned dict{str:'interleaving_id': "
                                                      "str:''}",
 'transform_metadata/parsed/blank-interleaving': 'sha256:0d43d473310a9e340d3de1de25b1c9f49a72eee4e868b13ddfb1831cd3f4b632 '
                                                 '(len 4859)',
 'extract_attrs/empty': "returned dict{str:'type': str:'dict', str:'result': dict{}, str:'input "
                        "unchanged': bool:True, str:'fresh': bool:True}",
 'extract_attrs/preamble-only': "returned dict{str:'type': str:'dict', str:'result': dict{}, "
                                "str:'input unchanged': bool:True, str:'fresh': bool:True}",
 'extract_attrs/preamble-with-known-names': "returned dict{str:'type': str:'dict', str:'result': "
                                            "dict{}, str:'input unchanged': bool:True, "
                                            "str:'fresh': bool:True}",
 'extract_attrs/known-attrs': 'sha256:d4063bdaf914c372bce599192b4b4cafc9ba7eed81c5ce8d537b2a21eff1fa6f '
                              '(len 283)',
 'extract_attrs/unknown-attrs': "returned dict{str:'type': str:'dict', str:'result': dict{}, "
                                "str:'input unchanged': bool:True, str:'fresh': bool:True}",
 'extract_attrs/range/27': "returned dict{str:'type': str:'dict', str:'result': "
                           "dict{str:'valid_range': list[int:0, int:27]}, str:'input unchanged': "
                           "bool:True, str:'fresh': bool:True}",
 'extract_attrs/range/nan': "returned dict{str:'type': str:'dict', str:'result': dict{}, "
                            "str:'input unchanged': bool:True, str:'fresh': bool:True}",
 'extract_attrs/range/-1': "returned dict{str:'type': str:'dict', str:'result': dict{}, str:'input "
                           "unchanged': bool:True, str:'fresh': bool:True}",
 'extract_attrs/range/-1.0': "returned dict{str:'type': str:'dict', str:'result': dict{}, "
                             "str:'input unchanged': bool:True, str:'fresh': bool:True}",
 'extract_attrs/range/0': "returned dict{str:'type': str:'dict', str:'result': "
                          "dict{str:'valid_range': list[int:0, int:0]}, str:'input unchanged': "
                          "bool:True, str:'fresh': bool:True}",
 'extract_attrs/range/float': "returned dict{str:'type': str:'dict', str:'result': "
                              "dict{str:'valid_range': list[int:0, float:2.5]}, str:'input "
                              "unchanged': bool:True, str:'fresh': bool:True}",
 'extract_attrs/range/inf': "returned dict{str:'type': str:'dict', str:'result': "
                            "dict{str:'valid_range': list[int:0, float:inf]}, str:'input "
                            "unchanged': bool:True, str:'fresh': bool:True}",
 'extract_attrs/range/True': "returned dict{str:'type': str:'dict', str:'result': "
                             "dict{str:'valid_range': list[int:0, bool:True]}, str:'input "
                             "unchanged': bool:True, str:'fresh': bool:True}",
 'extract_attrs/range/numpy': "returned dict{str:'type': str:'dict', str:'result': "
                              "dict{str:'valid_range': list[int:0, float32:np.float32(7.0)]}, "
                              "str:'input unchanged': bool:True, str:'fresh': bool:True}",
 'extract_attrs/range/numpy-nan': "returned dict{str:'type': str:'dict', str:'result': dict{}, "
                                  "str:'input unchanged': bool:True, str:'fresh': bool:True}",
 'extract_attrs/range/numpy-int': "returned dict{str:'type': str:'dict', str:'result': dict{}, "
                                  "str:'input unchanged': bool:True, str:'fresh': bool:True}",
 'extract_attrs/range/fraction': "returned dict{str:'type': str:'dict', str:'result': dict{}, "
                                 "str:'input unchanged': bool:True, str:'fresh': bool:True}",
 'extract_attrs/range/decimal': "returned dict{str:'type': str:'dict', str:'result': dict{}, "
                                "str:'input unchanged': bool:True, str:'fresh': bool:True}",
 'extract_attrs/range/str': 'raised TypeError: must be real number, not str',
 'extract_attrs/range/None': 'raised TypeError: must be real number, not NoneType',
 'extract_attrs/range/list': 'raised TypeError: must be real number, not list',
 'extract_attrs/range/complex': 'raised TypeError: must be real number, not complex',
 'extract_attrs/range/array': 'raised ValueError: The truth value of an array with more than one '
                              'element is ambiguous. Use a.any() or a.all()',
 'extract_attrs/range/already-valid_range': "returned dict{str:'type': str:'dict', str:'result': "
                                            "dict{str:'valid_range': list[int:0, int:9]}, "
                                            "str:'input unchanged': bool:True, str:'fresh': "
                                            'bool:True}',
 'extract_attrs/bursts/-1': "returned dict{str:'type': str:'dict', str:'result': "
                            "dict{str:'number_of_lines_per_burst': int:2}, str:'input unchanged': "
                            "bool:True, str:'fresh': bool:True}",
 'extract_attrs/bursts/-1.0': "returned dict{str:'type': str:'dict', str:'result': "
                              "dict{str:'number_of_burst_data': int:1}, str:'input unchanged': "
                              "bool:True, str:'fresh': bool:True}",
 'extract_attrs/bursts/lists': 'sha256:4ac266ad6a25210e887db7e0d2caa0d19f6c5a7c09427bd28f328cd8724e2ebd '
                               '(len 227)',
 'extract_attrs/bursts/None': 'sha256:bf24f340275271f76fc011d181c543d6d8d9292e93b4e11533c5a44f2ba0132e '
                              '(len 202)',
 'extract_attrs/bursts/array': 'raised ValueError: The truth value of an array with more than one '
                               'element is ambiguous. Use a.any() or a.all()',
 'extract_attrs/bursts/tuple': "returned dict{str:'type': str:'dict', str:'result': "
                               "dict{str:'number_of_burst_data': tuple[], "
                               "str:'number_of_lines_per_burst': str:''}, str:'input unchanged': "
                               "bool:True, str:'fresh': bool:True}",
 'extract_attrs/interleaving/list': "returned dict{str:'type': str:'dict', str:'result': dict{}, "
                                    "str:'input unchanged': bool:True, str:'fresh': bool:True}",
 'extract_attrs/interleaving/non-empty-list': "returned dict{str:'type': str:'dict', str:'result': "
                                              "dict{str:'interleaving_id': list[str:'BSQ']}, "
                                              "str:'input unchanged': bool:True, str:'fresh': "
                                              'bool:True}',
 'extract_attrs/interleaving/falsy': "returned dict{str:'type': str:'dict', str:'result': "
                                     "dict{str:'interleaving_id': str:''}, str:'input unchanged': "
                                     "bool:True, str:'fresh': bool:True}",
 'extract_attrs/interleaving/-1': "returned dict{str:'type': str:'dict', str:'result': "
                                  "dict{str:'interleaving_id': int:-1}, str:'input unchanged': "
                                  "bool:True, str:'fresh': bool:True}",
 'extract_attrs/interleaving/tuple': "returned dict{str:'type': str:'dict', str:'result': "
                                     "dict{str:'interleaving_id': tuple[]}, str:'input unchanged': "
                                     "bool:True, str:'fresh': bool:True}",
 'extract_attrs/interleaving/list-subclass': "returned dict{str:'type': str:'dict', str:'result': "
                                             "dict{str:'interleaving_id': "
                                             "UserList<dict{str:'data': list[]}>}, str:'input "
                                             "unchanged': bool:True, str:'fresh': bool:True}",
 'extract_attrs/nested/one-level': "returned dict{str:'type': str:'dict', str:'result': "
                                   "dict{str:'interleaving_id': str:'BIP', str:'valid_range': "
                                   "list[int:0, int:3]}, str:'input unchanged': bool:True, "
                                   "str:'fresh': bool:True}",
 'extract_attrs/nested/two-levels': "returned dict{str:'type': str:'dict', str:'result': dict{}, "
                                    "str:'input unchanged': bool:True, str:'fresh': bool:True}",
 'extract_attrs/nested/known-name-for-a-section': "returned dict{str:'type': str:'dict', "
                                                  "str:'result': dict{str:'number_of_burst_data': "
                                                  "int:2}, str:'input unchanged': bool:True, "
                                                  "str:'fresh': bool:True}",
 'extract_attrs/nested/known-name-for-a-section-of-sections': "returned dict{str:'type': "
                                                              "str:'dict', str:'result': "
                                                              "dict{str:'interleaving_id': "
                                                              "dict{str:'a': int:1}}, str:'input "
                                                              "unchanged': bool:True, str:'fresh': "
                                                              'bool:True}',
 'extract_attrs/nested/section-called-maximum': 'raised TypeError: must be real number, not dict',
 'extract_attrs/nested/ordered-dict': "returned dict{str:'type': str:'dict', str:'result': "
                                      "dict{str:'interleaving_id': str:'BSQ'}, str:'input "
                                      "unchanged': bool:True, str:'fresh': bool:True}",
 'extract_attrs/nested/user-dict': "returned dict{str:'type': str:'dict', str:'result': dict{}, "
                                   "str:'input unchanged': bool:True, str:'fresh': bool:True}",
 'extract_attrs/duplicates/nested-later': "returned dict{str:'type': str:'dict', str:'result': "
                                          "dict{str:'interleaving_id': str:'nested'}, str:'input "
                                          "unchanged': bool:True, str:'fresh': bool:True}",
 'extract_attrs/duplicates/nested-earlier': "returned dict{str:'type': str:'dict', str:'result': "
                                            "dict{str:'interleaving_id': str:'top'}, str:'input "
                                            "unchanged': bool:True, str:'fresh': bool:True}",
 'extract_attrs/duplicates/two-sections': "returned dict{str:'type': str:'dict', str:'result': "
                                          "dict{str:'interleaving_id': str:'y'}, str:'input "
                                          "unchanged': bool:True, str:'fresh': bool:True}",
 'extract_attrs/duplicates/order': 'sha256:2000658c238dce1a74b5368a728f1de2bd7d9c240179ddcfa30995bfe2bfc9d0 '
                                   '(len 261)',
 'extract_attrs/duplicates/last-one-is-dropped': "returned dict{str:'type': str:'dict', "
                                                 "str:'result': dict{}, str:'input unchanged': "
                                                 "bool:True, str:'fresh': bool:True}",
 'extract_attrs/duplicates/only-the-last-one-is-transformed': "returned dict{str:'type': "
                                                              "str:'dict', str:'result': "
                                                              "dict{str:'valid_range': list[int:0, "
                                                              "int:5]}, str:'input unchanged': "
                                                              "bool:True, str:'fresh': bool:True}",
 'extract_attrs/duplicates/in-ignored-section': "returned dict{str:'type': str:'dict', "
                                                "str:'result': dict{str:'interleaving_id': "
                                                "str:'kept'}, str:'input unchanged': bool:True, "
                                                "str:'fresh': bool:True}",
 'extract_attrs/order/reversed': 'sha256:a073ede8cfea25ca15c271846876aa20a7ad3625b1aa79fdf520611101f377c7 '
                                 '(len 322)',
 'extract_attrs/keys/non-string': "returned dict{str:'type': str:'dict', str:'result': "
                                  "dict{str:'interleaving_id': str:'BSQ'}, str:'input unchanged': "
                                  "bool:True, str:'fresh': bool:True}",
 'extract_attrs/keys/preamble-is-not-a-section': "returned dict{str:'type': str:'dict', "
                                                 "str:'result': dict{str:'interleaving_id': "
                                                 "str:'BSQ'}, str:'input unchanged': bool:True, "
                                                 "str:'fresh': bool:True}",
 'extract_attrs/keys/nested-preamble-is-kept': "returned dict{str:'type': str:'dict', "
                                               "str:'result': dict{}, str:'input unchanged': "
                                               "bool:True, str:'fresh': bool:True}",
 'extract_attrs/not-a-dict': 'sha256:28e329065a8fbf64dc4d09147d025902d000fe1b6820c5cebbaa4c28e995b8f0 '
                             '(len 498)',
 'extract_attrs/mappings': 'sha256:b535d899af9b641529904390346006c369e182b5cce373fcffdb93f065b8e1eb '
                           '(len 269)',
 'extract_attrs/independent-results': 'sha256:2b7665685dc65200455aed56bb77caaf0c447f1a7ae725e6fef3582ccea8b7b5 '
                                      '(len 300)',
 'extract_attrs/values-are-passed-through-as-they-are': 'returned list[bool:True, bool:True]',
 'extract_attrs/comparison-order': 'returned list[str:"dict{str:\'valid_range\': list[int:0, '
                                   'Value<dict{}>], str:\'number_of_burst_data\': Value<dict{}>}", '
                                   "list[tuple[str:'ne', int:-1], tuple[str:'float'], "
                                   "tuple[str:'ne', int:-1]]]",
 'module/public-names': 'sha256:503587b4a3d1ccac4f112d3ae43f7f666ceebb77b4db6cafb1d4f3e9c10a0a21 '
                        '(len 289)'}

if __name__ == "__main__":
    sys.exit(main(EXPECTED))
