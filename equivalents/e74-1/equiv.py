"""Equivalence check for refactoring 1 (summary.parse_line / with_lineno / parse_summary).

Run as

    cd /tmp/wt9/e74 && PYTHONPATH=/tmp/wt9/e74 /venv/bin/python _eq/1/equiv.py

(or through pytest). ``EXPECTED`` was recorded from the unchanged code with
``equiv.py --record``; the script has to pass with and without ``patch.diff``.
"""

import pprint
import sys

from ceos_alos2 import summary

try:
    ExceptionGroup
except NameError:  # pragma: no cover
    from exceptiongroup import ExceptionGroup


def describe_exc(e, depth=0):
    """a compact text form of an exception: type, arguments and how it is chained"""
    if e is None:
        return None

    parts = [f"{type(e).__module__}.{type(e).__qualname__}{e.args!r}"]
    if isinstance(e, OSError):
        parts.append(f"errno={e.errno!r} filename={e.filename!r}")
    if isinstance(e, ExceptionGroup):
        members = ", ".join(describe_exc(sub, depth + 1) for sub in e.exceptions)
        parts.append(f"message={e.message!r} exceptions=[{members}]")
    parts.append(f"suppress_context={e.__suppress_context__}")
    if depth < 4:
        parts.append(f"cause=({describe_exc(e.__cause__, depth + 1)})")
        parts.append(f"context=({describe_exc(e.__context__, depth + 1)})")
    # the name of this module depends on how it is run (script or pytest)
    return " ".join(parts).replace(f"{__name__}.", "local.")


def describe(value):
    if isinstance(value, dict):
        return {"dict": [(describe(k), describe(v)) for k, v in value.items()]}
    if isinstance(value, (list, tuple)):
        return {type(value).__name__: [describe(v) for v in value]}
    return f"{type(value).__name__}:{value!r}"


def call(f, *args, **kwargs):
    try:
        result = f(*args, **kwargs)
    except BaseException as e:  # noqa: B036
        return {"raised": describe_exc(e)}
    return {"returned": describe(result)}


# --------------------------------------------------------------------------- parse_line

lines = {
    "valid1": 'Scs_SceneShift="0"',
    "valid2": 'Pds_ProductID="WWDR1.1__D"',
    "empty-value": 'Ach_PRF_Check=""',
    "empty-keyword": 'Ach_=""',
    "lowercase-section": 'scs_SceneShift="0"',
    "uppercase-section": 'SCS_SceneShift="0"',
    "missing-equals": 'Scs_SceneShift"0"',
    "missing-underscore": 'PdsProductID="WWDR1.1__D"',
    "empty": "",
    "blank": "   ",
    "trailing-space": 'Scs_SceneShift="0" ',
    "leading-space": ' Scs_SceneShift="0"',
    "trailing-cr": 'Scs_SceneShift="0"\r',
    "two-entries": 'Scs_SceneShift="0"Pds_ProductID="x"',
    "quotes-in-value": 'Scs_SceneShift="a"b"',
    "equals-in-value": 'Scs_Scene="a=b"',
    "newline-in-value": 'Scs_Scene="a\nb"',
    "long-section": 'Scsx_Scene="a"',
    "short-section": 'Sc_Scene="a"',
    "digit-section": 'S1s_Scene="a"',
    "unicode": 'Lbi_Fäcility="ü"',
    "single-quotes": "Scs_Scene='a'",
}


def cases_parse_line():
    results = {name: call(summary.parse_line, line) for name, line in lines.items()}
    results["bytes"] = call(summary.parse_line, b'Scs_SceneShift="0"')
    results["none"] = call(summary.parse_line, None)
    results["int"] = call(summary.parse_line, 1)

    # every failure is a new exception object
    errors = []
    for _ in range(2):
        try:
            summary.parse_line("x")
        except ValueError as e:
            errors.append(e)
    results["new-object"] = errors[0] is not errors[1]
    return results


# --------------------------------------------------------------------------- with_lineno


class Message:
    def __init__(self, text):
        self.text = text

    def __format__(self, spec):
        return f"<formatted {self.text!r} {spec!r}>"

    def __str__(self):
        return f"<str {self.text!r}>"

    def __repr__(self):
        return f"Message({self.text!r})"


class Lineno(int):
    def __format__(self, spec):
        return f"<lineno {int(self)} {spec!r}>"


def cases_with_lineno():
    def run(factory, lineno):
        e = factory()
        try:
            result = summary.with_lineno(e, lineno)
        except BaseException as err:  # noqa: B036
            return {"raised": describe_exc(err), "args-after": repr(e.args)}
        return {"same-object": result is e, "described": describe_exc(result)}

    factories = {
        "simple": lambda: ValueError("invalid line"),
        "extra-args": lambda: ValueError("invalid line", 1, ("a", None)),
        "no-args": lambda: ValueError(),
        "empty-message": lambda: ValueError(""),
        "int-message": lambda: ValueError(5),
        "none-message": lambda: ValueError(None),
        "tuple-message": lambda: ValueError(("a", "b")),
        "bytes-message": lambda: ValueError(b"abc"),
        "custom-message": lambda: ValueError(Message("m")),
        "braces": lambda: ValueError("{} {0} %s %d {message}"),
        "oserror": lambda: OSError(2, "No such file"),
        "keyerror": lambda: KeyError("key"),
        "unicode-error": lambda: UnicodeDecodeError("utf-8", b"\xff", 0, 1, "invalid start byte"),
        "exception-group": lambda: ExceptionGroup("group", [ValueError("a")]),
    }
    linenos = {
        "zero": 0,
        "one-digit": 7,
        "two-digits": 42,
        "three-digits": 123,
        "negative": -1,
        "negative-two-digits": -12,
        "bool": True,
        "float": 1.0,
        "string": "3",
        "none": None,
        "custom": Lineno(4),
    }

    results = {}
    for fname, factory in factories.items():
        for lname, lineno in linenos.items():
            if fname not in ("simple", "extra-args", "no-args") and lname not in (
                "zero",
                "two-digits",
            ):
                continue
            results[f"{fname}/{lname}"] = run(factory, lineno)

    # applied twice
    e = ValueError("x")
    summary.with_lineno(summary.with_lineno(e, 1), 2)
    results["twice"] = repr(e.args)
    return results


# --------------------------------------------------------------------------- parse_summary

valid = [
    'Odi_SceneId="abc"',
    'Scs_SceneID="ALOS2290760600-191011"',
    'Scs_SceneShift="0"',
    'Pds_ProductID="WWDR1.1__D"',
    'Pds_PixelSpacing="25.000000"',
    'Img_SceneCenterDateTime="20191011 14:43:15.525"',
    'Pdi_CntOfL11ProductFileName="4"',
    'Pdi_L11ProductFileName01="VOL-ALOS2290760600-191011-WWDR1.1__D"',
    'Ach_TimeCheck=""',
    'Rad_PracticeResultCode="GOOD"',
    'Lbi_ObservationDate="20191011"',
]

contents = {
    "empty": "",
    "single": valid[0],
    "valid": "\n".join(valid),
    "valid-trailing-newline": "\n".join(valid) + "\n",
    "valid-crlf": "\r\n".join(valid) + "\r\n",
    "valid-cr": "\r".join(valid),
    "valid-formfeed": "\x0c".join(valid),
    "valid-line-separator": " ".join(valid),
    "valid-file-separator": "\x1c".join(valid),
    "double-newline": "\n\n".join(valid[:3]),
    "only-newline": "\n",
    "only-newlines": "\n\n\n",
    "blank-line-first": "\n" + "\n".join(valid[:3]),
    "blank-line-last": "\n".join(valid[:3]) + "\n\n",
    "all-invalid": 'Scs_SceneShift"0"\nPdsProductID="WWDR1.1__D"',
    "first-invalid": "garbage\n" + "\n".join(valid[:3]),
    "last-invalid": "\n".join(valid[:3]) + "\ngarbage",
    "middle-invalid": "\n".join(valid[:2] + ["garbage", "more garbage"] + valid[2:5] + ["x"]),
    "trailing-space": 'Scs_SceneShift="0" \nPds_ProductID="x"',
    "duplicate-keyword": 'Scs_SceneShift="0"\nScs_Other="a"\nScs_SceneShift="1"',
    "interleaved-sections": 'Scs_A="1"\nPds_B="2"\nScs_C="3"\nPds_A="4"\nOdi_Z="5"\nScs_B="6"',
    "section-case": 'Scs_A="1"\nSCS_B="2"\nscs_C="3"\nPds_D="4"',
    "section-case-reversed": 'scs_C="3"\nPds_D="4"\nScs_A="1"',
    "unknown-section": 'Xyz_A="1"\nAbc_B="2"',
    "many-invalid": "\n".join(
        (f'Scs_Key{index}="{index}"' if index % 7 else f"invalid {index}") for index in range(120)
    ),
    "many-valid": "\n".join(f'Scs_Key{index:03d}="{index}"' for index in range(150)),
}


def cases_parse_summary():
    results = {name: call(summary.parse_summary, content) for name, content in contents.items()}
    results["bytes"] = call(summary.parse_summary, b'Scs_SceneShift="0"')
    results["bytes-invalid"] = call(summary.parse_summary, b"garbage")
    results["none"] = call(summary.parse_summary, None)
    results["list"] = call(summary.parse_summary, ['Scs_SceneShift="0"'])
    return results


class Instrumented:
    """replace ``parse_line`` / ``with_lineno`` by recording (and misbehaving) variants"""

    def __init__(self, behaviour):
        self.behaviour = behaviour
        self.events = []
        self.raised = []

    def parse_line(self, line):
        self.events.append(("parse_line", line))
        action = self.behaviour.get(line)
        if action is None:
            return self.original_parse_line(line)
        if isinstance(action, BaseException):
            self.raised.append(action)
            raise action
        return action()

    def with_lineno(self, e, lineno):
        self.events.append(("with_lineno", repr(e.args), lineno))
        return self.original_with_lineno(e, lineno)

    def __enter__(self):
        self.original_parse_line = summary.parse_line
        self.original_with_lineno = summary.with_lineno
        summary.parse_line = self.parse_line
        summary.with_lineno = self.with_lineno
        return self

    def __exit__(self, *exc_info):
        summary.parse_line = self.original_parse_line
        summary.with_lineno = self.original_with_lineno


class CustomValueError(ValueError):
    pass


def cases_instrumented():
    behaviours = {
        "plain": {},
        "subclass": {"b": CustomValueError("custom", 1)},
        "unicode-error": {"b": UnicodeDecodeError("utf-8", b"\xff", 0, 1, "reason")},
        "value-error-no-args": {"b": ValueError()},
        "type-error": {"c": TypeError("wrong type")},
        "key-error": {"c": KeyError("missing")},
        "stop-iteration": {"c": StopIteration("stop")},
        "stop-iteration-first": {'Scs_A="1"': StopIteration()},
        "keyboard-interrupt": {"c": KeyboardInterrupt()},
        "exception-group": {"b": ExceptionGroup("inner", [ValueError("z")])},
        "returns-none": {"b": lambda: None},
        "returns-partial": {"b": lambda: {"section": "Scs", "keyword": "K"}},
        "returns-no-section": {"b": lambda: {"keyword": "K", "value": "V"}},
        "returns-extra": {
            "b": lambda: {"section": "Scs", "keyword": "K", "value": "V", "extra": 1}
        },
        "returns-tuple": {"b": lambda: ("Scs", "K", "V")},
        "all-fine": {
            "a": lambda: {"section": "Odi", "keyword": "a", "value": "1"},
            "b": lambda: {"section": "Odi", "keyword": "b", "value": "2"},
            "c": lambda: {"section": "odi", "keyword": "c", "value": "3"},
        },
    }
    content = 'Scs_A="1"\na\nPds_B="2"\nb\nScs_C="3"\nc\nd'

    results = {}
    for name, behaviour in behaviours.items():
        with Instrumented(behaviour) as recorder:
            try:
                result = {"returned": describe(summary.parse_summary(content))}
            except BaseException as e:  # noqa: B036
                result = {"raised": describe_exc(e)}
                if isinstance(e, ExceptionGroup):
                    # the members of the group are the objects raised by `parse_line`
                    result["identities"] = [
                        any(sub is raised for raised in recorder.raised) for sub in e.exceptions
                    ]
            result["events"] = recorder.events
            # errors raised before an unexpected exception keep their message
            result["raised-args"] = [repr(raised.args) for raised in recorder.raised]
        results[name] = result
    return results


def run():
    return {
        "parse_line": cases_parse_line(),
        "with_lineno": cases_with_lineno(),
        "parse_summary": cases_parse_summary(),
        "instrumented": cases_instrumented(),
        "public-names": sorted(
            name
            for name in ("parse_line", "with_lineno", "parse_summary", "entry_re", "ExceptionGroup")
            if hasattr(summary, name)
        ),
    }


# @@EXPECTED-BEGIN@@
EXPECTED = {
    'parse_line': {
        'valid1': (
            {'returned': {'dict': [("str:'section'", "str:'Scs'"),
                                   ("str:'keyword'", "str:'SceneShift'"),
                                   ("str:'value'", "str:'0'")]}}
        ),
        'valid2': (
            {'returned': {'dict': [("str:'section'", "str:'Pds'"),
                                   ("str:'keyword'", "str:'ProductID'"),
                                   ("str:'value'", "str:'WWDR1.1__D'")]}}
        ),
        'empty-value': (
            {'returned': {'dict': [("str:'section'", "str:'Ach'"),
                                   ("str:'keyword'", "str:'PRF_Check'"),
                                   ("str:'value'", "str:''")]}}
        ),
        'empty-keyword': (
            {'returned': {'dict': [("str:'section'", "str:'Ach'"),
                                   ("str:'keyword'", "str:''"),
                                   ("str:'value'", "str:''")]}}
        ),
        'lowercase-section': (
            {'returned': {'dict': [("str:'section'", "str:'scs'"),
                                   ("str:'keyword'", "str:'SceneShift'"),
                                   ("str:'value'", "str:'0'")]}}
        ),
        'uppercase-section': (
            {'returned': {'dict': [("str:'section'", "str:'SCS'"),
                                   ("str:'keyword'", "str:'SceneShift'"),
                                   ("str:'value'", "str:'0'")]}}
        ),
        'missing-equals': (
            {'raised': "builtins.ValueError('invalid line',) suppress_context=False cause=(None) "
                       'context=(None)'}
        ),
        'missing-underscore': (
            {'raised': "builtins.ValueError('invalid line',) suppress_context=False cause=(None) "
                       'context=(None)'}
        ),
        'empty': (
            {'raised': "builtins.ValueError('invalid line',) suppress_context=False cause=(None) "
                       'context=(None)'}
        ),
        'blank': (
            {'raised': "builtins.ValueError('invalid line',) suppress_context=False cause=(None) "
                       'context=(None)'}
        ),
        'trailing-space': (
            {'raised': "builtins.ValueError('invalid line',) suppress_context=False cause=(None) "
                       'context=(None)'}
        ),
        'leading-space': (
            {'raised': "builtins.ValueError('invalid line',) suppress_context=False cause=(None) "
                       'context=(None)'}
        ),
        'trailing-cr': (
            {'raised': "builtins.ValueError('invalid line',) suppress_context=False cause=(None) "
                       'context=(None)'}
        ),
        'two-entries': (
            {'returned': {'dict': [("str:'section'", "str:'Scs'"),
                                   ("str:'keyword'", "str:'SceneShift'"),
                                   ("str:'value'", 'str:\'0"Pds_ProductID="x\'')]}}
        ),
        'quotes-in-value': (
            {'returned': {'dict': [("str:'section'", "str:'Scs'"),
                                   ("str:'keyword'", "str:'SceneShift'"),
                                   ("str:'value'", 'str:\'a"b\'')]}}
        ),
        'equals-in-value': (
            {'returned': {'dict': [("str:'section'", "str:'Scs'"),
                                   ("str:'keyword'", "str:'Scene'"),
                                   ("str:'value'", "str:'a=b'")]}}
        ),
        'newline-in-value': (
            {'raised': "builtins.ValueError('invalid line',) suppress_context=False cause=(None) "
                       'context=(None)'}
        ),
        'long-section': (
            {'raised': "builtins.ValueError('invalid line',) suppress_context=False cause=(None) "
                       'context=(None)'}
        ),
        'short-section': (
            {'raised': "builtins.ValueError('invalid line',) suppress_context=False cause=(None) "
                       'context=(None)'}
        ),
        'digit-section': (
            {'raised': "builtins.ValueError('invalid line',) suppress_context=False cause=(None) "
                       'context=(None)'}
        ),
        'unicode': (
            {'returned': {'dict': [("str:'section'", "str:'Lbi'"),
                                   ("str:'keyword'", "str:'Fäcility'"),
                                   ("str:'value'", "str:'ü'")]}}
        ),
        'single-quotes': (
            {'raised': "builtins.ValueError('invalid line',) suppress_context=False cause=(None) "
                       'context=(None)'}
        ),
        'bytes': (
            {'raised': "builtins.TypeError('cannot use a string pattern on a bytes-like object',) "
                       'suppress_context=False cause=(None) context=(None)'}
        ),
        'none': (
            {'raised': 'builtins.TypeError("expected string or bytes-like object, got \'NoneType\'",) '
                       'suppress_context=False cause=(None) context=(None)'}
        ),
        'int': (
            {'raised': 'builtins.TypeError("expected string or bytes-like object, got \'int\'",) '
                       'suppress_context=False cause=(None) context=(None)'}
        ),
        'new-object': (
            True
        ),
    },
    'with_lineno': {
        'simple/zero': (
            {'same-object': True,
             'described': "builtins.ValueError('line 00: invalid line',) suppress_context=False cause=(None) "
                          'context=(None)'}
        ),
        'simple/one-digit': (
            {'same-object': True,
             'described': "builtins.ValueError('line 07: invalid line',) suppress_context=False cause=(None) "
                          'context=(None)'}
        ),
        'simple/two-digits': (
            {'same-object': True,
             'described': "builtins.ValueError('line 42: invalid line',) suppress_context=False cause=(None) "
                          'context=(None)'}
        ),
        'simple/three-digits': (
            {'same-object': True,
             'described': "builtins.ValueError('line 123: invalid line',) suppress_context=False cause=(None) "
                          'context=(None)'}
        ),
        'simple/negative': (
            {'same-object': True,
             'described': "builtins.ValueError('line -1: invalid line',) suppress_context=False cause=(None) "
                          'context=(None)'}
        ),
        'simple/negative-two-digits': (
            {'same-object': True,
             'described': "builtins.ValueError('line -12: invalid line',) suppress_context=False cause=(None) "
                          'context=(None)'}
        ),
        'simple/bool': (
            {'same-object': True,
             'described': "builtins.ValueError('line 01: invalid line',) suppress_context=False cause=(None) "
                          'context=(None)'}
        ),
        'simple/float': (
            {'raised': 'builtins.ValueError("Unknown format code \'d\' for object of type \'float\'",) '
                       'suppress_context=False cause=(None) context=(None)',
             'args-after': "('invalid line',)"}
        ),
        'simple/string': (
            {'raised': 'builtins.ValueError("Unknown format code \'d\' for object of type \'str\'",) '
                       'suppress_context=False cause=(None) context=(None)',
             'args-after': "('invalid line',)"}
        ),
        'simple/none': (
            {'raised': "builtins.TypeError('unsupported format string passed to NoneType.__format__',) "
                       'suppress_context=False cause=(None) context=(None)',
             'args-after': "('invalid line',)"}
        ),
        'simple/custom': (
            {'same-object': True,
             'described': 'builtins.ValueError("line <lineno 4 \'02d\'>: invalid line",) '
                          'suppress_context=False cause=(None) context=(None)'}
        ),
        'extra-args/zero': (
            {'same-object': True,
             'described': "builtins.ValueError('line 00: invalid line', 1, ('a', None)) suppress_context=False "
                          'cause=(None) context=(None)'}
        ),
        'extra-args/one-digit': (
            {'same-object': True,
             'described': "builtins.ValueError('line 07: invalid line', 1, ('a', None)) suppress_context=False "
                          'cause=(None) context=(None)'}
        ),
        'extra-args/two-digits': (
            {'same-object': True,
             'described': "builtins.ValueError('line 42: invalid line', 1, ('a', None)) suppress_context=False "
                          'cause=(None) context=(None)'}
        ),
        'extra-args/three-digits': (
            {'same-object': True,
             'described': "builtins.ValueError('line 123: invalid line', 1, ('a', None)) "
                          'suppress_context=False cause=(None) context=(None)'}
        ),
        'extra-args/negative': (
            {'same-object': True,
             'described': "builtins.ValueError('line -1: invalid line', 1, ('a', None)) suppress_context=False "
                          'cause=(None) context=(None)'}
        ),
        'extra-args/negative-two-digits': (
            {'same-object': True,
             'described': "builtins.ValueError('line -12: invalid line', 1, ('a', None)) "
                          'suppress_context=False cause=(None) context=(None)'}
        ),
        'extra-args/bool': (
            {'same-object': True,
             'described': "builtins.ValueError('line 01: invalid line', 1, ('a', None)) suppress_context=False "
                          'cause=(None) context=(None)'}
        ),
        'extra-args/float': (
            {'raised': 'builtins.ValueError("Unknown format code \'d\' for object of type \'float\'",) '
                       'suppress_context=False cause=(None) context=(None)',
             'args-after': "('invalid line', 1, ('a', None))"}
        ),
        'extra-args/string': (
            {'raised': 'builtins.ValueError("Unknown format code \'d\' for object of type \'str\'",) '
                       'suppress_context=False cause=(None) context=(None)',
             'args-after': "('invalid line', 1, ('a', None))"}
        ),
        'extra-args/none': (
            {'raised': "builtins.TypeError('unsupported format string passed to NoneType.__format__',) "
                       'suppress_context=False cause=(None) context=(None)',
             'args-after': "('invalid line', 1, ('a', None))"}
        ),
        'extra-args/custom': (
            {'same-object': True,
             'described': 'builtins.ValueError("line <lineno 4 \'02d\'>: invalid line", 1, (\'a\', None)) '
                          'suppress_context=False cause=(None) context=(None)'}
        ),
        'no-args/zero': (
            {'raised': "builtins.IndexError('tuple index out of range',) suppress_context=False cause=(None) "
                       'context=(None)',
             'args-after': '()'}
        ),
        'no-args/one-digit': (
            {'raised': "builtins.IndexError('tuple index out of range',) suppress_context=False cause=(None) "
                       'context=(None)',
             'args-after': '()'}
        ),
        'no-args/two-digits': (
            {'raised': "builtins.IndexError('tuple index out of range',) suppress_context=False cause=(None) "
                       'context=(None)',
             'args-after': '()'}
        ),
        'no-args/three-digits': (
            {'raised': "builtins.IndexError('tuple index out of range',) suppress_context=False cause=(None) "
                       'context=(None)',
             'args-after': '()'}
        ),
        'no-args/negative': (
            {'raised': "builtins.IndexError('tuple index out of range',) suppress_context=False cause=(None) "
                       'context=(None)',
             'args-after': '()'}
        ),
        'no-args/negative-two-digits': (
            {'raised': "builtins.IndexError('tuple index out of range',) suppress_context=False cause=(None) "
                       'context=(None)',
             'args-after': '()'}
        ),
        'no-args/bool': (
            {'raised': "builtins.IndexError('tuple index out of range',) suppress_context=False cause=(None) "
                       'context=(None)',
             'args-after': '()'}
        ),
        'no-args/float': (
            {'raised': "builtins.IndexError('tuple index out of range',) suppress_context=False cause=(None) "
                       'context=(None)',
             'args-after': '()'}
        ),
        'no-args/string': (
            {'raised': "builtins.IndexError('tuple index out of range',) suppress_context=False cause=(None) "
                       'context=(None)',
             'args-after': '()'}
        ),
        'no-args/none': (
            {'raised': "builtins.IndexError('tuple index out of range',) suppress_context=False cause=(None) "
                       'context=(None)',
             'args-after': '()'}
        ),
        'no-args/custom': (
            {'raised': "builtins.IndexError('tuple index out of range',) suppress_context=False cause=(None) "
                       'context=(None)',
             'args-after': '()'}
        ),
        'empty-message/zero': (
            {'same-object': True,
             'described': "builtins.ValueError('line 00: ',) suppress_context=False cause=(None) "
                          'context=(None)'}
        ),
        'empty-message/two-digits': (
            {'same-object': True,
             'described': "builtins.ValueError('line 42: ',) suppress_context=False cause=(None) "
                          'context=(None)'}
        ),
        'int-message/zero': (
            {'same-object': True,
             'described': "builtins.ValueError('line 00: 5',) suppress_context=False cause=(None) "
                          'context=(None)'}
        ),
        'int-message/two-digits': (
            {'same-object': True,
             'described': "builtins.ValueError('line 42: 5',) suppress_context=False cause=(None) "
                          'context=(None)'}
        ),
        'none-message/zero': (
            {'same-object': True,
             'described': "builtins.ValueError('line 00: None',) suppress_context=False cause=(None) "
                          'context=(None)'}
        ),
        'none-message/two-digits': (
            {'same-object': True,
             'described': "builtins.ValueError('line 42: None',) suppress_context=False cause=(None) "
                          'context=(None)'}
        ),
        'tuple-message/zero': (
            {'same-object': True,
             'described': 'builtins.ValueError("line 00: (\'a\', \'b\')",) suppress_context=False cause=(None) '
                          'context=(None)'}
        ),
        'tuple-message/two-digits': (
            {'same-object': True,
             'described': 'builtins.ValueError("line 42: (\'a\', \'b\')",) suppress_context=False cause=(None) '
                          'context=(None)'}
        ),
        'bytes-message/zero': (
            {'same-object': True,
             'described': 'builtins.ValueError("line 00: b\'abc\'",) suppress_context=False cause=(None) '
                          'context=(None)'}
        ),
        'bytes-message/two-digits': (
            {'same-object': True,
             'described': 'builtins.ValueError("line 42: b\'abc\'",) suppress_context=False cause=(None) '
                          'context=(None)'}
        ),
        'custom-message/zero': (
            {'same-object': True,
             'described': 'builtins.ValueError("line 00: <formatted \'m\' \'\'>",) suppress_context=False '
                          'cause=(None) context=(None)'}
        ),
        'custom-message/two-digits': (
            {'same-object': True,
             'described': 'builtins.ValueError("line 42: <formatted \'m\' \'\'>",) suppress_context=False '
                          'cause=(None) context=(None)'}
        ),
        'braces/zero': (
            {'same-object': True,
             'described': "builtins.ValueError('line 00: {} {0} %s %d {message}',) suppress_context=False "
                          'cause=(None) context=(None)'}
        ),
        'braces/two-digits': (
            {'same-object': True,
             'described': "builtins.ValueError('line 42: {} {0} %s %d {message}',) suppress_context=False "
                          'cause=(None) context=(None)'}
        ),
        'oserror/zero': (
            {'same-object': True,
             'described': "builtins.FileNotFoundError('line 00: 2', 'No such file') errno=2 filename=None "
                          'suppress_context=False cause=(None) context=(None)'}
        ),
        'oserror/two-digits': (
            {'same-object': True,
             'described': "builtins.FileNotFoundError('line 42: 2', 'No such file') errno=2 filename=None "
                          'suppress_context=False cause=(None) context=(None)'}
        ),
        'keyerror/zero': (
            {'same-object': True,
             'described': "builtins.KeyError('line 00: key',) suppress_context=False cause=(None) "
                          'context=(None)'}
        ),
        'keyerror/two-digits': (
            {'same-object': True,
             'described': "builtins.KeyError('line 42: key',) suppress_context=False cause=(None) "
                          'context=(None)'}
        ),
        'unicode-error/zero': (
            {'same-object': True,
             'described': "builtins.UnicodeDecodeError('line 00: utf-8', b'\\xff', 0, 1, 'invalid start byte') "
                          'suppress_context=False cause=(None) context=(None)'}
        ),
        'unicode-error/two-digits': (
            {'same-object': True,
             'described': "builtins.UnicodeDecodeError('line 42: utf-8', b'\\xff', 0, 1, 'invalid start byte') "
                          'suppress_context=False cause=(None) context=(None)'}
        ),
        'exception-group/zero': (
            {'same-object': True,
             'described': "builtins.ExceptionGroup('line 00: group', [ValueError('a')]) message='group' "
                          "exceptions=[builtins.ValueError('a',) suppress_context=False cause=(None) "
                          'context=(None)] suppress_context=False cause=(None) context=(None)'}
        ),
        'exception-group/two-digits': (
            {'same-object': True,
             'described': "builtins.ExceptionGroup('line 42: group', [ValueError('a')]) message='group' "
                          "exceptions=[builtins.ValueError('a',) suppress_context=False cause=(None) "
                          'context=(None)] suppress_context=False cause=(None) context=(None)'}
        ),
        'twice': (
            "('line 02: line 01: x',)"
        ),
    },
    'parse_summary': {
        'empty': (
            {'returned': {'dict': []}}
        ),
        'single': (
            {'returned': {'dict': [("str:'odi'", {'dict': [("str:'SceneId'", "str:'abc'")]})]}}
        ),
        'valid': (
            {'returned': {'dict': [("str:'odi'", {'dict': [("str:'SceneId'", "str:'abc'")]}),
                                   ("str:'scs'",
                                    {'dict': [("str:'SceneID'", "str:'ALOS2290760600-191011'"),
                                              ("str:'SceneShift'", "str:'0'")]}),
                                   ("str:'pds'",
                                    {'dict': [("str:'ProductID'", "str:'WWDR1.1__D'"),
                                              ("str:'PixelSpacing'", "str:'25.000000'")]}),
                                   ("str:'img'",
                                    {'dict': [("str:'SceneCenterDateTime'", "str:'20191011 14:43:15.525'")]}),
                                   ("str:'pdi'",
                                    {'dict': [("str:'CntOfL11ProductFileName'", "str:'4'"),
                                              ("str:'L11ProductFileName01'",
                                               "str:'VOL-ALOS2290760600-191011-WWDR1.1__D'")]}),
                                   ("str:'ach'", {'dict': [("str:'TimeCheck'", "str:''")]}),
                                   ("str:'rad'", {'dict': [("str:'PracticeResultCode'", "str:'GOOD'")]}),
                                   ("str:'lbi'", {'dict': [("str:'ObservationDate'", "str:'20191011'")]})]}}
        ),
        'valid-trailing-newline': (
            {'returned': {'dict': [("str:'odi'", {'dict': [("str:'SceneId'", "str:'abc'")]}),
                                   ("str:'scs'",
                                    {'dict': [("str:'SceneID'", "str:'ALOS2290760600-191011'"),
                                              ("str:'SceneShift'", "str:'0'")]}),
                                   ("str:'pds'",
                                    {'dict': [("str:'ProductID'", "str:'WWDR1.1__D'"),
                                              ("str:'PixelSpacing'", "str:'25.000000'")]}),
                                   ("str:'img'",
                                    {'dict': [("str:'SceneCenterDateTime'", "str:'20191011 14:43:15.525'")]}),
                                   ("str:'pdi'",
                                    {'dict': [("str:'CntOfL11ProductFileName'", "str:'4'"),
                                              ("str:'L11ProductFileName01'",
                                               "str:'VOL-ALOS2290760600-191011-WWDR1.1__D'")]}),
                                   ("str:'ach'", {'dict': [("str:'TimeCheck'", "str:''")]}),
                                   ("str:'rad'", {'dict': [("str:'PracticeResultCode'", "str:'GOOD'")]}),
                                   ("str:'lbi'", {'dict': [("str:'ObservationDate'", "str:'20191011'")]})]}}
        ),
        'valid-crlf': (
            {'returned': {'dict': [("str:'odi'", {'dict': [("str:'SceneId'", "str:'abc'")]}),
                                   ("str:'scs'",
                                    {'dict': [("str:'SceneID'", "str:'ALOS2290760600-191011'"),
                                              ("str:'SceneShift'", "str:'0'")]}),
                                   ("str:'pds'",
                                    {'dict': [("str:'ProductID'", "str:'WWDR1.1__D'"),
                                              ("str:'PixelSpacing'", "str:'25.000000'")]}),
                                   ("str:'img'",
                                    {'dict': [("str:'SceneCenterDateTime'", "str:'20191011 14:43:15.525'")]}),
                                   ("str:'pdi'",
                                    {'dict': [("str:'CntOfL11ProductFileName'", "str:'4'"),
                                              ("str:'L11ProductFileName01'",
                                               "str:'VOL-ALOS2290760600-191011-WWDR1.1__D'")]}),
                                   ("str:'ach'", {'dict': [("str:'TimeCheck'", "str:''")]}),
                                   ("str:'rad'", {'dict': [("str:'PracticeResultCode'", "str:'GOOD'")]}),
                                   ("str:'lbi'", {'dict': [("str:'ObservationDate'", "str:'20191011'")]})]}}
        ),
        'valid-cr': (
            {'returned': {'dict': [("str:'odi'", {'dict': [("str:'SceneId'", "str:'abc'")]}),
                                   ("str:'scs'",
                                    {'dict': [("str:'SceneID'", "str:'ALOS2290760600-191011'"),
                                              ("str:'SceneShift'", "str:'0'")]}),
                                   ("str:'pds'",
                                    {'dict': [("str:'ProductID'", "str:'WWDR1.1__D'"),
                                              ("str:'PixelSpacing'", "str:'25.000000'")]}),
                                   ("str:'img'",
                                    {'dict': [("str:'SceneCenterDateTime'", "str:'20191011 14:43:15.525'")]}),
                                   ("str:'pdi'",
                                    {'dict': [("str:'CntOfL11ProductFileName'", "str:'4'"),
                                              ("str:'L11ProductFileName01'",
                                               "str:'VOL-ALOS2290760600-191011-WWDR1.1__D'")]}),
                                   ("str:'ach'", {'dict': [("str:'TimeCheck'", "str:''")]}),
                                   ("str:'rad'", {'dict': [("str:'PracticeResultCode'", "str:'GOOD'")]}),
                                   ("str:'lbi'", {'dict': [("str:'ObservationDate'", "str:'20191011'")]})]}}
        ),
        'valid-formfeed': (
            {'returned': {'dict': [("str:'odi'", {'dict': [("str:'SceneId'", "str:'abc'")]}),
                                   ("str:'scs'",
                                    {'dict': [("str:'SceneID'", "str:'ALOS2290760600-191011'"),
                                              ("str:'SceneShift'", "str:'0'")]}),
                                   ("str:'pds'",
                                    {'dict': [("str:'ProductID'", "str:'WWDR1.1__D'"),
                                              ("str:'PixelSpacing'", "str:'25.000000'")]}),
                                   ("str:'img'",
                                    {'dict': [("str:'SceneCenterDateTime'", "str:'20191011 14:43:15.525'")]}),
                                   ("str:'pdi'",
                                    {'dict': [("str:'CntOfL11ProductFileName'", "str:'4'"),
                                              ("str:'L11ProductFileName01'",
                                               "str:'VOL-ALOS2290760600-191011-WWDR1.1__D'")]}),
                                   ("str:'ach'", {'dict': [("str:'TimeCheck'", "str:''")]}),
                                   ("str:'rad'", {'dict': [("str:'PracticeResultCode'", "str:'GOOD'")]}),
                                   ("str:'lbi'", {'dict': [("str:'ObservationDate'", "str:'20191011'")]})]}}
        ),
        'valid-line-separator': (
            {'returned': {'dict': [("str:'odi'", {'dict': [("str:'SceneId'", "str:'abc'")]}),
                                   ("str:'scs'",
                                    {'dict': [("str:'SceneID'", "str:'ALOS2290760600-191011'"),
                                              ("str:'SceneShift'", "str:'0'")]}),
                                   ("str:'pds'",
                                    {'dict': [("str:'ProductID'", "str:'WWDR1.1__D'"),
                                              ("str:'PixelSpacing'", "str:'25.000000'")]}),
                                   ("str:'img'",
                                    {'dict': [("str:'SceneCenterDateTime'", "str:'20191011 14:43:15.525'")]}),
                                   ("str:'pdi'",
                                    {'dict': [("str:'CntOfL11ProductFileName'", "str:'4'"),
                                              ("str:'L11ProductFileName01'",
                                               "str:'VOL-ALOS2290760600-191011-WWDR1.1__D'")]}),
                                   ("str:'ach'", {'dict': [("str:'TimeCheck'", "str:''")]}),
                                   ("str:'rad'", {'dict': [("str:'PracticeResultCode'", "str:'GOOD'")]}),
                                   ("str:'lbi'", {'dict': [("str:'ObservationDate'", "str:'20191011'")]})]}}
        ),
        'valid-file-separator': (
            {'returned': {'dict': [("str:'odi'", {'dict': [("str:'SceneId'", "str:'abc'")]}),
                                   ("str:'scs'",
                                    {'dict': [("str:'SceneID'", "str:'ALOS2290760600-191011'"),
                                              ("str:'SceneShift'", "str:'0'")]}),
                                   ("str:'pds'",
                                    {'dict': [("str:'ProductID'", "str:'WWDR1.1__D'"),
                                              ("str:'PixelSpacing'", "str:'25.000000'")]}),
                                   ("str:'img'",
                                    {'dict': [("str:'SceneCenterDateTime'", "str:'20191011 14:43:15.525'")]}),
                                   ("str:'pdi'",
                                    {'dict': [("str:'CntOfL11ProductFileName'", "str:'4'"),
                                              ("str:'L11ProductFileName01'",
                                               "str:'VOL-ALOS2290760600-191011-WWDR1.1__D'")]}),
                                   ("str:'ach'", {'dict': [("str:'TimeCheck'", "str:''")]}),
                                   ("str:'rad'", {'dict': [("str:'PracticeResultCode'", "str:'GOOD'")]}),
                                   ("str:'lbi'", {'dict': [("str:'ObservationDate'", "str:'20191011'")]})]}}
        ),
        'double-newline': (
            {'raised': "builtins.ExceptionGroup('failed to parse the summary', [ValueError('line 01: invalid "
                       "line'), ValueError('line 03: invalid line')]) message='failed to parse the summary' "
                       "exceptions=[builtins.ValueError('line 01: invalid line',) suppress_context=False "
                       "cause=(None) context=(None), builtins.ValueError('line 03: invalid line',) "
                       'suppress_context=False cause=(None) context=(None)] suppress_context=False '
                       'cause=(None) context=(None)'}
        ),
        'only-newline': (
            {'raised': "builtins.ExceptionGroup('failed to parse the summary', [ValueError('line 00: invalid "
                       "line')]) message='failed to parse the summary' exceptions=[builtins.ValueError('line "
                       "00: invalid line',) suppress_context=False cause=(None) context=(None)] "
                       'suppress_context=False cause=(None) context=(None)'}
        ),
        'only-newlines': (
            {'raised': "builtins.ExceptionGroup('failed to parse the summary', [ValueError('line 00: invalid "
                       "line'), ValueError('line 01: invalid line'), ValueError('line 02: invalid line')]) "
                       "message='failed to parse the summary' exceptions=[builtins.ValueError('line 00: "
                       "invalid line',) suppress_context=False cause=(None) context=(None), "
                       "builtins.ValueError('line 01: invalid line',) suppress_context=False cause=(None) "
                       "context=(None), builtins.ValueError('line 02: invalid line',) suppress_context=False "
                       'cause=(None) context=(None)] suppress_context=False cause=(None) context=(None)'}
        ),
        'blank-line-first': (
            {'raised': "builtins.ExceptionGroup('failed to parse the summary', [ValueError('line 00: invalid "
                       "line')]) message='failed to parse the summary' exceptions=[builtins.ValueError('line "
                       "00: invalid line',) suppress_context=False cause=(None) context=(None)] "
                       'suppress_context=False cause=(None) context=(None)'}
        ),
        'blank-line-last': (
            {'raised': "builtins.ExceptionGroup('failed to parse the summary', [ValueError('line 03: invalid "
                       "line')]) message='failed to parse the summary' exceptions=[builtins.ValueError('line "
                       "03: invalid line',) suppress_context=False cause=(None) context=(None)] "
                       'suppress_context=False cause=(None) context=(None)'}
        ),
        'all-invalid': (
            {'raised': "builtins.ExceptionGroup('failed to parse the summary', [ValueError('line 00: invalid "
                       "line'), ValueError('line 01: invalid line')]) message='failed to parse the summary' "
                       "exceptions=[builtins.ValueError('line 00: invalid line',) suppress_context=False "
                       "cause=(None) context=(None), builtins.ValueError('line 01: invalid line',) "
                       'suppress_context=False cause=(None) context=(None)] suppress_context=False '
                       'cause=(None) context=(None)'}
        ),
        'first-invalid': (
            {'raised': "builtins.ExceptionGroup('failed to parse the summary', [ValueError('line 00: invalid "
                       "line')]) message='failed to parse the summary' exceptions=[builtins.ValueError('line "
                       "00: invalid line',) suppress_context=False cause=(None) context=(None)] "
                       'suppress_context=False cause=(None) context=(None)'}
        ),
        'last-invalid': (
            {'raised': "builtins.ExceptionGroup('failed to parse the summary', [ValueError('line 03: invalid "
                       "line')]) message='failed to parse the summary' exceptions=[builtins.ValueError('line "
                       "03: invalid line',) suppress_context=False cause=(None) context=(None)] "
                       'suppress_context=False cause=(None) context=(None)'}
        ),
        'middle-invalid': (
            {'raised': "builtins.ExceptionGroup('failed to parse the summary', [ValueError('line 02: invalid "
                       "line'), ValueError('line 03: invalid line'), ValueError('line 07: invalid line')]) "
                       "message='failed to parse the summary' exceptions=[builtins.ValueError('line 02: "
                       "invalid line',) suppress_context=False cause=(None) context=(None), "
                       "builtins.ValueError('line 03: invalid line',) suppress_context=False cause=(None) "
                       "context=(None), builtins.ValueError('line 07: invalid line',) suppress_context=False "
                       'cause=(None) context=(None)] suppress_context=False cause=(None) context=(None)'}
        ),
        'trailing-space': (
            {'raised': "builtins.ExceptionGroup('failed to parse the summary', [ValueError('line 00: invalid "
                       "line')]) message='failed to parse the summary' exceptions=[builtins.ValueError('line "
                       "00: invalid line',) suppress_context=False cause=(None) context=(None)] "
                       'suppress_context=False cause=(None) context=(None)'}
        ),
        'duplicate-keyword': (
            {'returned': {'dict': [("str:'scs'",
                                    {'dict': [("str:'SceneShift'", "str:'1'"), ("str:'Other'", "str:'a'")]})]}}
        ),
        'interleaved-sections': (
            {'returned': {'dict': [("str:'scs'",
                                    {'dict': [("str:'A'", "str:'1'"),
                                              ("str:'C'", "str:'3'"),
                                              ("str:'B'", "str:'6'")]}),
                                   ("str:'pds'", {'dict': [("str:'B'", "str:'2'"), ("str:'A'", "str:'4'")]}),
                                   ("str:'odi'", {'dict': [("str:'Z'", "str:'5'")]})]}}
        ),
        'section-case': (
            {'returned': {'dict': [("str:'scs'", {'dict': [("str:'C'", "str:'3'")]}),
                                   ("str:'pds'", {'dict': [("str:'D'", "str:'4'")]})]}}
        ),
        'section-case-reversed': (
            {'returned': {'dict': [("str:'scs'", {'dict': [("str:'A'", "str:'1'")]}),
                                   ("str:'pds'", {'dict': [("str:'D'", "str:'4'")]})]}}
        ),
        'unknown-section': (
            {'returned': {'dict': [("str:'xyz'", {'dict': [("str:'A'", "str:'1'")]}),
                                   ("str:'abc'", {'dict': [("str:'B'", "str:'2'")]})]}}
        ),
        'many-invalid': (
            {'raised': "builtins.ExceptionGroup('failed to parse the summary', [ValueError('line 00: invalid "
                       "line'), ValueError('line 07: invalid line'), ValueError('line 14: invalid line'), "
                       "ValueError('line 21: invalid line'), ValueError('line 28: invalid line'), "
                       "ValueError('line 35: invalid line'), ValueError('line 42: invalid line'), "
                       "ValueError('line 49: invalid line'), ValueError('line 56: invalid line'), "
                       "ValueError('line 63: invalid line'), ValueError('line 70: invalid line'), "
                       "ValueError('line 77: invalid line'), ValueError('line 84: invalid line'), "
                       "ValueError('line 91: invalid line'), ValueError('line 98: invalid line'), "
                       "ValueError('line 105: invalid line'), ValueError('line 112: invalid line'), "
                       "ValueError('line 119: invalid line')]) message='failed to parse the summary' "
                       "exceptions=[builtins.ValueError('line 00: invalid line',) suppress_context=False "
                       "cause=(None) context=(None), builtins.ValueError('line 07: invalid line',) "
                       "suppress_context=False cause=(None) context=(None), builtins.ValueError('line 14: "
                       "invalid line',) suppress_context=False cause=(None) context=(None), "
                       "builtins.ValueError('line 21: invalid line',) suppress_context=False cause=(None) "
                       "context=(None), builtins.ValueError('line 28: invalid line',) suppress_context=False "
                       "cause=(None) context=(None), builtins.ValueError('line 35: invalid line',) "
                       "suppress_context=False cause=(None) context=(None), builtins.ValueError('line 42: "
                       "invalid line',) suppress_context=False cause=(None) context=(None), "
                       "builtins.ValueError('line 49: invalid line',) suppress_context=False cause=(None) "
                       "context=(None), builtins.ValueError('line 56: invalid line',) suppress_context=False "
                       "cause=(None) context=(None), builtins.ValueError('line 63: invalid line',) "
                       "suppress_context=False cause=(None) context=(None), builtins.ValueError('line 70: "
                       "invalid line',) suppress_context=False cause=(None) context=(None), "
                       "builtins.ValueError('line 77: invalid line',) suppress_context=False cause=(None) "
                       "context=(None), builtins.ValueError('line 84: invalid line',) suppress_context=False "
                       "cause=(None) context=(None), builtins.ValueError('line 91: invalid line',) "
                       "suppress_context=False cause=(None) context=(None), builtins.ValueError('line 98: "
                       "invalid line',) suppress_context=False cause=(None) context=(None), "
                       "builtins.ValueError('line 105: invalid line',) suppress_context=False cause=(None) "
                       "context=(None), builtins.ValueError('line 112: invalid line',) suppress_context=False "
                       "cause=(None) context=(None), builtins.ValueError('line 119: invalid line',) "
                       'suppress_context=False cause=(None) context=(None)] suppress_context=False '
                       'cause=(None) context=(None)'}
        ),
        'many-valid': (
            {'returned': {'dict': [("str:'scs'",
                                    {'dict': [("str:'Key000'", "str:'0'"),
                                              ("str:'Key001'", "str:'1'"),
                                              ("str:'Key002'", "str:'2'"),
                                              ("str:'Key003'", "str:'3'"),
                                              ("str:'Key004'", "str:'4'"),
                                              ("str:'Key005'", "str:'5'"),
                                              ("str:'Key006'", "str:'6'"),
                                              ("str:'Key007'", "str:'7'"),
                                              ("str:'Key008'", "str:'8'"),
                                              ("str:'Key009'", "str:'9'"),
                                              ("str:'Key010'", "str:'10'"),
                                              ("str:'Key011'", "str:'11'"),
                                              ("str:'Key012'", "str:'12'"),
                                              ("str:'Key013'", "str:'13'"),
                                              ("str:'Key014'", "str:'14'"),
                                              ("str:'Key015'", "str:'15'"),
                                              ("str:'Key016'", "str:'16'"),
                                              ("str:'Key017'", "str:'17'"),
                                              ("str:'Key018'", "str:'18'"),
                                              ("str:'Key019'", "str:'19'"),
                                              ("str:'Key020'", "str:'20'"),
                                              ("str:'Key021'", "str:'21'"),
                                              ("str:'Key022'", "str:'22'"),
                                              ("str:'Key023'", "str:'23'"),
                                              ("str:'Key024'", "str:'24'"),
                                              ("str:'Key025'", "str:'25'"),
                                              ("str:'Key026'", "str:'26'"),
                                              ("str:'Key027'", "str:'27'"),
                                              ("str:'Key028'", "str:'28'"),
                                              ("str:'Key029'", "str:'29'"),
                                              ("str:'Key030'", "str:'30'"),
                                              ("str:'Key031'", "str:'31'"),
                                              ("str:'Key032'", "str:'32'"),
                                              ("str:'Key033'", "str:'33'"),
                                              ("str:'Key034'", "str:'34'"),
                                              ("str:'Key035'", "str:'35'"),
                                              ("str:'Key036'", "str:'36'"),
                                              ("str:'Key037'", "str:'37'"),
                                              ("str:'Key038'", "str:'38'"),
                                              ("str:'Key039'", "str:'39'"),
                                              ("str:'Key040'", "str:'40'"),
                                              ("str:'Key041'", "str:'41'"),
                                              ("str:'Key042'", "str:'42'"),
                                              ("str:'Key043'", "str:'43'"),
                                              ("str:'Key044'", "str:'44'"),
                                              ("str:'Key045'", "str:'45'"),
                                              ("str:'Key046'", "str:'46'"),
                                              ("str:'Key047'", "str:'47'"),
                                              ("str:'Key048'", "str:'48'"),
                                              ("str:'Key049'", "str:'49'"),
                                              ("str:'Key050'", "str:'50'"),
                                              ("str:'Key051'", "str:'51'"),
                                              ("str:'Key052'", "str:'52'"),
                                              ("str:'Key053'", "str:'53'"),
                                              ("str:'Key054'", "str:'54'"),
                                              ("str:'Key055'", "str:'55'"),
                                              ("str:'Key056'", "str:'56'"),
                                              ("str:'Key057'", "str:'57'"),
                                              ("str:'Key058'", "str:'58'"),
                                              ("str:'Key059'", "str:'59'"),
                                              ("str:'Key060'", "str:'60'"),
                                              ("str:'Key061'", "str:'61'"),
                                              ("str:'Key062'", "str:'62'"),
                                              ("str:'Key063'", "str:'63'"),
                                              ("str:'Key064'", "str:'64'"),
                                              ("str:'Key065'", "str:'65'"),
                                              ("str:'Key066'", "str:'66'"),
                                              ("str:'Key067'", "str:'67'"),
                                              ("str:'Key068'", "str:'68'"),
                                              ("str:'Key069'", "str:'69'"),
                                              ("str:'Key070'", "str:'70'"),
                                              ("str:'Key071'", "str:'71'"),
                                              ("str:'Key072'", "str:'72'"),
                                              ("str:'Key073'", "str:'73'"),
                                              ("str:'Key074'", "str:'74'"),
                                              ("str:'Key075'", "str:'75'"),
                                              ("str:'Key076'", "str:'76'"),
                                              ("str:'Key077'", "str:'77'"),
                                              ("str:'Key078'", "str:'78'"),
                                              ("str:'Key079'", "str:'79'"),
                                              ("str:'Key080'", "str:'80'"),
                                              ("str:'Key081'", "str:'81'"),
                                              ("str:'Key082'", "str:'82'"),
                                              ("str:'Key083'", "str:'83'"),
                                              ("str:'Key084'", "str:'84'"),
                                              ("str:'Key085'", "str:'85'"),
                                              ("str:'Key086'", "str:'86'"),
                                              ("str:'Key087'", "str:'87'"),
                                              ("str:'Key088'", "str:'88'"),
                                              ("str:'Key089'", "str:'89'"),
                                              ("str:'Key090'", "str:'90'"),
                                              ("str:'Key091'", "str:'91'"),
                                              ("str:'Key092'", "str:'92'"),
                                              ("str:'Key093'", "str:'93'"),
                                              ("str:'Key094'", "str:'94'"),
                                              ("str:'Key095'", "str:'95'"),
                                              ("str:'Key096'", "str:'96'"),
                                              ("str:'Key097'", "str:'97'"),
                                              ("str:'Key098'", "str:'98'"),
                                              ("str:'Key099'", "str:'99'"),
                                              ("str:'Key100'", "str:'100'"),
                                              ("str:'Key101'", "str:'101'"),
                                              ("str:'Key102'", "str:'102'"),
                                              ("str:'Key103'", "str:'103'"),
                                              ("str:'Key104'", "str:'104'"),
                                              ("str:'Key105'", "str:'105'"),
                                              ("str:'Key106'", "str:'106'"),
                                              ("str:'Key107'", "str:'107'"),
                                              ("str:'Key108'", "str:'108'"),
                                              ("str:'Key109'", "str:'109'"),
                                              ("str:'Key110'", "str:'110'"),
                                              ("str:'Key111'", "str:'111'"),
                                              ("str:'Key112'", "str:'112'"),
                                              ("str:'Key113'", "str:'113'"),
                                              ("str:'Key114'", "str:'114'"),
                                              ("str:'Key115'", "str:'115'"),
                                              ("str:'Key116'", "str:'116'"),
                                              ("str:'Key117'", "str:'117'"),
                                              ("str:'Key118'", "str:'118'"),
                                              ("str:'Key119'", "str:'119'"),
                                              ("str:'Key120'", "str:'120'"),
                                              ("str:'Key121'", "str:'121'"),
                                              ("str:'Key122'", "str:'122'"),
                                              ("str:'Key123'", "str:'123'"),
                                              ("str:'Key124'", "str:'124'"),
                                              ("str:'Key125'", "str:'125'"),
                                              ("str:'Key126'", "str:'126'"),
                                              ("str:'Key127'", "str:'127'"),
                                              ("str:'Key128'", "str:'128'"),
                                              ("str:'Key129'", "str:'129'"),
                                              ("str:'Key130'", "str:'130'"),
                                              ("str:'Key131'", "str:'131'"),
                                              ("str:'Key132'", "str:'132'"),
                                              ("str:'Key133'", "str:'133'"),
                                              ("str:'Key134'", "str:'134'"),
                                              ("str:'Key135'", "str:'135'"),
                                              ("str:'Key136'", "str:'136'"),
                                              ("str:'Key137'", "str:'137'"),
                                              ("str:'Key138'", "str:'138'"),
                                              ("str:'Key139'", "str:'139'"),
                                              ("str:'Key140'", "str:'140'"),
                                              ("str:'Key141'", "str:'141'"),
                                              ("str:'Key142'", "str:'142'"),
                                              ("str:'Key143'", "str:'143'"),
                                              ("str:'Key144'", "str:'144'"),
                                              ("str:'Key145'", "str:'145'"),
                                              ("str:'Key146'", "str:'146'"),
                                              ("str:'Key147'", "str:'147'"),
                                              ("str:'Key148'", "str:'148'"),
                                              ("str:'Key149'", "str:'149'")]})]}}
        ),
        'bytes': (
            {'raised': "builtins.TypeError('cannot use a string pattern on a bytes-like object',) "
                       'suppress_context=False cause=(None) context=(None)'}
        ),
        'bytes-invalid': (
            {'raised': "builtins.TypeError('cannot use a string pattern on a bytes-like object',) "
                       'suppress_context=False cause=(None) context=(None)'}
        ),
        'none': (
            {'raised': 'builtins.AttributeError("\'NoneType\' object has no attribute \'splitlines\'",) '
                       'suppress_context=False cause=(None) context=(None)'}
        ),
        'list': (
            {'raised': 'builtins.AttributeError("\'list\' object has no attribute \'splitlines\'",) '
                       'suppress_context=False cause=(None) context=(None)'}
        ),
    },
    'instrumented': {
        'plain': (
            {'raised': "builtins.ExceptionGroup('failed to parse the summary', [ValueError('line 01: invalid "
                       "line'), ValueError('line 03: invalid line'), ValueError('line 05: invalid line'), "
                       "ValueError('line 06: invalid line')]) message='failed to parse the summary' "
                       "exceptions=[builtins.ValueError('line 01: invalid line',) suppress_context=False "
                       "cause=(None) context=(None), builtins.ValueError('line 03: invalid line',) "
                       "suppress_context=False cause=(None) context=(None), builtins.ValueError('line 05: "
                       "invalid line',) suppress_context=False cause=(None) context=(None), "
                       "builtins.ValueError('line 06: invalid line',) suppress_context=False cause=(None) "
                       'context=(None)] suppress_context=False cause=(None) context=(None)',
             'identities': [False, False, False, False],
             'events': [('parse_line', 'Scs_A="1"'),
                        ('parse_line', 'a'),
                        ('parse_line', 'Pds_B="2"'),
                        ('parse_line', 'b'),
                        ('parse_line', 'Scs_C="3"'),
                        ('parse_line', 'c'),
                        ('parse_line', 'd'),
                        ('with_lineno', "('invalid line',)", 1),
                        ('with_lineno', "('invalid line',)", 3),
                        ('with_lineno', "('invalid line',)", 5),
                        ('with_lineno', "('invalid line',)", 6)],
             'raised-args': []}
        ),
        'subclass': (
            {'raised': "builtins.ExceptionGroup('failed to parse the summary', [ValueError('line 01: invalid "
                       "line'), CustomValueError('line 03: custom', 1), ValueError('line 05: invalid line'), "
                       "ValueError('line 06: invalid line')]) message='failed to parse the summary' "
                       "exceptions=[builtins.ValueError('line 01: invalid line',) suppress_context=False "
                       "cause=(None) context=(None), local.CustomValueError('line 03: custom', 1) "
                       "suppress_context=False cause=(None) context=(None), builtins.ValueError('line 05: "
                       "invalid line',) suppress_context=False cause=(None) context=(None), "
                       "builtins.ValueError('line 06: invalid line',) suppress_context=False cause=(None) "
                       'context=(None)] suppress_context=False cause=(None) context=(None)',
             'identities': [False, True, False, False],
             'events': [('parse_line', 'Scs_A="1"'),
                        ('parse_line', 'a'),
                        ('parse_line', 'Pds_B="2"'),
                        ('parse_line', 'b'),
                        ('parse_line', 'Scs_C="3"'),
                        ('parse_line', 'c'),
                        ('parse_line', 'd'),
                        ('with_lineno', "('invalid line',)", 1),
                        ('with_lineno', "('custom', 1)", 3),
                        ('with_lineno', "('invalid line',)", 5),
                        ('with_lineno', "('invalid line',)", 6)],
             'raised-args': ["('line 03: custom', 1)"]}
        ),
        'unicode-error': (
            {'raised': "builtins.ExceptionGroup('failed to parse the summary', [ValueError('line 01: invalid "
                       "line'), UnicodeDecodeError('line 03: utf-8', b'\\xff', 0, 1, 'reason'), "
                       "ValueError('line 05: invalid line'), ValueError('line 06: invalid line')]) "
                       "message='failed to parse the summary' exceptions=[builtins.ValueError('line 01: "
                       "invalid line',) suppress_context=False cause=(None) context=(None), "
                       "builtins.UnicodeDecodeError('line 03: utf-8', b'\\xff', 0, 1, 'reason') "
                       "suppress_context=False cause=(None) context=(None), builtins.ValueError('line 05: "
                       "invalid line',) suppress_context=False cause=(None) context=(None), "
                       "builtins.ValueError('line 06: invalid line',) suppress_context=False cause=(None) "
                       'context=(None)] suppress_context=False cause=(None) context=(None)',
             'identities': [False, True, False, False],
             'events': [('parse_line', 'Scs_A="1"'),
                        ('parse_line', 'a'),
                        ('parse_line', 'Pds_B="2"'),
                        ('parse_line', 'b'),
                        ('parse_line', 'Scs_C="3"'),
                        ('parse_line', 'c'),
                        ('parse_line', 'd'),
                        ('with_lineno', "('invalid line',)", 1),
                        ('with_lineno', "('utf-8', b'\\xff', 0, 1, 'reason')", 3),
                        ('with_lineno', "('invalid line',)", 5),
                        ('with_lineno', "('invalid line',)", 6)],
             'raised-args': ["('line 03: utf-8', b'\\xff', 0, 1, 'reason')"]}
        ),
        'value-error-no-args': (
            {'raised': "builtins.IndexError('tuple index out of range',) suppress_context=False cause=(None) "
                       'context=(None)',
             'events': [('parse_line', 'Scs_A="1"'),
                        ('parse_line', 'a'),
                        ('parse_line', 'Pds_B="2"'),
                        ('parse_line', 'b'),
                        ('parse_line', 'Scs_C="3"'),
                        ('parse_line', 'c'),
                        ('parse_line', 'd'),
                        ('with_lineno', "('invalid line',)", 1),
                        ('with_lineno', '()', 3)],
             'raised-args': ['()']}
        ),
        'type-error': (
            {'raised': "builtins.TypeError('wrong type',) suppress_context=False cause=(None) context=(None)",
             'events': [('parse_line', 'Scs_A="1"'),
                        ('parse_line', 'a'),
                        ('parse_line', 'Pds_B="2"'),
                        ('parse_line', 'b'),
                        ('parse_line', 'Scs_C="3"'),
                        ('parse_line', 'c')],
             'raised-args': ["('wrong type',)"]}
        ),
        'key-error': (
            {'raised': "builtins.KeyError('missing',) suppress_context=False cause=(None) context=(None)",
             'events': [('parse_line', 'Scs_A="1"'),
                        ('parse_line', 'a'),
                        ('parse_line', 'Pds_B="2"'),
                        ('parse_line', 'b'),
                        ('parse_line', 'Scs_C="3"'),
                        ('parse_line', 'c')],
             'raised-args': ["('missing',)"]}
        ),
        'stop-iteration': (
            {'raised': "builtins.StopIteration('stop',) suppress_context=False cause=(None) context=(None)",
             'events': [('parse_line', 'Scs_A="1"'),
                        ('parse_line', 'a'),
                        ('parse_line', 'Pds_B="2"'),
                        ('parse_line', 'b'),
                        ('parse_line', 'Scs_C="3"'),
                        ('parse_line', 'c')],
             'raised-args': ["('stop',)"]}
        ),
        'stop-iteration-first': (
            {'raised': 'builtins.StopIteration() suppress_context=False cause=(None) context=(None)',
             'events': [('parse_line', 'Scs_A="1"')],
             'raised-args': ['()']}
        ),
        'keyboard-interrupt': (
            {'raised': 'builtins.KeyboardInterrupt() suppress_context=False cause=(None) context=(None)',
             'events': [('parse_line', 'Scs_A="1"'),
                        ('parse_line', 'a'),
                        ('parse_line', 'Pds_B="2"'),
                        ('parse_line', 'b'),
                        ('parse_line', 'Scs_C="3"'),
                        ('parse_line', 'c')],
             'raised-args': ['()']}
        ),
        'exception-group': (
            {'raised': "builtins.ExceptionGroup('inner', [ValueError('z')]) message='inner' "
                       "exceptions=[builtins.ValueError('z',) suppress_context=False cause=(None) "
                       'context=(None)] suppress_context=False cause=(None) context=(None)',
             'identities': [False],
             'events': [('parse_line', 'Scs_A="1"'),
                        ('parse_line', 'a'),
                        ('parse_line', 'Pds_B="2"'),
                        ('parse_line', 'b')],
             'raised-args': ["('inner', [ValueError('z')])"]}
        ),
        'returns-none': (
            {'raised': "builtins.ExceptionGroup('failed to parse the summary', [ValueError('line 01: invalid "
                       "line'), ValueError('line 05: invalid line'), ValueError('line 06: invalid line')]) "
                       "message='failed to parse the summary' exceptions=[builtins.ValueError('line 01: "
                       "invalid line',) suppress_context=False cause=(None) context=(None), "
                       "builtins.ValueError('line 05: invalid line',) suppress_context=False cause=(None) "
                       "context=(None), builtins.ValueError('line 06: invalid line',) suppress_context=False "
                       'cause=(None) context=(None)] suppress_context=False cause=(None) context=(None)',
             'identities': [False, False, False],
             'events': [('parse_line', 'Scs_A="1"'),
                        ('parse_line', 'a'),
                        ('parse_line', 'Pds_B="2"'),
                        ('parse_line', 'b'),
                        ('parse_line', 'Scs_C="3"'),
                        ('parse_line', 'c'),
                        ('parse_line', 'd'),
                        ('with_lineno', "('invalid line',)", 1),
                        ('with_lineno', "('invalid line',)", 5),
                        ('with_lineno', "('invalid line',)", 6)],
             'raised-args': []}
        ),
        'returns-partial': (
            {'raised': "builtins.ExceptionGroup('failed to parse the summary', [ValueError('line 01: invalid "
                       "line'), ValueError('line 05: invalid line'), ValueError('line 06: invalid line')]) "
                       "message='failed to parse the summary' exceptions=[builtins.ValueError('line 01: "
                       "invalid line',) suppress_context=False cause=(None) context=(None), "
                       "builtins.ValueError('line 05: invalid line',) suppress_context=False cause=(None) "
                       "context=(None), builtins.ValueError('line 06: invalid line',) suppress_context=False "
                       'cause=(None) context=(None)] suppress_context=False cause=(None) context=(None)',
             'identities': [False, False, False],
             'events': [('parse_line', 'Scs_A="1"'),
                        ('parse_line', 'a'),
                        ('parse_line', 'Pds_B="2"'),
                        ('parse_line', 'b'),
                        ('parse_line', 'Scs_C="3"'),
                        ('parse_line', 'c'),
                        ('parse_line', 'd'),
                        ('with_lineno', "('invalid line',)", 1),
                        ('with_lineno', "('invalid line',)", 5),
                        ('with_lineno', "('invalid line',)", 6)],
             'raised-args': []}
        ),
        'returns-no-section': (
            {'raised': "builtins.ExceptionGroup('failed to parse the summary', [ValueError('line 01: invalid "
                       "line'), ValueError('line 05: invalid line'), ValueError('line 06: invalid line')]) "
                       "message='failed to parse the summary' exceptions=[builtins.ValueError('line 01: "
                       "invalid line',) suppress_context=False cause=(None) context=(None), "
                       "builtins.ValueError('line 05: invalid line',) suppress_context=False cause=(None) "
                       "context=(None), builtins.ValueError('line 06: invalid line',) suppress_context=False "
                       'cause=(None) context=(None)] suppress_context=False cause=(None) context=(None)',
             'identities': [False, False, False],
             'events': [('parse_line', 'Scs_A="1"'),
                        ('parse_line', 'a'),
                        ('parse_line', 'Pds_B="2"'),
                        ('parse_line', 'b'),
                        ('parse_line', 'Scs_C="3"'),
                        ('parse_line', 'c'),
                        ('parse_line', 'd'),
                        ('with_lineno', "('invalid line',)", 1),
                        ('with_lineno', "('invalid line',)", 5),
                        ('with_lineno', "('invalid line',)", 6)],
             'raised-args': []}
        ),
        'returns-extra': (
            {'raised': "builtins.ExceptionGroup('failed to parse the summary', [ValueError('line 01: invalid "
                       "line'), ValueError('line 05: invalid line'), ValueError('line 06: invalid line')]) "
                       "message='failed to parse the summary' exceptions=[builtins.ValueError('line 01: "
                       "invalid line',) suppress_context=False cause=(None) context=(None), "
                       "builtins.ValueError('line 05: invalid line',) suppress_context=False cause=(None) "
                       "context=(None), builtins.ValueError('line 06: invalid line',) suppress_context=False "
                       'cause=(None) context=(None)] suppress_context=False cause=(None) context=(None)',
             'identities': [False, False, False],
             'events': [('parse_line', 'Scs_A="1"'),
                        ('parse_line', 'a'),
                        ('parse_line', 'Pds_B="2"'),
                        ('parse_line', 'b'),
                        ('parse_line', 'Scs_C="3"'),
                        ('parse_line', 'c'),
                        ('parse_line', 'd'),
                        ('with_lineno', "('invalid line',)", 1),
                        ('with_lineno', "('invalid line',)", 5),
                        ('with_lineno', "('invalid line',)", 6)],
             'raised-args': []}
        ),
        'returns-tuple': (
            {'raised': "builtins.ExceptionGroup('failed to parse the summary', [ValueError('line 01: invalid "
                       "line'), ValueError('line 05: invalid line'), ValueError('line 06: invalid line')]) "
                       "message='failed to parse the summary' exceptions=[builtins.ValueError('line 01: "
                       "invalid line',) suppress_context=False cause=(None) context=(None), "
                       "builtins.ValueError('line 05: invalid line',) suppress_context=False cause=(None) "
                       "context=(None), builtins.ValueError('line 06: invalid line',) suppress_context=False "
                       'cause=(None) context=(None)] suppress_context=False cause=(None) context=(None)',
             'identities': [False, False, False],
             'events': [('parse_line', 'Scs_A="1"'),
                        ('parse_line', 'a'),
                        ('parse_line', 'Pds_B="2"'),
                        ('parse_line', 'b'),
                        ('parse_line', 'Scs_C="3"'),
                        ('parse_line', 'c'),
                        ('parse_line', 'd'),
                        ('with_lineno', "('invalid line',)", 1),
                        ('with_lineno', "('invalid line',)", 5),
                        ('with_lineno', "('invalid line',)", 6)],
             'raised-args': []}
        ),
        'all-fine': (
            {'raised': "builtins.ExceptionGroup('failed to parse the summary', [ValueError('line 06: invalid "
                       "line')]) message='failed to parse the summary' exceptions=[builtins.ValueError('line "
                       "06: invalid line',) suppress_context=False cause=(None) context=(None)] "
                       'suppress_context=False cause=(None) context=(None)',
             'identities': [False],
             'events': [('parse_line', 'Scs_A="1"'),
                        ('parse_line', 'a'),
                        ('parse_line', 'Pds_B="2"'),
                        ('parse_line', 'b'),
                        ('parse_line', 'Scs_C="3"'),
                        ('parse_line', 'c'),
                        ('parse_line', 'd'),
                        ('with_lineno', "('invalid line',)", 6)],
             'raised-args': []}
        ),
    },
    'public-names': ['entry_re', 'parse_line', 'parse_summary', 'with_lineno'],
}
# @@EXPECTED-END@@


def emit(results):
    """print the results as a (not too deeply indented) python literal"""
    print("{")
    for section, cases in results.items():
        if not isinstance(cases, dict):
            print(f"    {section!r}: {pprint.pformat(cases, width=100, sort_dicts=False)},")
            continue
        print(f"    {section!r}: {{")
        for name, value in cases.items():
            text = pprint.pformat(value, width=100, sort_dicts=False)
            print(f"        {name!r}: (")
            print("\n".join("            " + line for line in text.splitlines()))
            print("        ),")
        print("    },")
    print("}")


def differences(actual, expected, path="root"):
    if type(actual) is not type(expected):
        yield f"{path}: {actual!r} != {expected!r}"
    elif isinstance(actual, dict):
        for key in sorted(set(actual) | set(expected), key=repr):
            if key not in actual or key not in expected:
                yield f"{path}[{key!r}]: only on one side"
            else:
                yield from differences(actual[key], expected[key], f"{path}[{key!r}]")
    elif isinstance(actual, (list, tuple)) and len(actual) == len(expected):
        for index, (a, e) in enumerate(zip(actual, expected)):
            yield from differences(a, e, f"{path}[{index}]")
    elif actual != expected:
        yield f"{path}: {actual!r} != {expected!r}"


def test_equivalence():
    actual = run()
    found = list(differences(actual, EXPECTED))
    assert not found, "\n".join(found)
    assert actual == EXPECTED


if __name__ == "__main__":
    if "--record" in sys.argv:
        emit(run())
        sys.exit(0)

    print("checking", summary.__file__)
    found = list(differences(run(), EXPECTED))
    for line in found:
        print(line)
    n_cases = sum(len(v) for v in EXPECTED.values())
    print(f"{n_cases} cases:", "FAILED" if found else "ok")
    sys.exit(1 if found else 0)
