"""Equivalence check for refactoring 3 (ceos_alos2/sar_image/cli.py).

Run as

    cd /tmp/wt8/e68 && PYTHONPATH=/tmp/wt8/e68 /venv/bin/python _eq/3/equiv.py

(or through pytest). ``EXPECTED`` was recorded from the unchanged code at HEAD
with ``equiv.py --record``; the script has to pass with and without the patch.

``open_image`` and ``caching.encode`` are replaced by recording stubs (the
command line module only wires them together), the file system requests of
``create_cache`` are recorded through a logging ``pathlib`` subclass, and the
real ``fsspec.get_mapper`` is used. ``main`` is driven through ``sys.argv``
with plain ``pathlib.Path`` objects on a real temporary directory.
"""

import contextlib
import io
import os
import pathlib
import pprint
import sys
import tempfile

os.environ["COLUMNS"] = "80"

import fsspec  # noqa: E402

from ceos_alos2.sar_image import cli  # noqa: E402

events = []
tmp_root = None


def scrub(text):
    text = str(text)
    if tmp_root is not None:
        text = text.replace(str(tmp_root), "<TMP>")
    return text


class LoggedPath(pathlib.PosixPath):
    def is_file(self):
        result = super().is_file()
        events.append(f"is_file({scrub(self)}) -> {result}")
        return result

    def is_dir(self):
        result = super().is_dir()
        events.append(f"is_dir({scrub(self)}) -> {result}")
        return result

    def exists(self, **kwargs):
        result = super().exists(**kwargs)
        events.append(f"exists({scrub(self)}) -> {result}")
        return result

    def as_uri(self):
        events.append(f"as_uri({scrub(self)})")
        return super().as_uri()

    def write_text(self, data, *args, **kwargs):
        events.append(f"write_text({scrub(self)}, {data!r}, {args!r}, {kwargs!r})")
        return super().write_text(data, *args, **kwargs)

    def write_bytes(self, data):
        events.append(f"write_bytes({scrub(self)}, {data!r})")
        return super().write_bytes(data)


class Group:
    def __init__(self, name):
        self.name = name

    def __repr__(self):
        return f"Group({self.name!r})"


class Stubs:
    """recording replacements for ``open_image`` and ``caching``"""

    def __init__(self, open_error=None, encode_error=None):
        self.open_error = open_error
        self.encode_error = encode_error
        self.real_get_mapper = fsspec.get_mapper

    def open_image(self, *args, **kwargs):
        mapper, *rest = args
        events.append(
            "open_image("
            f"mapper={type(mapper).__name__}(root={scrub(mapper.root)!r},"
            f" protocol={mapper.fs.protocol!r}), args={rest!r} ({[type(a).__name__ for a in rest]}),"
            f" kwargs={kwargs!r})"
        )
        if self.open_error is not None:
            raise self.open_error
        return Group(rest[0])

    def encode(self, obj):
        events.append(f"encode({obj!r})")
        if self.encode_error is not None:
            raise self.encode_error
        return f"encoded<{obj!r}>"

    def get_mapper(self, *args, **kwargs):
        events.append(f"get_mapper({[scrub(a) for a in args]!r}, {kwargs!r})")
        return self.real_get_mapper(*args, **kwargs)

    @contextlib.contextmanager
    def installed(self):
        original = (cli.open_image, cli.caching, fsspec.get_mapper)
        cli.open_image = self.open_image
        cli.caching = self
        fsspec.get_mapper = self.get_mapper
        try:
            yield
        finally:
            cli.open_image, cli.caching, fsspec.get_mapper = original


def listing(root):
    entries = []
    for path in sorted(root.rglob("*")):
        relative = path.relative_to(root)
        if path.is_dir():
            entries.append(f"{relative}/")
        else:
            entries.append(f"{relative}: {path.read_text()!r}")
    return entries


def populate(root):
    (root / "data").mkdir()
    (root / "data" / "IMG-HH-ALOS2012345678-200101-WBDR1.1__D-B1").write_text("image")
    (root / "data" / "IMG with space %41 é").write_text("image")
    (root / "data" / "subdir").mkdir()
    (root / "data" / "existing").write_text("image")
    (root / "data" / "existing.index").write_text("old")
    (root / "cache").mkdir()
    (root / "cache" / "nested").mkdir()
    (root / "a-file").write_text("not a directory")


def run_create_cache(make_args, stubs=None, cwd=None):
    global tmp_root

    stubs = stubs if stubs is not None else Stubs()
    del events[:]
    with tempfile.TemporaryDirectory() as tmp:
        tmp_root = pathlib.Path(os.path.realpath(tmp))
        populate(tmp_root)
        before = os.getcwd()
        os.chdir(tmp_root / cwd if cwd is not None else tmp_root)
        try:
            args, kwargs = make_args(LoggedPath(tmp_root))
            with stubs.installed():
                try:
                    result = cli.create_cache(*args, **kwargs)
                except Exception as e:  # noqa: BLE001
                    result = f"raises {type(e).__name__}({scrub(e)!r}) args={scrub(e.args)}"
                else:
                    result = f"returns {result!r}"
        finally:
            os.chdir(before)
        return {"result": result, "events": list(events), "files": listing(tmp_root)}


def run_main(make_argv, stubs=None):
    global tmp_root

    stubs = stubs if stubs is not None else Stubs()
    del events[:]
    stdout = io.StringIO()
    stderr = io.StringIO()
    with tempfile.TemporaryDirectory() as tmp:
        tmp_root = pathlib.Path(os.path.realpath(tmp))
        populate(tmp_root)
        before = os.getcwd()
        os.chdir(tmp_root)
        old_argv = sys.argv
        sys.argv = ["prog"] + make_argv(tmp_root)
        try:
            with stubs.installed(), contextlib.redirect_stdout(stdout), contextlib.redirect_stderr(stderr):
                try:
                    result = cli.main()
                except SystemExit as e:
                    result = f"exits {e.code!r}"
                except Exception as e:  # noqa: BLE001
                    result = f"raises {type(e).__name__}({scrub(e)!r})"
                else:
                    result = f"returns {result!r}"
        finally:
            sys.argv = old_argv
            os.chdir(before)
        return {
            "result": result,
            "stdout": scrub(stdout.getvalue()),
            "stderr": scrub(stderr.getvalue()),
            "events": list(events),
            "files": listing(tmp_root),
        }


IMG = "IMG-HH-ALOS2012345678-200101-WBDR1.1__D-B1"

create_cache_cases = {
    "default-root": lambda root: ((root / "data" / IMG, None, 4096), {}),
    "default-root-keyword": lambda root: ((root / "data" / IMG, None), {"records_per_chunk": 7}),
    "all-keywords": lambda root: (
        (),
        {"image_path": root / "data" / IMG, "cache_root": root / "cache", "records_per_chunk": 1},
    ),
    "rpc-none": lambda root: ((root / "data" / IMG, None, None), {}),
    "explicit-root": lambda root: ((root / "data" / IMG, root / "cache", 16), {}),
    "explicit-root-nested": lambda root: ((root / "data" / IMG, root / "cache" / "nested", 16), {}),
    "explicit-root-same-as-default": lambda root: ((root / "data" / IMG, root / "data", 16), {}),
    "explicit-root-relative": lambda root: ((root / "data" / IMG, LoggedPath("cache"), 16), {}),
    "explicit-root-dot": lambda root: ((root / "data" / IMG, LoggedPath("."), 16), {}),
    "root-missing": lambda root: ((root / "data" / IMG, root / "nope", 16), {}),
    "root-is-file": lambda root: ((root / "data" / IMG, root / "a-file", 16), {}),
    "image-missing": lambda root: ((root / "data" / "nope", None, 16), {}),
    "image-missing-root-missing": lambda root: ((root / "data" / "nope", root / "nope", 16), {}),
    "image-is-dir": lambda root: ((root / "data" / "subdir", None, 16), {}),
    "image-is-dir-root-missing": lambda root: ((root / "data" / "subdir", root / "nope", 16), {}),
    "image-relative": lambda root: ((LoggedPath("data") / IMG, None, 16), {}),
    "image-relative-root-missing": lambda root: ((LoggedPath("data") / IMG, root / "nope", 16), {}),
    "image-relative-root-given": lambda root: ((LoggedPath("data") / IMG, root / "cache", 16), {}),
    "image-dotdot": lambda root: ((root / "cache" / ".." / "data" / IMG, None, 16), {}),
    "image-special-characters": lambda root: ((root / "data" / "IMG with space %41 é", None, 16), {}),
    "image-special-characters-root": lambda root: (
        (root / "data" / "IMG with space %41 é", root / "cache", 16),
        {},
    ),
    "overwrite-existing": lambda root: ((root / "data" / "existing", None, 16), {}),
    "image-in-root-dir": lambda root: ((root / "a-file", None, 16), {}),
    "image-is-str": lambda root: ((str(root / "data" / IMG), None, 16), {}),
    "root-is-str": lambda root: ((root / "data" / IMG, str(root / "cache"), 16), {}),
    "image-none": lambda root: ((None, None, 16), {}),
    "missing-argument": lambda root: ((root / "data" / IMG, None), {}),
}

failing_stubs = {
    "open-oserror": lambda: Stubs(open_error=OSError("cannot open")),
    "open-permission": lambda: Stubs(open_error=PermissionError(13, "Permission denied")),
    "open-valueerror": lambda: Stubs(open_error=ValueError("bad file")),
    "encode-typeerror": lambda: Stubs(encode_error=TypeError("cannot encode")),
    "encode-oserror-no-args": lambda: Stubs(encode_error=OSError()),
}

main_cases = {
    "no-arguments": lambda root: [],
    "help": lambda root: ["--help"],
    "short-help": lambda root: ["-h"],
    "image-only": lambda root: [str(root / "data" / IMG)],
    "image-and-root": lambda root: [str(root / "data" / IMG), str(root / "cache")],
    "rpc-before": lambda root: ["--rpc", "16", str(root / "data" / IMG)],
    "rpc-after": lambda root: [str(root / "data" / IMG), "--rpc", "16"],
    "rpc-equals": lambda root: ["--rpc=32", str(root / "data" / IMG), str(root / "cache")],
    "rpc-without-value": lambda root: [str(root / "data" / IMG), "--rpc"],
    "rpc-without-value-before": lambda root: ["--rpc", "--", str(root / "data" / IMG)],
    "rpc-abbreviated": lambda root: ["--rp", "8", str(root / "data" / IMG)],
    "rpc-not-an-int": lambda root: ["--rpc", "many", str(root / "data" / IMG)],
    "rpc-negative": lambda root: ["--rpc", "-5", str(root / "data" / IMG)],
    "rpc-zero": lambda root: ["--rpc", "0", str(root / "data" / IMG)],
    "rpc-swallows-image": lambda root: ["--rpc", str(root / "data" / IMG)],
    "too-many": lambda root: [str(root / "data" / IMG), str(root / "cache"), "extra"],
    "unknown-option": lambda root: ["--records", "5", str(root / "data" / IMG)],
    "image-missing": lambda root: [str(root / "data" / "nope")],
    "image-missing-root-missing": lambda root: [str(root / "data" / "nope"), str(root / "nope")],
    "image-is-dir": lambda root: [str(root / "data" / "subdir")],
    "root-missing": lambda root: [str(root / "data" / IMG), str(root / "nope")],
    "root-is-file": lambda root: [str(root / "data" / IMG), str(root / "a-file")],
    "root-relative": lambda root: [str(root / "data" / IMG), "cache"],
    "image-relative": lambda root: [f"data/{IMG}"],
    "image-relative-root": lambda root: [f"data/{IMG}", "cache"],
    "image-special-characters": lambda root: [str(root / "data" / "IMG with space %41 é")],
    "overwrite-existing": lambda root: [str(root / "data" / "existing")],
    "empty-image": lambda root: [""],
    "empty-root": lambda root: [str(root / "data" / IMG), ""],
}


def collect():
    results = {}
    for name, make_args in create_cache_cases.items():
        results[f"create_cache/{name}"] = run_create_cache(make_args)
    results["create_cache/other-cwd"] = run_create_cache(
        lambda root: ((LoggedPath("..") / "data" / IMG, LoggedPath("nested"), 3), {}), cwd="cache"
    )
    for name, make_stubs in failing_stubs.items():
        results[f"create_cache/{name}"] = run_create_cache(
            lambda root: ((root / "data" / IMG, root / "cache", 16), {}), stubs=make_stubs()
        )

    for name, make_argv in main_cases.items():
        results[f"main/{name}"] = run_main(make_argv)
    for name, make_stubs in failing_stubs.items():
        results[f"main/{name}"] = run_main(
            lambda root: [str(root / "data" / IMG), str(root / "cache")], stubs=make_stubs()
        )

    from ceos_alos2.sar_image import __main__ as entrypoint

    results["entrypoint"] = str(entrypoint.main is cli.main)
    results["names"] = str(sorted(name for name in ("create_cache", "main") if callable(getattr(cli, name))))
    return results


EXPECTED = {'create_cache/default-root': {'result': 'returns None',
                               'events': ['is_file(<TMP>/data/IMG-HH-ALOS2012345678-200101-WBDR1.1__D-B1) -> True',
                                          'as_uri(<TMP>/data)',
                                          "get_mapper(['file://<TMP>/data'], {})",
                                          "open_image(mapper=FSMap(root='<TMP>/data', protocol=('file', 'local')), "
                                          "args=['IMG-HH-ALOS2012345678-200101-WBDR1.1__D-B1'] (['str']), "
                                          "kwargs={'use_cache': False, 'create_cache': False, 'records_per_chunk': "
                                          '4096})',
                                          "encode(Group('IMG-HH-ALOS2012345678-200101-WBDR1.1__D-B1'))",
                                          'write_text(<TMP>/data/IMG-HH-ALOS2012345678-200101-WBDR1.1__D-B1.index, '
                                          '"encoded<Group(\'IMG-HH-ALOS2012345678-200101-WBDR1.1__D-B1\')>", (), {})'],
                               'files': ["a-file: 'not a directory'",
                                         'cache/',
                                         'cache/nested/',
                                         'data/',
                                         "data/IMG with space %41 é: 'image'",
                                         "data/IMG-HH-ALOS2012345678-200101-WBDR1.1__D-B1: 'image'",
                                         'data/IMG-HH-ALOS2012345678-200101-WBDR1.1__D-B1.index: '
                                         '"encoded<Group(\'IMG-HH-ALOS2012345678-200101-WBDR1.1__D-B1\')>"',
                                         "data/existing: 'image'",
                                         "data/existing.index: 'old'",
                                         'data/subdir/']},
 'create_cache/default-root-keyword': {'result': 'returns None',
                                       'events': ['is_file(<TMP>/data/IMG-HH-ALOS2012345678-200101-WBDR1.1__D-B1) -> '
                                                  'True',
                                                  'as_uri(<TMP>/data)',
                                                  "get_mapper(['file://<TMP>/data'], {})",
                                                  "open_image(mapper=FSMap(root='<TMP>/data', protocol=('file', "
                                                  "'local')), args=['IMG-HH-ALOS2012345678-200101-WBDR1.1__D-B1'] "
                                                  "(['str']), kwargs={'use_cache': False, 'create_cache': False, "
                                                  "'records_per_chunk': 7})",
                                                  "encode(Group('IMG-HH-ALOS2012345678-200101-WBDR1.1__D-B1'))",
                                                  'write_text(<TMP>/data/IMG-HH-ALOS2012345678-200101-WBDR1.1__D-B1.index, '
                                                  '"encoded<Group(\'IMG-HH-ALOS2012345678-200101-WBDR1.1__D-B1\')>", '
                                                  '(), {})'],
                                       'files': ["a-file: 'not a directory'",
                                                 'cache/',
                                                 'cache/nested/',
                                                 'data/',
                                                 "data/IMG with space %41 é: 'image'",
                                                 "data/IMG-HH-ALOS2012345678-200101-WBDR1.1__D-B1: 'image'",
                                                 'data/IMG-HH-ALOS2012345678-200101-WBDR1.1__D-B1.index: '
                                                 '"encoded<Group(\'IMG-HH-ALOS2012345678-200101-WBDR1.1__D-B1\')>"',
                                                 "data/existing: 'image'",
                                                 "data/existing.index: 'old'",
                                                 'data/subdir/']},
 'create_cache/all-keywords': {'result': 'returns None',
                               'events': ['is_file(<TMP>/data/IMG-HH-ALOS2012345678-200101-WBDR1.1__D-B1) -> True',
                                          'is_dir(<TMP>/cache) -> True',
                                          'as_uri(<TMP>/data)',
                                          "get_mapper(['file://<TMP>/data'], {})",
                                          "open_image(mapper=FSMap(root='<TMP>/data', protocol=('file', 'local')), "
                                          "args=['IMG-HH-ALOS2012345678-200101-WBDR1.1__D-B1'] (['str']), "
                                          "kwargs={'use_cache': False, 'create_cache': False, 'records_per_chunk': 1})",
                                          "encode(Group('IMG-HH-ALOS2012345678-200101-WBDR1.1__D-B1'))",
                                          'write_text(<TMP>/cache/IMG-HH-ALOS2012345678-200101-WBDR1.1__D-B1.index, '
                                          '"encoded<Group(\'IMG-HH-ALOS2012345678-200101-WBDR1.1__D-B1\')>", (), {})'],
                               'files': ["a-file: 'not a directory'",
                                         'cache/',
                                         'cache/IMG-HH-ALOS2012345678-200101-WBDR1.1__D-B1.index: '
                                         '"encoded<Group(\'IMG-HH-ALOS2012345678-200101-WBDR1.1__D-B1\')>"',
                                         'cache/nested/',
                                         'data/',
                                         "data/IMG with space %41 é: 'image'",
                                         "data/IMG-HH-ALOS2012345678-200101-WBDR1.1__D-B1: 'image'",
                                         "data/existing: 'image'",
                                         "data/existing.index: 'old'",
                                         'data/subdir/']},
 'create_cache/rpc-none': {'result': 'returns None',
                           'events': ['is_file(<TMP>/data/IMG-HH-ALOS2012345678-200101-WBDR1.1__D-B1) -> True',
                                      'as_uri(<TMP>/data)',
                                      "get_mapper(['file://<TMP>/data'], {})",
                                      "open_image(mapper=FSMap(root='<TMP>/data', protocol=('file', 'local')), "
                                      "args=['IMG-HH-ALOS2012345678-200101-WBDR1.1__D-B1'] (['str']), "
                                      "kwargs={'use_cache': False, 'create_cache': False, 'records_per_chunk': None})",
                                      "encode(Group('IMG-HH-ALOS2012345678-200101-WBDR1.1__D-B1'))",
                                      'write_text(<TMP>/data/IMG-HH-ALOS2012345678-200101-WBDR1.1__D-B1.index, '
                                      '"encoded<Group(\'IMG-HH-ALOS2012345678-200101-WBDR1.1__D-B1\')>", (), {})'],
                           'files': ["a-file: 'not a directory'",
                                     'cache/',
                                     'cache/nested/',
                                     'data/',
                                     "data/IMG with space %41 é: 'image'",
                                     "data/IMG-HH-ALOS2012345678-200101-WBDR1.1__D-B1: 'image'",
                                     'data/IMG-HH-ALOS2012345678-200101-WBDR1.1__D-B1.index: '
                                     '"encoded<Group(\'IMG-HH-ALOS2012345678-200101-WBDR1.1__D-B1\')>"',
                                     "data/existing: 'image'",
                                     "data/existing.index: 'old'",
                                     'data/subdir/']},
 'create_cache/explicit-root': {'result': 'returns None',
                                'events': ['is_file(<TMP>/data/IMG-HH-ALOS2012345678-200101-WBDR1.1__D-B1) -> True',
                                           'is_dir(<TMP>/cache) -> True',
                                           'as_uri(<TMP>/data)',
                                           "get_mapper(['file://<TMP>/data'], {})",
                                           "open_image(mapper=FSMap(root='<TMP>/data', protocol=('file', 'local')), "
                                           "args=['IMG-HH-ALOS2012345678-200101-WBDR1.1__D-B1'] (['str']), "
                                           "kwargs={'use_cache': False, 'create_cache': False, 'records_per_chunk': "
                                           '16})',
                                           "encode(Group('IMG-HH-ALOS2012345678-200101-WBDR1.1__D-B1'))",
                                           'write_text(<TMP>/cache/IMG-HH-ALOS2012345678-200101-WBDR1.1__D-B1.index, '
                                           '"encoded<Group(\'IMG-HH-ALOS2012345678-200101-WBDR1.1__D-B1\')>", (), {})'],
                                'files': ["a-file: 'not a directory'",
                                          'cache/',
                                          'cache/IMG-HH-ALOS2012345678-200101-WBDR1.1__D-B1.index: '
                                          '"encoded<Group(\'IMG-HH-ALOS2012345678-200101-WBDR1.1__D-B1\')>"',
                                          'cache/nested/',
                                          'data/',
                                          "data/IMG with space %41 é: 'image'",
                                          "data/IMG-HH-ALOS2012345678-200101-WBDR1.1__D-B1: 'image'",
                                          "data/existing: 'image'",
                                          "data/existing.index: 'old'",
                                          'data/subdir/']},
 'create_cache/explicit-root-nested': {'result': 'returns None',
                                       'events': ['is_file(<TMP>/data/IMG-HH-ALOS2012345678-200101-WBDR1.1__D-B1) -> '
                                                  'True',
                                                  'is_dir(<TMP>/cache/nested) -> True',
                                                  'as_uri(<TMP>/data)',
                                                  "get_mapper(['file://<TMP>/data'], {})",
                                                  "open_image(mapper=FSMap(root='<TMP>/data', protocol=('file', "
                                                  "'local')), args=['IMG-HH-ALOS2012345678-200101-WBDR1.1__D-B1'] "
                                                  "(['str']), kwargs={'use_cache': False, 'create_cache': False, "
                                                  "'records_per_chunk': 16})",
                                                  "encode(Group('IMG-HH-ALOS2012345678-200101-WBDR1.1__D-B1'))",
                                                  'write_text(<TMP>/cache/nested/IMG-HH-ALOS2012345678-200101-WBDR1.1__D-B1.index, '
                                                  '"encoded<Group(\'IMG-HH-ALOS2012345678-200101-WBDR1.1__D-B1\')>", '
                                                  '(), {})'],
                                       'files': ["a-file: 'not a directory'",
                                                 'cache/',
                                                 'cache/nested/',
                                                 'cache/nested/IMG-HH-ALOS2012345678-200101-WBDR1.1__D-B1.index: '
                                                 '"encoded<Group(\'IMG-HH-ALOS2012345678-200101-WBDR1.1__D-B1\')>"',
                                                 'data/',
                                                 "data/IMG with space %41 é: 'image'",
                                                 "data/IMG-HH-ALOS2012345678-200101-WBDR1.1__D-B1: 'image'",
                                                 "data/existing: 'image'",
                                                 "data/existing.index: 'old'",
                                                 'data/subdir/']},
 'create_cache/explicit-root-same-as-default': {'result': 'returns None',
                                                'events': ['is_file(<TMP>/data/IMG-HH-ALOS2012345678-200101-WBDR1.1__D-B1) '
                                                           '-> True',
                                                           'is_dir(<TMP>/data) -> True',
                                                           'as_uri(<TMP>/data)',
                                                           "get_mapper(['file://<TMP>/data'], {})",
                                                           "open_image(mapper=FSMap(root='<TMP>/data', "
                                                           "protocol=('file', 'local')), "
                                                           "args=['IMG-HH-ALOS2012345678-200101-WBDR1.1__D-B1'] "
                                                           "(['str']), kwargs={'use_cache': False, 'create_cache': "
                                                           "False, 'records_per_chunk': 16})",
                                                           "encode(Group('IMG-HH-ALOS2012345678-200101-WBDR1.1__D-B1'))",
                                                           'write_text(<TMP>/data/IMG-HH-ALOS2012345678-200101-WBDR1.1__D-B1.index, '
                                                           '"encoded<Group(\'IMG-HH-ALOS2012345678-200101-WBDR1.1__D-B1\')>", '
                                                           '(), {})'],
                                                'files': ["a-file: 'not a directory'",
                                                          'cache/',
                                                          'cache/nested/',
                                                          'data/',
                                                          "data/IMG with space %41 é: 'image'",
                                                          "data/IMG-HH-ALOS2012345678-200101-WBDR1.1__D-B1: 'image'",
                                                          'data/IMG-HH-ALOS2012345678-200101-WBDR1.1__D-B1.index: '
                                                          '"encoded<Group(\'IMG-HH-ALOS2012345678-200101-WBDR1.1__D-B1\')>"',
                                                          "data/existing: 'image'",
                                                          "data/existing.index: 'old'",
                                                          'data/subdir/']},
 'create_cache/explicit-root-relative': {'result': 'returns None',
                                         'events': ['is_file(<TMP>/data/IMG-HH-ALOS2012345678-200101-WBDR1.1__D-B1) -> '
                                                    'True',
                                                    'is_dir(cache) -> True',
                                                    'as_uri(<TMP>/data)',
                                                    "get_mapper(['file://<TMP>/data'], {})",
                                                    "open_image(mapper=FSMap(root='<TMP>/data', protocol=('file', "
                                                    "'local')), args=['IMG-HH-ALOS2012345678-200101-WBDR1.1__D-B1'] "
                                                    "(['str']), kwargs={'use_cache': False, 'create_cache': False, "
                                                    "'records_per_chunk': 16})",
                                                    "encode(Group('IMG-HH-ALOS2012345678-200101-WBDR1.1__D-B1'))",
                                                    'write_text(cache/IMG-HH-ALOS2012345678-200101-WBDR1.1__D-B1.index, '
                                                    '"encoded<Group(\'IMG-HH-ALOS2012345678-200101-WBDR1.1__D-B1\')>", '
                                                    '(), {})'],
                                         'files': ["a-file: 'not a directory'",
                                                   'cache/',
                                                   'cache/IMG-HH-ALOS2012345678-200101-WBDR1.1__D-B1.index: '
                                                   '"encoded<Group(\'IMG-HH-ALOS2012345678-200101-WBDR1.1__D-B1\')>"',
                                                   'cache/nested/',
                                                   'data/',
                                                   "data/IMG with space %41 é: 'image'",
                                                   "data/IMG-HH-ALOS2012345678-200101-WBDR1.1__D-B1: 'image'",
                                                   "data/existing: 'image'",
                                                   "data/existing.index: 'old'",
                                                   'data/subdir/']},
 'create_cache/explicit-root-dot': {'result': 'returns None',
                                    'events': ['is_file(<TMP>/data/IMG-HH-ALOS2012345678-200101-WBDR1.1__D-B1) -> True',
                                               'is_dir(.) -> True',
                                               'as_uri(<TMP>/data)',
                                               "get_mapper(['file://<TMP>/data'], {})",
                                               "open_image(mapper=FSMap(root='<TMP>/data', protocol=('file', "
                                               "'local')), args=['IMG-HH-ALOS2012345678-200101-WBDR1.1__D-B1'] "
                                               "(['str']), kwargs={'use_cache': False, 'create_cache': False, "
                                               "'records_per_chunk': 16})",
                                               "encode(Group('IMG-HH-ALOS2012345678-200101-WBDR1.1__D-B1'))",
                                               'write_text(IMG-HH-ALOS2012345678-200101-WBDR1.1__D-B1.index, '
                                               '"encoded<Group(\'IMG-HH-ALOS2012345678-200101-WBDR1.1__D-B1\')>", (), '
                                               '{})'],
                                    'files': ['IMG-HH-ALOS2012345678-200101-WBDR1.1__D-B1.index: '
                                              '"encoded<Group(\'IMG-HH-ALOS2012345678-200101-WBDR1.1__D-B1\')>"',
                                              "a-file: 'not a directory'",
                                              'cache/',
                                              'cache/nested/',
                                              'data/',
                                              "data/IMG with space %41 é: 'image'",
                                              "data/IMG-HH-ALOS2012345678-200101-WBDR1.1__D-B1: 'image'",
                                              "data/existing: 'image'",
                                              "data/existing.index: 'old'",
                                              'data/subdir/']},
 'create_cache/root-missing': {'result': "raises OSError('Cannot find the target cache root: <TMP>/nope') "
                                         "args=('Cannot find the target cache root: <TMP>/nope',)",
                               'events': ['is_file(<TMP>/data/IMG-HH-ALOS2012345678-200101-WBDR1.1__D-B1) -> True',
                                          'is_dir(<TMP>/nope) -> False'],
                               'files': ["a-file: 'not a directory'",
                                         'cache/',
                                         'cache/nested/',
                                         'data/',
                                         "data/IMG with space %41 é: 'image'",
                                         "data/IMG-HH-ALOS2012345678-200101-WBDR1.1__D-B1: 'image'",
                                         "data/existing: 'image'",
                                         "data/existing.index: 'old'",
                                         'data/subdir/']},
 'create_cache/root-is-file': {'result': "raises OSError('Cannot find the target cache root: <TMP>/a-file') "
                                         "args=('Cannot find the target cache root: <TMP>/a-file',)",
                               'events': ['is_file(<TMP>/data/IMG-HH-ALOS2012345678-200101-WBDR1.1__D-B1) -> True',
                                          'is_dir(<TMP>/a-file) -> False'],
                               'files': ["a-file: 'not a directory'",
                                         'cache/',
                                         'cache/nested/',
                                         'data/',
                                         "data/IMG with space %41 é: 'image'",
                                         "data/IMG-HH-ALOS2012345678-200101-WBDR1.1__D-B1: 'image'",
                                         "data/existing: 'image'",
                                         "data/existing.index: 'old'",
                                         'data/subdir/']},
 'create_cache/image-missing': {'result': "raises FileNotFoundError('Cannot find image file at given path: "
                                          "<TMP>/data/nope') args=('Cannot find image file at given path: "
                                          "<TMP>/data/nope',)",
                                'events': ['is_file(<TMP>/data/nope) -> False'],
                                'files': ["a-file: 'not a directory'",
                                          'cache/',
                                          'cache/nested/',
                                          'data/',
                                          "data/IMG with space %41 é: 'image'",
                                          "data/IMG-HH-ALOS2012345678-200101-WBDR1.1__D-B1: 'image'",
                                          "data/existing: 'image'",
                                          "data/existing.index: 'old'",
                                          'data/subdir/']},
 'create_cache/image-missing-root-missing': {'result': "raises FileNotFoundError('Cannot find image file at given "
                                                       "path: <TMP>/data/nope') args=('Cannot find image file at given "
                                                       "path: <TMP>/data/nope',)",
                                             'events': ['is_file(<TMP>/data/nope) -> False'],
                                             'files': ["a-file: 'not a directory'",
                                                       'cache/',
                                                       'cache/nested/',
                                                       'data/',
                                                       "data/IMG with space %41 é: 'image'",
                                                       "data/IMG-HH-ALOS2012345678-200101-WBDR1.1__D-B1: 'image'",
                                                       "data/existing: 'image'",
                                                       "data/existing.index: 'old'",
                                                       'data/subdir/']},
 'create_cache/image-is-dir': {'result': "raises FileNotFoundError('Cannot find image file at given path: "
                                         "<TMP>/data/subdir') args=('Cannot find image file at given path: "
                                         "<TMP>/data/subdir',)",
                               'events': ['is_file(<TMP>/data/subdir) -> False'],
                               'files': ["a-file: 'not a directory'",
                                         'cache/',
                                         'cache/nested/',
                                         'data/',
                                         "data/IMG with space %41 é: 'image'",
                                         "data/IMG-HH-ALOS2012345678-200101-WBDR1.1__D-B1: 'image'",
                                         "data/existing: 'image'",
                                         "data/existing.index: 'old'",
                                         'data/subdir/']},
 'create_cache/image-is-dir-root-missing': {'result': "raises FileNotFoundError('Cannot find image file at given path: "
                                                      "<TMP>/data/subdir') args=('Cannot find image file at given "
                                                      "path: <TMP>/data/subdir',)",
                                            'events': ['is_file(<TMP>/data/subdir) -> False'],
                                            'files': ["a-file: 'not a directory'",
                                                      'cache/',
                                                      'cache/nested/',
                                                      'data/',
                                                      "data/IMG with space %41 é: 'image'",
                                                      "data/IMG-HH-ALOS2012345678-200101-WBDR1.1__D-B1: 'image'",
                                                      "data/existing: 'image'",
                                                      "data/existing.index: 'old'",
                                                      'data/subdir/']},
 'create_cache/image-relative': {'result': 'raises ValueError("relative path can\'t be expressed as a file URI") '
                                           'args=("relative path can\'t be expressed as a file URI",)',
                                 'events': ['is_file(data/IMG-HH-ALOS2012345678-200101-WBDR1.1__D-B1) -> True',
                                            'as_uri(data)'],
                                 'files': ["a-file: 'not a directory'",
                                           'cache/',
                                           'cache/nested/',
                                           'data/',
                                           "data/IMG with space %41 é: 'image'",
                                           "data/IMG-HH-ALOS2012345678-200101-WBDR1.1__D-B1: 'image'",
                                           "data/existing: 'image'",
                                           "data/existing.index: 'old'",
                                           'data/subdir/']},
 'create_cache/image-relative-root-missing': {'result': "raises OSError('Cannot find the target cache root: "
                                                        "<TMP>/nope') args=('Cannot find the target cache root: "
                                                        "<TMP>/nope',)",
                                              'events': ['is_file(data/IMG-HH-ALOS2012345678-200101-WBDR1.1__D-B1) -> '
                                                         'True',
                                                         'is_dir(<TMP>/nope) -> False'],
                                              'files': ["a-file: 'not a directory'",
                                                        'cache/',
                                                        'cache/nested/',
                                                        'data/',
                                                        "data/IMG with space %41 é: 'image'",
                                                        "data/IMG-HH-ALOS2012345678-200101-WBDR1.1__D-B1: 'image'",
                                                        "data/existing: 'image'",
                                                        "data/existing.index: 'old'",
                                                        'data/subdir/']},
 'create_cache/image-relative-root-given': {'result': 'raises ValueError("relative path can\'t be expressed as a file '
                                                      'URI") args=("relative path can\'t be expressed as a file URI",)',
                                            'events': ['is_file(data/IMG-HH-ALOS2012345678-200101-WBDR1.1__D-B1) -> '
                                                       'True',
                                                       'is_dir(<TMP>/cache) -> True',
                                                       'as_uri(data)'],
                                            'files': ["a-file: 'not a directory'",
                                                      'cache/',
                                                      'cache/nested/',
                                                      'data/',
                                                      "data/IMG with space %41 é: 'image'",
                                                      "data/IMG-HH-ALOS2012345678-200101-WBDR1.1__D-B1: 'image'",
                                                      "data/existing: 'image'",
                                                      "data/existing.index: 'old'",
                                                      'data/subdir/']},
 'create_cache/image-dotdot': {'result': 'returns None',
                               'events': ['is_file(<TMP>/cache/../data/IMG-HH-ALOS2012345678-200101-WBDR1.1__D-B1) -> '
                                          'True',
                                          'as_uri(<TMP>/cache/../data)',
                                          "get_mapper(['file://<TMP>/cache/../data'], {})",
                                          "open_image(mapper=FSMap(root='<TMP>/cache/../data', protocol=('file', "
                                          "'local')), args=['IMG-HH-ALOS2012345678-200101-WBDR1.1__D-B1'] (['str']), "
                                          "kwargs={'use_cache': False, 'create_cache': False, 'records_per_chunk': "
                                          '16})',
                                          "encode(Group('IMG-HH-ALOS2012345678-200101-WBDR1.1__D-B1'))",
                                          'write_text(<TMP>/cache/../data/IMG-HH-ALOS2012345678-200101-WBDR1.1__D-B1.index, '
                                          '"encoded<Group(\'IMG-HH-ALOS2012345678-200101-WBDR1.1__D-B1\')>", (), {})'],
                               'files': ["a-file: 'not a directory'",
                                         'cache/',
                                         'cache/nested/',
                                         'data/',
                                         "data/IMG with space %41 é: 'image'",
                                         "data/IMG-HH-ALOS2012345678-200101-WBDR1.1__D-B1: 'image'",
                                         'data/IMG-HH-ALOS2012345678-200101-WBDR1.1__D-B1.index: '
                                         '"encoded<Group(\'IMG-HH-ALOS2012345678-200101-WBDR1.1__D-B1\')>"',
                                         "data/existing: 'image'",
                                         "data/existing.index: 'old'",
                                         'data/subdir/']},
 'create_cache/image-special-characters': {'result': 'returns None',
                                           'events': ['is_file(<TMP>/data/IMG with space %41 é) -> True',
                                                      'as_uri(<TMP>/data)',
                                                      "get_mapper(['file://<TMP>/data'], {})",
                                                      "open_image(mapper=FSMap(root='<TMP>/data', protocol=('file', "
                                                      "'local')), args=['IMG with space %41 é'] (['str']), "
                                                      "kwargs={'use_cache': False, 'create_cache': False, "
                                                      "'records_per_chunk': 16})",
                                                      "encode(Group('IMG with space %41 é'))",
                                                      'write_text(<TMP>/data/IMG with space %41 é.index, '
                                                      '"encoded<Group(\'IMG with space %41 é\')>", (), {})'],
                                           'files': ["a-file: 'not a directory'",
                                                     'cache/',
                                                     'cache/nested/',
                                                     'data/',
                                                     "data/IMG with space %41 é: 'image'",
                                                     'data/IMG with space %41 é.index: "encoded<Group(\'IMG with space '
                                                     '%41 é\')>"',
                                                     "data/IMG-HH-ALOS2012345678-200101-WBDR1.1__D-B1: 'image'",
                                                     "data/existing: 'image'",
                                                     "data/existing.index: 'old'",
                                                     'data/subdir/']},
 'create_cache/image-special-characters-root': {'result': 'returns None',
                                                'events': ['is_file(<TMP>/data/IMG with space %41 é) -> True',
                                                           'is_dir(<TMP>/cache) -> True',
                                                           'as_uri(<TMP>/data)',
                                                           "get_mapper(['file://<TMP>/data'], {})",
                                                           "open_image(mapper=FSMap(root='<TMP>/data', "
                                                           "protocol=('file', 'local')), args=['IMG with space %41 é'] "
                                                           "(['str']), kwargs={'use_cache': False, 'create_cache': "
                                                           "False, 'records_per_chunk': 16})",
                                                           "encode(Group('IMG with space %41 é'))",
                                                           'write_text(<TMP>/cache/IMG with space %41 é.index, '
                                                           '"encoded<Group(\'IMG with space %41 é\')>", (), {})'],
                                                'files': ["a-file: 'not a directory'",
                                                          'cache/',
                                                          'cache/IMG with space %41 é.index: "encoded<Group(\'IMG with '
                                                          'space %41 é\')>"',
                                                          'cache/nested/',
                                                          'data/',
                                                          "data/IMG with space %41 é: 'image'",
                                                          "data/IMG-HH-ALOS2012345678-200101-WBDR1.1__D-B1: 'image'",
                                                          "data/existing: 'image'",
                                                          "data/existing.index: 'old'",
                                                          'data/subdir/']},
 'create_cache/overwrite-existing': {'result': 'returns None',
                                     'events': ['is_file(<TMP>/data/existing) -> True',
                                                'as_uri(<TMP>/data)',
                                                "get_mapper(['file://<TMP>/data'], {})",
                                                "open_image(mapper=FSMap(root='<TMP>/data', protocol=('file', "
                                                "'local')), args=['existing'] (['str']), kwargs={'use_cache': False, "
                                                "'create_cache': False, 'records_per_chunk': 16})",
                                                "encode(Group('existing'))",
                                                'write_text(<TMP>/data/existing.index, "encoded<Group(\'existing\')>", '
                                                '(), {})'],
                                     'files': ["a-file: 'not a directory'",
                                               'cache/',
                                               'cache/nested/',
                                               'data/',
                                               "data/IMG with space %41 é: 'image'",
                                               "data/IMG-HH-ALOS2012345678-200101-WBDR1.1__D-B1: 'image'",
                                               "data/existing: 'image'",
                                               'data/existing.index: "encoded<Group(\'existing\')>"',
                                               'data/subdir/']},
 'create_cache/image-in-root-dir': {'result': 'returns None',
                                    'events': ['is_file(<TMP>/a-file) -> True',
                                               'as_uri(<TMP>)',
                                               "get_mapper(['file://<TMP>'], {})",
                                               "open_image(mapper=FSMap(root='<TMP>', protocol=('file', 'local')), "
                                               "args=['a-file'] (['str']), kwargs={'use_cache': False, 'create_cache': "
                                               "False, 'records_per_chunk': 16})",
                                               "encode(Group('a-file'))",
                                               'write_text(<TMP>/a-file.index, "encoded<Group(\'a-file\')>", (), {})'],
                                    'files': ["a-file: 'not a directory'",
                                              'a-file.index: "encoded<Group(\'a-file\')>"',
                                              'cache/',
                                              'cache/nested/',
                                              'data/',
                                              "data/IMG with space %41 é: 'image'",
                                              "data/IMG-HH-ALOS2012345678-200101-WBDR1.1__D-B1: 'image'",
                                              "data/existing: 'image'",
                                              "data/existing.index: 'old'",
                                              'data/subdir/']},
 'create_cache/image-is-str': {'result': 'raises AttributeError("\'str\' object has no attribute \'is_file\'") '
                                         'args=("\'str\' object has no attribute \'is_file\'",)',
                               'events': [],
                               'files': ["a-file: 'not a directory'",
                                         'cache/',
                                         'cache/nested/',
                                         'data/',
                                         "data/IMG with space %41 é: 'image'",
                                         "data/IMG-HH-ALOS2012345678-200101-WBDR1.1__D-B1: 'image'",
                                         "data/existing: 'image'",
                                         "data/existing.index: 'old'",
                                         'data/subdir/']},
 'create_cache/root-is-str': {'result': 'raises AttributeError("\'str\' object has no attribute \'is_dir\'") '
                                        'args=("\'str\' object has no attribute \'is_dir\'",)',
                              'events': ['is_file(<TMP>/data/IMG-HH-ALOS2012345678-200101-WBDR1.1__D-B1) -> True'],
                              'files': ["a-file: 'not a directory'",
                                        'cache/',
                                        'cache/nested/',
                                        'data/',
                                        "data/IMG with space %41 é: 'image'",
                                        "data/IMG-HH-ALOS2012345678-200101-WBDR1.1__D-B1: 'image'",
                                        "data/existing: 'image'",
                                        "data/existing.index: 'old'",
                                        'data/subdir/']},
 'create_cache/image-none': {'result': 'raises AttributeError("\'NoneType\' object has no attribute \'is_file\'") '
                                       'args=("\'NoneType\' object has no attribute \'is_file\'",)',
                             'events': [],
                             'files': ["a-file: 'not a directory'",
                                       'cache/',
                                       'cache/nested/',
                                       'data/',
                                       "data/IMG with space %41 é: 'image'",
                                       "data/IMG-HH-ALOS2012345678-200101-WBDR1.1__D-B1: 'image'",
                                       "data/existing: 'image'",
                                       "data/existing.index: 'old'",
                                       'data/subdir/']},
 'create_cache/missing-argument': {'result': 'raises TypeError("create_cache() missing 1 required positional argument: '
                                             '\'records_per_chunk\'") args=("create_cache() missing 1 required '
                                             'positional argument: \'records_per_chunk\'",)',
                                   'events': [],
                                   'files': ["a-file: 'not a directory'",
                                             'cache/',
                                             'cache/nested/',
                                             'data/',
                                             "data/IMG with space %41 é: 'image'",
                                             "data/IMG-HH-ALOS2012345678-200101-WBDR1.1__D-B1: 'image'",
                                             "data/existing: 'image'",
                                             "data/existing.index: 'old'",
                                             'data/subdir/']},
 'create_cache/other-cwd': {'result': 'raises ValueError("relative path can\'t be expressed as a file URI") '
                                      'args=("relative path can\'t be expressed as a file URI",)',
                            'events': ['is_file(../data/IMG-HH-ALOS2012345678-200101-WBDR1.1__D-B1) -> True',
                                       'is_dir(nested) -> True',
                                       'as_uri(../data)'],
                            'files': ["a-file: 'not a directory'",
                                      'cache/',
                                      'cache/nested/',
                                      'data/',
                                      "data/IMG with space %41 é: 'image'",
                                      "data/IMG-HH-ALOS2012345678-200101-WBDR1.1__D-B1: 'image'",
                                      "data/existing: 'image'",
                                      "data/existing.index: 'old'",
                                      'data/subdir/']},
 'create_cache/open-oserror': {'result': "raises OSError('cannot open') args=('cannot open',)",
                               'events': ['is_file(<TMP>/data/IMG-HH-ALOS2012345678-200101-WBDR1.1__D-B1) -> True',
                                          'is_dir(<TMP>/cache) -> True',
                                          'as_uri(<TMP>/data)',
                                          "get_mapper(['file://<TMP>/data'], {})",
                                          "open_image(mapper=FSMap(root='<TMP>/data', protocol=('file', 'local')), "
                                          "args=['IMG-HH-ALOS2012345678-200101-WBDR1.1__D-B1'] (['str']), "
                                          "kwargs={'use_cache': False, 'create_cache': False, 'records_per_chunk': "
                                          '16})'],
                               'files': ["a-file: 'not a directory'",
                                         'cache/',
                                         'cache/nested/',
                                         'data/',
                                         "data/IMG with space %41 é: 'image'",
                                         "data/IMG-HH-ALOS2012345678-200101-WBDR1.1__D-B1: 'image'",
                                         "data/existing: 'image'",
                                         "data/existing.index: 'old'",
                                         'data/subdir/']},
 'create_cache/open-permission': {'result': "raises PermissionError('[Errno 13] Permission denied') args=(13, "
                                            "'Permission denied')",
                                  'events': ['is_file(<TMP>/data/IMG-HH-ALOS2012345678-200101-WBDR1.1__D-B1) -> True',
                                             'is_dir(<TMP>/cache) -> True',
                                             'as_uri(<TMP>/data)',
                                             "get_mapper(['file://<TMP>/data'], {})",
                                             "open_image(mapper=FSMap(root='<TMP>/data', protocol=('file', 'local')), "
                                             "args=['IMG-HH-ALOS2012345678-200101-WBDR1.1__D-B1'] (['str']), "
                                             "kwargs={'use_cache': False, 'create_cache': False, 'records_per_chunk': "
                                             '16})'],
                                  'files': ["a-file: 'not a directory'",
                                            'cache/',
                                            'cache/nested/',
                                            'data/',
                                            "data/IMG with space %41 é: 'image'",
                                            "data/IMG-HH-ALOS2012345678-200101-WBDR1.1__D-B1: 'image'",
                                            "data/existing: 'image'",
                                            "data/existing.index: 'old'",
                                            'data/subdir/']},
 'create_cache/open-valueerror': {'result': "raises ValueError('bad file') args=('bad file',)",
                                  'events': ['is_file(<TMP>/data/IMG-HH-ALOS2012345678-200101-WBDR1.1__D-B1) -> True',
                                             'is_dir(<TMP>/cache) -> True',
                                             'as_uri(<TMP>/data)',
                                             "get_mapper(['file://<TMP>/data'], {})",
                                             "open_image(mapper=FSMap(root='<TMP>/data', protocol=('file', 'local')), "
                                             "args=['IMG-HH-ALOS2012345678-200101-WBDR1.1__D-B1'] (['str']), "
                                             "kwargs={'use_cache': False, 'create_cache': False, 'records_per_chunk': "
                                             '16})'],
                                  'files': ["a-file: 'not a directory'",
                                            'cache/',
                                            'cache/nested/',
                                            'data/',
                                            "data/IMG with space %41 é: 'image'",
                                            "data/IMG-HH-ALOS2012345678-200101-WBDR1.1__D-B1: 'image'",
                                            "data/existing: 'image'",
                                            "data/existing.index: 'old'",
                                            'data/subdir/']},
 'create_cache/encode-typeerror': {'result': "raises TypeError('cannot encode') args=('cannot encode',)",
                                   'events': ['is_file(<TMP>/data/IMG-HH-ALOS2012345678-200101-WBDR1.1__D-B1) -> True',
                                              'is_dir(<TMP>/cache) -> True',
                                              'as_uri(<TMP>/data)',
                                              "get_mapper(['file://<TMP>/data'], {})",
                                              "open_image(mapper=FSMap(root='<TMP>/data', protocol=('file', 'local')), "
                                              "args=['IMG-HH-ALOS2012345678-200101-WBDR1.1__D-B1'] (['str']), "
                                              "kwargs={'use_cache': False, 'create_cache': False, 'records_per_chunk': "
                                              '16})',
                                              "encode(Group('IMG-HH-ALOS2012345678-200101-WBDR1.1__D-B1'))"],
                                   'files': ["a-file: 'not a directory'",
                                             'cache/',
                                             'cache/nested/',
                                             'data/',
                                             "data/IMG with space %41 é: 'image'",
                                             "data/IMG-HH-ALOS2012345678-200101-WBDR1.1__D-B1: 'image'",
                                             "data/existing: 'image'",
                                             "data/existing.index: 'old'",
                                             'data/subdir/']},
 'create_cache/encode-oserror-no-args': {'result': "raises OSError('') args=()",
                                         'events': ['is_file(<TMP>/data/IMG-HH-ALOS2012345678-200101-WBDR1.1__D-B1) -> '
                                                    'True',
                                                    'is_dir(<TMP>/cache) -> True',
                                                    'as_uri(<TMP>/data)',
                                                    "get_mapper(['file://<TMP>/data'], {})",
                                                    "open_image(mapper=FSMap(root='<TMP>/data', protocol=('file', "
                                                    "'local')), args=['IMG-HH-ALOS2012345678-200101-WBDR1.1__D-B1'] "
                                                    "(['str']), kwargs={'use_cache': False, 'create_cache': False, "
                                                    "'records_per_chunk': 16})",
                                                    "encode(Group('IMG-HH-ALOS2012345678-200101-WBDR1.1__D-B1'))"],
                                         'files': ["a-file: 'not a directory'",
                                                   'cache/',
                                                   'cache/nested/',
                                                   'data/',
                                                   "data/IMG with space %41 é: 'image'",
                                                   "data/IMG-HH-ALOS2012345678-200101-WBDR1.1__D-B1: 'image'",
                                                   "data/existing: 'image'",
                                                   "data/existing.index: 'old'",
                                                   'data/subdir/']},
 'main/no-arguments': {'result': 'exits 2',
                       'stdout': '',
                       'stderr': 'usage: prog [-h] [--rpc [RPC]] image_path [cache_root]\n'
                                 'prog: error: the following arguments are required: image_path\n',
                       'events': [],
                       'files': ["a-file: 'not a directory'",
                                 'cache/',
                                 'cache/nested/',
                                 'data/',
                                 "data/IMG with space %41 é: 'image'",
                                 "data/IMG-HH-ALOS2012345678-200101-WBDR1.1__D-B1: 'image'",
                                 "data/existing: 'image'",
                                 "data/existing.index: 'old'",
                                 'data/subdir/']},
 'main/help': {'result': 'exits 0',
               'stdout': 'usage: prog [-h] [--rpc [RPC]] image_path [cache_root]\n'
                         '\n'
                         'positional arguments:\n'
                         '  image_path   image path to create a cache file for\n'
                         '  cache_root   Root path to the new cache file. By default, it is created in\n'
                         '               the same directory as the image file.\n'
                         '\n'
                         'options:\n'
                         '  -h, --help   show this help message and exit\n'
                         '  --rpc [RPC]  records-per-chunk size used to create the cache files\n',
               'stderr': '',
               'events': [],
               'files': ["a-file: 'not a directory'",
                         'cache/',
                         'cache/nested/',
                         'data/',
                         "data/IMG with space %41 é: 'image'",
                         "data/IMG-HH-ALOS2012345678-200101-WBDR1.1__D-B1: 'image'",
                         "data/existing: 'image'",
                         "data/existing.index: 'old'",
                         'data/subdir/']},
 'main/short-help': {'result': 'exits 0',
                     'stdout': 'usage: prog [-h] [--rpc [RPC]] image_path [cache_root]\n'
                               '\n'
                               'positional arguments:\n'
                               '  image_path   image path to create a cache file for\n'
                               '  cache_root   Root path to the new cache file. By default, it is created in\n'
                               '               the same directory as the image file.\n'
                               '\n'
                               'options:\n'
                               '  -h, --help   show this help message and exit\n'
                               '  --rpc [RPC]  records-per-chunk size used to create the cache files\n',
                     'stderr': '',
                     'events': [],
                     'files': ["a-file: 'not a directory'",
                               'cache/',
                               'cache/nested/',
                               'data/',
                               "data/IMG with space %41 é: 'image'",
                               "data/IMG-HH-ALOS2012345678-200101-WBDR1.1__D-B1: 'image'",
                               "data/existing: 'image'",
                               "data/existing.index: 'old'",
                               'data/subdir/']},
 'main/image-only': {'result': 'returns None',
                     'stdout': '',
                     'stderr': '',
                     'events': ["get_mapper(['file://<TMP>/data'], {})",
                                "open_image(mapper=FSMap(root='<TMP>/data', protocol=('file', 'local')), "
                                "args=['IMG-HH-ALOS2012345678-200101-WBDR1.1__D-B1'] (['str']), kwargs={'use_cache': "
                                "False, 'create_cache': False, 'records_per_chunk': 4096})",
                                "encode(Group('IMG-HH-ALOS2012345678-200101-WBDR1.1__D-B1'))"],
                     'files': ["a-file: 'not a directory'",
                               'cache/',
                               'cache/nested/',
                               'data/',
                               "data/IMG with space %41 é: 'image'",
                               "data/IMG-HH-ALOS2012345678-200101-WBDR1.1__D-B1: 'image'",
                               'data/IMG-HH-ALOS2012345678-200101-WBDR1.1__D-B1.index: '
                               '"encoded<Group(\'IMG-HH-ALOS2012345678-200101-WBDR1.1__D-B1\')>"',
                               "data/existing: 'image'",
                               "data/existing.index: 'old'",
                               'data/subdir/']},
 'main/image-and-root': {'result': 'returns None',
                         'stdout': '',
                         'stderr': '',
                         'events': ["get_mapper(['file://<TMP>/data'], {})",
                                    "open_image(mapper=FSMap(root='<TMP>/data', protocol=('file', 'local')), "
                                    "args=['IMG-HH-ALOS2012345678-200101-WBDR1.1__D-B1'] (['str']), "
                                    "kwargs={'use_cache': False, 'create_cache': False, 'records_per_chunk': 4096})",
                                    "encode(Group('IMG-HH-ALOS2012345678-200101-WBDR1.1__D-B1'))"],
                         'files': ["a-file: 'not a directory'",
                                   'cache/',
                                   'cache/IMG-HH-ALOS2012345678-200101-WBDR1.1__D-B1.index: '
                                   '"encoded<Group(\'IMG-HH-ALOS2012345678-200101-WBDR1.1__D-B1\')>"',
                                   'cache/nested/',
                                   'data/',
                                   "data/IMG with space %41 é: 'image'",
                                   "data/IMG-HH-ALOS2012345678-200101-WBDR1.1__D-B1: 'image'",
                                   "data/existing: 'image'",
                                   "data/existing.index: 'old'",
                                   'data/subdir/']},
 'main/rpc-before': {'result': 'returns None',
                     'stdout': '',
                     'stderr': '',
                     'events': ["get_mapper(['file://<TMP>/data'], {})",
                                "open_image(mapper=FSMap(root='<TMP>/data', protocol=('file', 'local')), "
                                "args=['IMG-HH-ALOS2012345678-200101-WBDR1.1__D-B1'] (['str']), kwargs={'use_cache': "
                                "False, 'create_cache': False, 'records_per_chunk': 16})",
                                "encode(Group('IMG-HH-ALOS2012345678-200101-WBDR1.1__D-B1'))"],
                     'files': ["a-file: 'not a directory'",
                               'cache/',
                               'cache/nested/',
                               'data/',
                               "data/IMG with space %41 é: 'image'",
                               "data/IMG-HH-ALOS2012345678-200101-WBDR1.1__D-B1: 'image'",
                               'data/IMG-HH-ALOS2012345678-200101-WBDR1.1__D-B1.index: '
                               '"encoded<Group(\'IMG-HH-ALOS2012345678-200101-WBDR1.1__D-B1\')>"',
                               "data/existing: 'image'",
                               "data/existing.index: 'old'",
                               'data/subdir/']},
 'main/rpc-after': {'result': 'returns None',
                    'stdout': '',
                    'stderr': '',
                    'events': ["get_mapper(['file://<TMP>/data'], {})",
                               "open_image(mapper=FSMap(root='<TMP>/data', protocol=('file', 'local')), "
                               "args=['IMG-HH-ALOS2012345678-200101-WBDR1.1__D-B1'] (['str']), kwargs={'use_cache': "
                               "False, 'create_cache': False, 'records_per_chunk': 16})",
                               "encode(Group('IMG-HH-ALOS2012345678-200101-WBDR1.1__D-B1'))"],
                    'files': ["a-file: 'not a directory'",
                              'cache/',
                              'cache/nested/',
                              'data/',
                              "data/IMG with space %41 é: 'image'",
                              "data/IMG-HH-ALOS2012345678-200101-WBDR1.1__D-B1: 'image'",
                              'data/IMG-HH-ALOS2012345678-200101-WBDR1.1__D-B1.index: '
                              '"encoded<Group(\'IMG-HH-ALOS2012345678-200101-WBDR1.1__D-B1\')>"',
                              "data/existing: 'image'",
                              "data/existing.index: 'old'",
                              'data/subdir/']},
 'main/rpc-equals': {'result': 'returns None',
                     'stdout': '',
                     'stderr': '',
                     'events': ["get_mapper(['file://<TMP>/data'], {})",
                                "open_image(mapper=FSMap(root='<TMP>/data', protocol=('file', 'local')), "
                                "args=['IMG-HH-ALOS2012345678-200101-WBDR1.1__D-B1'] (['str']), kwargs={'use_cache': "
                                "False, 'create_cache': False, 'records_per_chunk': 32})",
                                "encode(Group('IMG-HH-ALOS2012345678-200101-WBDR1.1__D-B1'))"],
                     'files': ["a-file: 'not a directory'",
                               'cache/',
                               'cache/IMG-HH-ALOS2012345678-200101-WBDR1.1__D-B1.index: '
                               '"encoded<Group(\'IMG-HH-ALOS2012345678-200101-WBDR1.1__D-B1\')>"',
                               'cache/nested/',
                               'data/',
                               "data/IMG with space %41 é: 'image'",
                               "data/IMG-HH-ALOS2012345678-200101-WBDR1.1__D-B1: 'image'",
                               "data/existing: 'image'",
                               "data/existing.index: 'old'",
                               'data/subdir/']},
 'main/rpc-without-value': {'result': 'returns None',
                            'stdout': '',
                            'stderr': '',
                            'events': ["get_mapper(['file://<TMP>/data'], {})",
                                       "open_image(mapper=FSMap(root='<TMP>/data', protocol=('file', 'local')), "
                                       "args=['IMG-HH-ALOS2012345678-200101-WBDR1.1__D-B1'] (['str']), "
                                       "kwargs={'use_cache': False, 'create_cache': False, 'records_per_chunk': None})",
                                       "encode(Group('IMG-HH-ALOS2012345678-200101-WBDR1.1__D-B1'))"],
                            'files': ["a-file: 'not a directory'",
                                      'cache/',
                                      'cache/nested/',
                                      'data/',
                                      "data/IMG with space %41 é: 'image'",
                                      "data/IMG-HH-ALOS2012345678-200101-WBDR1.1__D-B1: 'image'",
                                      'data/IMG-HH-ALOS2012345678-200101-WBDR1.1__D-B1.index: '
                                      '"encoded<Group(\'IMG-HH-ALOS2012345678-200101-WBDR1.1__D-B1\')>"',
                                      "data/existing: 'image'",
                                      "data/existing.index: 'old'",
                                      'data/subdir/']},
 'main/rpc-without-value-before': {'result': 'returns None',
                                   'stdout': '',
                                   'stderr': '',
                                   'events': ["get_mapper(['file://<TMP>/data'], {})",
                                              "open_image(mapper=FSMap(root='<TMP>/data', protocol=('file', 'local')), "
                                              "args=['IMG-HH-ALOS2012345678-200101-WBDR1.1__D-B1'] (['str']), "
                                              "kwargs={'use_cache': False, 'create_cache': False, 'records_per_chunk': "
                                              'None})',
                                              "encode(Group('IMG-HH-ALOS2012345678-200101-WBDR1.1__D-B1'))"],
                                   'files': ["a-file: 'not a directory'",
                                             'cache/',
                                             'cache/nested/',
                                             'data/',
                                             "data/IMG with space %41 é: 'image'",
                                             "data/IMG-HH-ALOS2012345678-200101-WBDR1.1__D-B1: 'image'",
                                             'data/IMG-HH-ALOS2012345678-200101-WBDR1.1__D-B1.index: '
                                             '"encoded<Group(\'IMG-HH-ALOS2012345678-200101-WBDR1.1__D-B1\')>"',
                                             "data/existing: 'image'",
                                             "data/existing.index: 'old'",
                                             'data/subdir/']},
 'main/rpc-abbreviated': {'result': 'returns None',
                          'stdout': '',
                          'stderr': '',
                          'events': ["get_mapper(['file://<TMP>/data'], {})",
                                     "open_image(mapper=FSMap(root='<TMP>/data', protocol=('file', 'local')), "
                                     "args=['IMG-HH-ALOS2012345678-200101-WBDR1.1__D-B1'] (['str']), "
                                     "kwargs={'use_cache': False, 'create_cache': False, 'records_per_chunk': 8})",
                                     "encode(Group('IMG-HH-ALOS2012345678-200101-WBDR1.1__D-B1'))"],
                          'files': ["a-file: 'not a directory'",
                                    'cache/',
                                    'cache/nested/',
                                    'data/',
                                    "data/IMG with space %41 é: 'image'",
                                    "data/IMG-HH-ALOS2012345678-200101-WBDR1.1__D-B1: 'image'",
                                    'data/IMG-HH-ALOS2012345678-200101-WBDR1.1__D-B1.index: '
                                    '"encoded<Group(\'IMG-HH-ALOS2012345678-200101-WBDR1.1__D-B1\')>"',
                                    "data/existing: 'image'",
                                    "data/existing.index: 'old'",
                                    'data/subdir/']},
 'main/rpc-not-an-int': {'result': 'exits 2',
                         'stdout': '',
                         'stderr': 'usage: prog [-h] [--rpc [RPC]] image_path [cache_root]\n'
                                   "prog: error: argument --rpc: invalid int value: 'many'\n",
                         'events': [],
                         'files': ["a-file: 'not a directory'",
                                   'cache/',
                                   'cache/nested/',
                                   'data/',
                                   "data/IMG with space %41 é: 'image'",
                                   "data/IMG-HH-ALOS2012345678-200101-WBDR1.1__D-B1: 'image'",
                                   "data/existing: 'image'",
                                   "data/existing.index: 'old'",
                                   'data/subdir/']},
 'main/rpc-negative': {'result': 'returns None',
                       'stdout': '',
                       'stderr': '',
                       'events': ["get_mapper(['file://<TMP>/data'], {})",
                                  "open_image(mapper=FSMap(root='<TMP>/data', protocol=('file', 'local')), "
                                  "args=['IMG-HH-ALOS2012345678-200101-WBDR1.1__D-B1'] (['str']), kwargs={'use_cache': "
                                  "False, 'create_cache': False, 'records_per_chunk': -5})",
                                  "encode(Group('IMG-HH-ALOS2012345678-200101-WBDR1.1__D-B1'))"],
                       'files': ["a-file: 'not a directory'",
                                 'cache/',
                                 'cache/nested/',
                                 'data/',
                                 "data/IMG with space %41 é: 'image'",
                                 "data/IMG-HH-ALOS2012345678-200101-WBDR1.1__D-B1: 'image'",
                                 'data/IMG-HH-ALOS2012345678-200101-WBDR1.1__D-B1.index: '
                                 '"encoded<Group(\'IMG-HH-ALOS2012345678-200101-WBDR1.1__D-B1\')>"',
                                 "data/existing: 'image'",
                                 "data/existing.index: 'old'",
                                 'data/subdir/']},
 'main/rpc-zero': {'result': 'returns None',
                   'stdout': '',
                   'stderr': '',
                   'events': ["get_mapper(['file://<TMP>/data'], {})",
                              "open_image(mapper=FSMap(root='<TMP>/data', protocol=('file', 'local')), "
                              "args=['IMG-HH-ALOS2012345678-200101-WBDR1.1__D-B1'] (['str']), kwargs={'use_cache': "
                              "False, 'create_cache': False, 'records_per_chunk': 0})",
                              "encode(Group('IMG-HH-ALOS2012345678-200101-WBDR1.1__D-B1'))"],
                   'files': ["a-file: 'not a directory'",
                             'cache/',
                             'cache/nested/',
                             'data/',
                             "data/IMG with space %41 é: 'image'",
                             "data/IMG-HH-ALOS2012345678-200101-WBDR1.1__D-B1: 'image'",
                             'data/IMG-HH-ALOS2012345678-200101-WBDR1.1__D-B1.index: '
                             '"encoded<Group(\'IMG-HH-ALOS2012345678-200101-WBDR1.1__D-B1\')>"',
                             "data/existing: 'image'",
                             "data/existing.index: 'old'",
                             'data/subdir/']},
 'main/rpc-swallows-image': {'result': 'exits 2',
                             'stdout': '',
                             'stderr': 'usage: prog [-h] [--rpc [RPC]] image_path [cache_root]\n'
                                       'prog: error: argument --rpc: invalid int value: '
                                       "'<TMP>/data/IMG-HH-ALOS2012345678-200101-WBDR1.1__D-B1'\n",
                             'events': [],
                             'files': ["a-file: 'not a directory'",
                                       'cache/',
                                       'cache/nested/',
                                       'data/',
                                       "data/IMG with space %41 é: 'image'",
                                       "data/IMG-HH-ALOS2012345678-200101-WBDR1.1__D-B1: 'image'",
                                       "data/existing: 'image'",
                                       "data/existing.index: 'old'",
                                       'data/subdir/']},
 'main/too-many': {'result': 'exits 2',
                   'stdout': '',
                   'stderr': 'usage: prog [-h] [--rpc [RPC]] image_path [cache_root]\n'
                             'prog: error: unrecognized arguments: extra\n',
                   'events': [],
                   'files': ["a-file: 'not a directory'",
                             'cache/',
                             'cache/nested/',
                             'data/',
                             "data/IMG with space %41 é: 'image'",
                             "data/IMG-HH-ALOS2012345678-200101-WBDR1.1__D-B1: 'image'",
                             "data/existing: 'image'",
                             "data/existing.index: 'old'",
                             'data/subdir/']},
 'main/unknown-option': {'result': 'exits 2',
                         'stdout': '',
                         'stderr': 'usage: prog [-h] [--rpc [RPC]] image_path [cache_root]\n'
                                   'prog: error: unrecognized arguments: --records\n',
                         'events': [],
                         'files': ["a-file: 'not a directory'",
                                   'cache/',
                                   'cache/nested/',
                                   'data/',
                                   "data/IMG with space %41 é: 'image'",
                                   "data/IMG-HH-ALOS2012345678-200101-WBDR1.1__D-B1: 'image'",
                                   "data/existing: 'image'",
                                   "data/existing.index: 'old'",
                                   'data/subdir/']},
 'main/image-missing': {'result': 'exits 1',
                        'stdout': '',
                        'stderr': 'Cannot find image file at given path: <TMP>/data/nope\n',
                        'events': [],
                        'files': ["a-file: 'not a directory'",
                                  'cache/',
                                  'cache/nested/',
                                  'data/',
                                  "data/IMG with space %41 é: 'image'",
                                  "data/IMG-HH-ALOS2012345678-200101-WBDR1.1__D-B1: 'image'",
                                  "data/existing: 'image'",
                                  "data/existing.index: 'old'",
                                  'data/subdir/']},
 'main/image-missing-root-missing': {'result': 'exits 1',
                                     'stdout': '',
                                     'stderr': 'Cannot find image file at given path: <TMP>/data/nope\n',
                                     'events': [],
                                     'files': ["a-file: 'not a directory'",
                                               'cache/',
                                               'cache/nested/',
                                               'data/',
                                               "data/IMG with space %41 é: 'image'",
                                               "data/IMG-HH-ALOS2012345678-200101-WBDR1.1__D-B1: 'image'",
                                               "data/existing: 'image'",
                                               "data/existing.index: 'old'",
                                               'data/subdir/']},
 'main/image-is-dir': {'result': 'exits 1',
                       'stdout': '',
                       'stderr': 'Cannot find image file at given path: <TMP>/data/subdir\n',
                       'events': [],
                       'files': ["a-file: 'not a directory'",
                                 'cache/',
                                 'cache/nested/',
                                 'data/',
                                 "data/IMG with space %41 é: 'image'",
                                 "data/IMG-HH-ALOS2012345678-200101-WBDR1.1__D-B1: 'image'",
                                 "data/existing: 'image'",
                                 "data/existing.index: 'old'",
                                 'data/subdir/']},
 'main/root-missing': {'result': 'exits 1',
                       'stdout': '',
                       'stderr': 'Cannot find the target cache root: <TMP>/nope\n',
                       'events': [],
                       'files': ["a-file: 'not a directory'",
                                 'cache/',
                                 'cache/nested/',
                                 'data/',
                                 "data/IMG with space %41 é: 'image'",
                                 "data/IMG-HH-ALOS2012345678-200101-WBDR1.1__D-B1: 'image'",
                                 "data/existing: 'image'",
                                 "data/existing.index: 'old'",
                                 'data/subdir/']},
 'main/root-is-file': {'result': 'exits 1',
                       'stdout': '',
                       'stderr': 'Cannot find the target cache root: <TMP>/a-file\n',
                       'events': [],
                       'files': ["a-file: 'not a directory'",
                                 'cache/',
                                 'cache/nested/',
                                 'data/',
                                 "data/IMG with space %41 é: 'image'",
                                 "data/IMG-HH-ALOS2012345678-200101-WBDR1.1__D-B1: 'image'",
                                 "data/existing: 'image'",
                                 "data/existing.index: 'old'",
                                 'data/subdir/']},
 'main/root-relative': {'result': 'returns None',
                        'stdout': '',
                        'stderr': '',
                        'events': ["get_mapper(['file://<TMP>/data'], {})",
                                   "open_image(mapper=FSMap(root='<TMP>/data', protocol=('file', 'local')), "
                                   "args=['IMG-HH-ALOS2012345678-200101-WBDR1.1__D-B1'] (['str']), "
                                   "kwargs={'use_cache': False, 'create_cache': False, 'records_per_chunk': 4096})",
                                   "encode(Group('IMG-HH-ALOS2012345678-200101-WBDR1.1__D-B1'))"],
                        'files': ["a-file: 'not a directory'",
                                  'cache/',
                                  'cache/IMG-HH-ALOS2012345678-200101-WBDR1.1__D-B1.index: '
                                  '"encoded<Group(\'IMG-HH-ALOS2012345678-200101-WBDR1.1__D-B1\')>"',
                                  'cache/nested/',
                                  'data/',
                                  "data/IMG with space %41 é: 'image'",
                                  "data/IMG-HH-ALOS2012345678-200101-WBDR1.1__D-B1: 'image'",
                                  "data/existing: 'image'",
                                  "data/existing.index: 'old'",
                                  'data/subdir/']},
 'main/image-relative': {'result': 'raises ValueError("relative path can\'t be expressed as a file URI")',
                         'stdout': '',
                         'stderr': '',
                         'events': [],
                         'files': ["a-file: 'not a directory'",
                                   'cache/',
                                   'cache/nested/',
                                   'data/',
                                   "data/IMG with space %41 é: 'image'",
                                   "data/IMG-HH-ALOS2012345678-200101-WBDR1.1__D-B1: 'image'",
                                   "data/existing: 'image'",
                                   "data/existing.index: 'old'",
                                   'data/subdir/']},
 'main/image-relative-root': {'result': 'raises ValueError("relative path can\'t be expressed as a file URI")',
                              'stdout': '',
                              'stderr': '',
                              'events': [],
                              'files': ["a-file: 'not a directory'",
                                        'cache/',
                                        'cache/nested/',
                                        'data/',
                                        "data/IMG with space %41 é: 'image'",
                                        "data/IMG-HH-ALOS2012345678-200101-WBDR1.1__D-B1: 'image'",
                                        "data/existing: 'image'",
                                        "data/existing.index: 'old'",
                                        'data/subdir/']},
 'main/image-special-characters': {'result': 'returns None',
                                   'stdout': '',
                                   'stderr': '',
                                   'events': ["get_mapper(['file://<TMP>/data'], {})",
                                              "open_image(mapper=FSMap(root='<TMP>/data', protocol=('file', 'local')), "
                                              "args=['IMG with space %41 é'] (['str']), kwargs={'use_cache': False, "
                                              "'create_cache': False, 'records_per_chunk': 4096})",
                                              "encode(Group('IMG with space %41 é'))"],
                                   'files': ["a-file: 'not a directory'",
                                             'cache/',
                                             'cache/nested/',
                                             'data/',
                                             "data/IMG with space %41 é: 'image'",
                                             'data/IMG with space %41 é.index: "encoded<Group(\'IMG with space %41 '
                                             'é\')>"',
                                             "data/IMG-HH-ALOS2012345678-200101-WBDR1.1__D-B1: 'image'",
                                             "data/existing: 'image'",
                                             "data/existing.index: 'old'",
                                             'data/subdir/']},
 'main/overwrite-existing': {'result': 'returns None',
                             'stdout': '',
                             'stderr': '',
                             'events': ["get_mapper(['file://<TMP>/data'], {})",
                                        "open_image(mapper=FSMap(root='<TMP>/data', protocol=('file', 'local')), "
                                        "args=['existing'] (['str']), kwargs={'use_cache': False, 'create_cache': "
                                        "False, 'records_per_chunk': 4096})",
                                        "encode(Group('existing'))"],
                             'files': ["a-file: 'not a directory'",
                                       'cache/',
                                       'cache/nested/',
                                       'data/',
                                       "data/IMG with space %41 é: 'image'",
                                       "data/IMG-HH-ALOS2012345678-200101-WBDR1.1__D-B1: 'image'",
                                       "data/existing: 'image'",
                                       'data/existing.index: "encoded<Group(\'existing\')>"',
                                       'data/subdir/']},
 'main/empty-image': {'result': 'exits 1',
                      'stdout': '',
                      'stderr': 'Cannot find image file at given path: .\n',
                      'events': [],
                      'files': ["a-file: 'not a directory'",
                                'cache/',
                                'cache/nested/',
                                'data/',
                                "data/IMG with space %41 é: 'image'",
                                "data/IMG-HH-ALOS2012345678-200101-WBDR1.1__D-B1: 'image'",
                                "data/existing: 'image'",
                                "data/existing.index: 'old'",
                                'data/subdir/']},
 'main/empty-root': {'result': 'returns None',
                     'stdout': '',
                     'stderr': '',
                     'events': ["get_mapper(['file://<TMP>/data'], {})",
                                "open_image(mapper=FSMap(root='<TMP>/data', protocol=('file', 'local')), "
                                "args=['IMG-HH-ALOS2012345678-200101-WBDR1.1__D-B1'] (['str']), kwargs={'use_cache': "
                                "False, 'create_cache': False, 'records_per_chunk': 4096})",
                                "encode(Group('IMG-HH-ALOS2012345678-200101-WBDR1.1__D-B1'))"],
                     'files': ['IMG-HH-ALOS2012345678-200101-WBDR1.1__D-B1.index: '
                               '"encoded<Group(\'IMG-HH-ALOS2012345678-200101-WBDR1.1__D-B1\')>"',
                               "a-file: 'not a directory'",
                               'cache/',
                               'cache/nested/',
                               'data/',
                               "data/IMG with space %41 é: 'image'",
                               "data/IMG-HH-ALOS2012345678-200101-WBDR1.1__D-B1: 'image'",
                               "data/existing: 'image'",
                               "data/existing.index: 'old'",
                               'data/subdir/']},
 'main/open-oserror': {'result': 'exits 1',
                       'stdout': '',
                       'stderr': 'cannot open\n',
                       'events': ["get_mapper(['file://<TMP>/data'], {})",
                                  "open_image(mapper=FSMap(root='<TMP>/data', protocol=('file', 'local')), "
                                  "args=['IMG-HH-ALOS2012345678-200101-WBDR1.1__D-B1'] (['str']), kwargs={'use_cache': "
                                  "False, 'create_cache': False, 'records_per_chunk': 4096})"],
                       'files': ["a-file: 'not a directory'",
                                 'cache/',
                                 'cache/nested/',
                                 'data/',
                                 "data/IMG with space %41 é: 'image'",
                                 "data/IMG-HH-ALOS2012345678-200101-WBDR1.1__D-B1: 'image'",
                                 "data/existing: 'image'",
                                 "data/existing.index: 'old'",
                                 'data/subdir/']},
 'main/open-permission': {'result': 'exits 1',
                          'stdout': '',
                          'stderr': '13\n',
                          'events': ["get_mapper(['file://<TMP>/data'], {})",
                                     "open_image(mapper=FSMap(root='<TMP>/data', protocol=('file', 'local')), "
                                     "args=['IMG-HH-ALOS2012345678-200101-WBDR1.1__D-B1'] (['str']), "
                                     "kwargs={'use_cache': False, 'create_cache': False, 'records_per_chunk': 4096})"],
                          'files': ["a-file: 'not a directory'",
                                    'cache/',
                                    'cache/nested/',
                                    'data/',
                                    "data/IMG with space %41 é: 'image'",
                                    "data/IMG-HH-ALOS2012345678-200101-WBDR1.1__D-B1: 'image'",
                                    "data/existing: 'image'",
                                    "data/existing.index: 'old'",
                                    'data/subdir/']},
 'main/open-valueerror': {'result': "raises ValueError('bad file')",
                          'stdout': '',
                          'stderr': '',
                          'events': ["get_mapper(['file://<TMP>/data'], {})",
                                     "open_image(mapper=FSMap(root='<TMP>/data', protocol=('file', 'local')), "
                                     "args=['IMG-HH-ALOS2012345678-200101-WBDR1.1__D-B1'] (['str']), "
                                     "kwargs={'use_cache': False, 'create_cache': False, 'records_per_chunk': 4096})"],
                          'files': ["a-file: 'not a directory'",
                                    'cache/',
                                    'cache/nested/',
                                    'data/',
                                    "data/IMG with space %41 é: 'image'",
                                    "data/IMG-HH-ALOS2012345678-200101-WBDR1.1__D-B1: 'image'",
                                    "data/existing: 'image'",
                                    "data/existing.index: 'old'",
                                    'data/subdir/']},
 'main/encode-typeerror': {'result': "raises TypeError('cannot encode')",
                           'stdout': '',
                           'stderr': '',
                           'events': ["get_mapper(['file://<TMP>/data'], {})",
                                      "open_image(mapper=FSMap(root='<TMP>/data', protocol=('file', 'local')), "
                                      "args=['IMG-HH-ALOS2012345678-200101-WBDR1.1__D-B1'] (['str']), "
                                      "kwargs={'use_cache': False, 'create_cache': False, 'records_per_chunk': 4096})",
                                      "encode(Group('IMG-HH-ALOS2012345678-200101-WBDR1.1__D-B1'))"],
                           'files': ["a-file: 'not a directory'",
                                     'cache/',
                                     'cache/nested/',
                                     'data/',
                                     "data/IMG with space %41 é: 'image'",
                                     "data/IMG-HH-ALOS2012345678-200101-WBDR1.1__D-B1: 'image'",
                                     "data/existing: 'image'",
                                     "data/existing.index: 'old'",
                                     'data/subdir/']},
 'main/encode-oserror-no-args': {'result': "raises IndexError('tuple index out of range')",
                                 'stdout': '',
                                 'stderr': '',
                                 'events': ["get_mapper(['file://<TMP>/data'], {})",
                                            "open_image(mapper=FSMap(root='<TMP>/data', protocol=('file', 'local')), "
                                            "args=['IMG-HH-ALOS2012345678-200101-WBDR1.1__D-B1'] (['str']), "
                                            "kwargs={'use_cache': False, 'create_cache': False, 'records_per_chunk': "
                                            '4096})',
                                            "encode(Group('IMG-HH-ALOS2012345678-200101-WBDR1.1__D-B1'))"],
                                 'files': ["a-file: 'not a directory'",
                                           'cache/',
                                           'cache/nested/',
                                           'data/',
                                           "data/IMG with space %41 é: 'image'",
                                           "data/IMG-HH-ALOS2012345678-200101-WBDR1.1__D-B1: 'image'",
                                           "data/existing: 'image'",
                                           "data/existing.index: 'old'",
                                           'data/subdir/']},
 'entrypoint': 'True',
 'names': "['create_cache', 'main']"}  # @@EXPECTED@@


def test_equivalence():
    results = collect()
    assert list(results) == list(EXPECTED)
    mismatches = {k: (v, EXPECTED[k]) for k, v in results.items() if v != EXPECTED[k]}
    assert not mismatches, pprint.pformat(mismatches, width=150)


if __name__ == "__main__":
    if "--record" in sys.argv:
        pprint.pprint(collect(), sort_dicts=False, width=120)
    else:
        test_equivalence()
        print(f"ok: {len(EXPECTED)} recorded results reproduced")
