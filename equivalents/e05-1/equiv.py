"""Equivalence check for refactoring 1 (ceos_alos2/decoders.py).

Run as

    cd <worktree> && PYTHONPATH=<worktree> /venv/bin/python _eq/1/equiv.py

The expected values below were recorded with the UNCHANGED code (clean HEAD); the
script has to pass both with and without ``patch.diff`` applied.
"""

import itertools
import re

from ceos_alos2 import decoders


def describe(exc):
    cause = exc.__cause__
    return (
        type(exc).__name__,
        str(exc),
        None if cause is None else (type(cause).__name__, str(cause)),
    )


def outcome(func, *args):
    try:
        return repr(("ok", func(*args)))
    except Exception as e:
        return repr(("raise", describe(e)))


CASES = [
    # scene ids
    ("decode_scene_id", "ALOS2225333200-180726"),
    ("decode_scene_id", "ALOS2014555550-140829"),
    ("decode_scene_id", "ALOS2225333200-180726\n"),  # fullmatch: trailing newline
    ("decode_scene_id", "ALOS2225333200-180726X"),  # trailing garbage
    ("decode_scene_id", "XALOS2225333200-180726"),  # leading garbage
    ("decode_scene_id", "ALOS2225333200_180726"),  # wrong separator
    ("decode_scene_id", "alos2225333200-180726"),  # lower case
    ("decode_scene_id", "ALOS2 225333200-180726"),  # verbose mode must not allow blanks
    ("decode_scene_id", "ALOS2225333200-181345"),  # matches, but not a date
    ("decode_scene_id", "ALOS2225333200-000000"),
    ("decode_scene_id", ""),
    ("decode_scene_id", None),
    ("decode_scene_id", b"ALOS2225333200-180726"),
    # product ids
    ("decode_product_id", "WWDR1.1__D"),
    ("decode_product_id", "FBDL1.0__A"),
    ("decode_product_id", "HBQR1.5RUA"),
    ("decode_product_id", "SBSR3.1GPD"),
    ("decode_product_id", "UBSL1.5GMA"),
    ("decode_product_id", "VBDR1.5GLD"),
    ("decode_product_id", "WWDR1.2__D"),  # unknown level
    ("decode_product_id", "WWDR3.0__D"),
    ("decode_product_id", "WWDR3.5__D"),
    ("decode_product_id", "WWDR1x1__D"),  # the dot is literal
    ("decode_product_id", "WWDR 1.1__D"),
    ("decode_product_id", "ABCR1.1__D"),  # matches, unknown observation mode
    ("decode_product_id", "WWDX1.1__D"),
    ("decode_product_id", "WWDR1.1__D "),
    ("decode_product_id", "WWDR1.1__DA"),
    ("decode_product_id", ""),
    ("decode_product_id", None),
    # scan infos
    ("decode_scan_info", None),
    ("decode_scan_info", "B4"),
    ("decode_scan_info", "F1"),
    ("decode_scan_info", "F0"),
    ("decode_scan_info", "A1"),
    ("decode_scan_info", "F"),
    ("decode_scan_info", "F12"),
    ("decode_scan_info", "F 1"),
    ("decode_scan_info", ""),
    ("decode_scan_info", 4),
    # file names
    ("decode_filename", "IMG-HH-ALOS2225333200-180726-WWDR1.1__D-B4"),
    ("decode_filename", "IMG-VV-ALOS2014555550-140829-FBDR1.5GUA"),
    ("decode_filename", "LED-ALOS2225333200-180726-WWDR1.1__D"),
    ("decode_filename", "VOL-ALOS2225333200-180726-WWDR1.1__D"),
    ("decode_filename", "TRL-ALOS2225333200-180726-WWDR1.1__D-F2"),
    ("decode_filename", "IMG-HX-ALOS2225333200-180726-WWDR1.1__D"),  # bad polarization
    ("decode_filename", "IMG-HH-ALOS2225333200-180726-WWDR1.2__D"),  # bad product id
    ("decode_filename", "IMG-HH-ALOS2225333200-181345-WWDR1.1__D"),  # bad date
    ("decode_filename", "IMG-HH-ALOS2225333200-180726-ABCR1.1__D"),  # unknown mode
    ("decode_filename", "IMG-HH-ALOS2225333200-180726-WWDR1.1__D-X4"),
    ("decode_filename", "IMG-HH-ALOS2225333200-180726-WWDR1.1__D-B4\n"),
    ("decode_filename", "IMG - HH-ALOS2225333200-180726-WWDR1.1__D-B4"),
    ("decode_filename", "IMG--ALOS2225333200-180726-WWDR1.1__D"),
    ("decode_filename", "summary.txt"),
    ("decode_filename", ""),
    ("decode_filename", None),
]

# BEGIN EXPECTED (recorded on clean HEAD)
EXPECTED = [
    "('ok', {'mission_name': 'ALOS2', 'orbit_accumulation': '22533', 'scene_frame': '3200', 'date': datetime.datetime(2018, 7, 26, 0, 0)})",
    "('ok', {'mission_name': 'ALOS2', 'orbit_accumulation': '01455', 'scene_frame': '5550', 'date': datetime.datetime(2014, 8, 29, 0, 0)})",
    "('raise', ('ValueError', 'invalid scene id: ALOS2225333200-180726\\n', None))",
    "('raise', ('ValueError', 'invalid scene id: ALOS2225333200-180726X', None))",
    "('raise', ('ValueError', 'invalid scene id: XALOS2225333200-180726', None))",
    "('raise', ('ValueError', 'invalid scene id: ALOS2225333200_180726', None))",
    "('raise', ('ValueError', 'invalid scene id: alos2225333200-180726', None))",
    "('raise', ('ValueError', 'invalid scene id: ALOS2 225333200-180726', None))",
    "('raise', ('ValueError', 'invalid scene id: ALOS2225333200-181345', ('ParserError', 'month must be in 1..12: 181345')))",
    "('raise', ('ValueError', 'invalid scene id: ALOS2225333200-000000', ('ParserError', 'month must be in 1..12: 000000')))",
    "('raise', ('ValueError', 'invalid scene id: ', None))",
    '(\'raise\', (\'TypeError\', "expected string or bytes-like object, got \'NoneType\'", None))',
    "('raise', ('TypeError', 'cannot use a string pattern on a bytes-like object', None))",
    "('ok', {'observation_mode': 'ScanSAR nominal 28MHz mode dual polarization', 'observation_direction': 'right looking', 'processing_level': 'level 1.1', 'processing_option': 'not specified', 'map_projection': 'not specified', 'orbit_direction': 'descending'})",
    "('ok', {'observation_mode': 'fine mode dual polarization', 'observation_direction': 'left looking', 'processing_level': 'level 1.0', 'processing_option': 'not specified', 'map_projection': 'not specified', 'orbit_direction': 'ascending'})",
    "('ok', {'observation_mode': 'high-sensitive mode full (quad.) polarimetry', 'observation_direction': 'right looking', 'processing_level': 'level 1.5', 'processing_option': 'geo-reference', 'map_projection': 'UTM', 'orbit_direction': 'ascending'})",
    "('ok', {'observation_mode': 'spotlight mode', 'observation_direction': 'right looking', 'processing_level': 'level 3.1', 'processing_option': 'geo-code', 'map_projection': 'PS', 'orbit_direction': 'descending'})",
    "('ok', {'observation_mode': 'ultra-fine mode single polarization', 'observation_direction': 'left looking', 'processing_level': 'level 1.5', 'processing_option': 'geo-code', 'map_projection': 'MER', 'orbit_direction': 'ascending'})",
    "('ok', {'observation_mode': 'ScanSAR wide mode dual polarization', 'observation_direction': 'right looking', 'processing_level': 'level 1.5', 'processing_option': 'geo-code', 'map_projection': 'LCC', 'orbit_direction': 'descending'})",
    "('raise', ('ValueError', 'invalid product id: WWDR1.2__D', None))",
    "('raise', ('ValueError', 'invalid product id: WWDR3.0__D', None))",
    "('raise', ('ValueError', 'invalid product id: WWDR3.5__D', None))",
    "('raise', ('ValueError', 'invalid product id: WWDR1x1__D', None))",
    "('raise', ('ValueError', 'invalid product id: WWDR 1.1__D', None))",
    '(\'raise\', (\'ValueError\', \'invalid product id: ABCR1.1__D\', (\'ValueError\', "invalid code \'ABC\'")))',
    "('raise', ('ValueError', 'invalid product id: WWDX1.1__D', None))",
    "('raise', ('ValueError', 'invalid product id: WWDR1.1__D ', None))",
    "('raise', ('ValueError', 'invalid product id: WWDR1.1__DA', None))",
    "('raise', ('ValueError', 'invalid product id: ', None))",
    '(\'raise\', (\'TypeError\', "expected string or bytes-like object, got \'NoneType\'", None))',
    "('ok', {})",
    "('ok', {'processing_method': 'SPECAN method', 'scan_number': '4'})",
    "('ok', {'processing_method': 'full aperture_method', 'scan_number': '1'})",
    "('ok', {'processing_method': 'full aperture_method', 'scan_number': '0'})",
    "('raise', ('ValueError', 'invalid scan info: A1', None))",
    "('raise', ('ValueError', 'invalid scan info: F', None))",
    "('raise', ('ValueError', 'invalid scan info: F12', None))",
    "('raise', ('ValueError', 'invalid scan info: F 1', None))",
    "('raise', ('ValueError', 'invalid scan info: ', None))",
    '(\'raise\', (\'TypeError\', "expected string or bytes-like object, got \'int\'", None))',
    "('ok', {'filetype': 'IMG', 'polarization': 'HH', 'mission_name': 'ALOS2', 'orbit_accumulation': '22533', 'scene_frame': '3200', 'date': datetime.datetime(2018, 7, 26, 0, 0), 'observation_mode': 'ScanSAR nominal 28MHz mode dual polarization', 'observation_direction': 'right looking', 'processing_level': 'level 1.1', 'processing_option': 'not specified', 'map_projection': 'not specified', 'orbit_direction': 'descending', 'processing_method': 'SPECAN method', 'scan_number': '4'})",
    "('ok', {'filetype': 'IMG', 'polarization': 'VV', 'mission_name': 'ALOS2', 'orbit_accumulation': '01455', 'scene_frame': '5550', 'date': datetime.datetime(2014, 8, 29, 0, 0), 'observation_mode': 'fine mode dual polarization', 'observation_direction': 'right looking', 'processing_level': 'level 1.5', 'processing_option': 'geo-code', 'map_projection': 'UTM', 'orbit_direction': 'ascending'})",
    "('ok', {'filetype': 'LED', 'polarization': None, 'mission_name': 'ALOS2', 'orbit_accumulation': '22533', 'scene_frame': '3200', 'date': datetime.datetime(2018, 7, 26, 0, 0), 'observation_mode': 'ScanSAR nominal 28MHz mode dual polarization', 'observation_direction': 'right looking', 'processing_level': 'level 1.1', 'processing_option': 'not specified', 'map_projection': 'not specified', 'orbit_direction': 'descending'})",
    "('ok', {'filetype': 'VOL', 'polarization': None, 'mission_name': 'ALOS2', 'orbit_accumulation': '22533', 'scene_frame': '3200', 'date': datetime.datetime(2018, 7, 26, 0, 0), 'observation_mode': 'ScanSAR nominal 28MHz mode dual polarization', 'observation_direction': 'right looking', 'processing_level': 'level 1.1', 'processing_option': 'not specified', 'map_projection': 'not specified', 'orbit_direction': 'descending'})",
    "('ok', {'filetype': 'TRL', 'polarization': None, 'mission_name': 'ALOS2', 'orbit_accumulation': '22533', 'scene_frame': '3200', 'date': datetime.datetime(2018, 7, 26, 0, 0), 'observation_mode': 'ScanSAR nominal 28MHz mode dual polarization', 'observation_direction': 'right looking', 'processing_level': 'level 1.1', 'processing_option': 'not specified', 'map_projection': 'not specified', 'orbit_direction': 'descending', 'processing_method': 'full aperture_method', 'scan_number': '2'})",
    "('raise', ('ValueError', 'invalid file name: IMG-HX-ALOS2225333200-180726-WWDR1.1__D', None))",
    "('raise', ('ValueError', 'invalid product id: WWDR1.2__D', None))",
    "('raise', ('ValueError', 'invalid scene id: ALOS2225333200-181345', ('ParserError', 'month must be in 1..12: 181345')))",
    '(\'raise\', (\'ValueError\', \'invalid product id: ABCR1.1__D\', (\'ValueError\', "invalid code \'ABC\'")))',
    "('raise', ('ValueError', 'invalid file name: IMG-HH-ALOS2225333200-180726-WWDR1.1__D-X4', None))",
    "('raise', ('ValueError', 'invalid file name: IMG-HH-ALOS2225333200-180726-WWDR1.1__D-B4\\n', None))",
    "('raise', ('ValueError', 'invalid file name: IMG - HH-ALOS2225333200-180726-WWDR1.1__D-B4', None))",
    "('raise', ('ValueError', 'invalid file name: IMG--ALOS2225333200-180726-WWDR1.1__D', None))",
    "('raise', ('ValueError', 'invalid file name: summary.txt', None))",
    "('raise', ('ValueError', 'invalid file name: ', None))",
    '(\'raise\', (\'TypeError\', "expected string or bytes-like object, got \'NoneType\'", None))',
]
# END EXPECTED


def observe():
    return [outcome(getattr(decoders, name), arg) for name, arg in CASES]


def pattern_properties():
    # the group layout of the public pattern objects is part of what other code may use
    patterns = {
        "scene_id_re": decoders.scene_id_re,
        "product_id_re": decoders.product_id_re,
        "scan_info_re": decoders.scan_info_re,
        "fname_re": decoders.fname_re,
    }
    return {
        name: (p.groups, dict(p.groupindex), int(p.flags)) for name, p in patterns.items()
    }


# BEGIN PATTERNS (recorded on clean HEAD)
EXPECTED_PATTERNS = {'scene_id_re': (4,
                 {'mission_name': 1, 'orbit_accumulation': 2, 'scene_frame': 3, 'date': 4},
                 96),
 'product_id_re': (6,
                   {'observation_mode': 1,
                    'observation_direction': 2,
                    'processing_level': 3,
                    'processing_option': 4,
                    'map_projection': 5,
                    'orbit_direction': 6},
                   96),
 'scan_info_re': (2, {'processing_method': 1, 'scan_number': 2}, 96),
 'fname_re': (7,
              {'filetype': 1,
               'polarization': 3,
               'scene_id': 4,
               'product_id': 5,
               'scan_info': 7},
              96)}
# END PATTERNS


RECORDED = {"EXPECTED": ("EXPECTED", observe), "PATTERNS": ("EXPECTED_PATTERNS", pattern_properties)}

if __name__ == "__main__":
    observed = observe()

    assert len(observed) == len(EXPECTED), (len(observed), len(EXPECTED))
    for (name, arg), actual, expected in zip(CASES, observed, EXPECTED):
        assert actual == expected, f"{name}({arg!r}):\n  actual:   {actual}\n  expected: {expected}"
    assert pattern_properties() == EXPECTED_PATTERNS, pattern_properties()

    # fullmatch semantics on every proper prefix / one-character extension of valid codes
    for func, valid in [
        (decoders.decode_scene_id, "ALOS2225333200-180726"),
        (decoders.decode_product_id, "WWDR1.1__D"),
        (decoders.decode_scan_info, "B4"),
        (decoders.decode_filename, "IMG-HH-ALOS2225333200-180726-WWDR1.1__D-B4"),
    ]:
        func(valid)
        candidates = [valid[:n] for n in range(len(valid))]
        candidates += [valid + c for c in " \n-A0"] + [c + valid for c in " \n-A0"]
        for candidate in candidates:
            if func is decoders.decode_filename and candidate == valid[:-3]:
                continue  # the scan info is optional
            try:
                func(candidate)
            except ValueError:
                pass
            else:
                raise AssertionError(f"{func.__name__} accepted {candidate!r}")

    # the patterns of the unchanged code, as a reference for a brute-force comparison
    reference = {
        "scene_id_re": r"""(?x)
            (?P<mission_name>[A-Z0-9]{5})
            (?P<orbit_accumulation>[0-9]{5})
            (?P<scene_frame>[0-9]{4})
            -(?P<date>[0-9]{6})
            """,
        "product_id_re": r"""(?x)
            (?P<observation_mode>[A-Z]{3})
            (?P<observation_direction>[LR])
            (?P<processing_level>1\.0|1\.1|1\.5|3\.1)
            (?P<processing_option>[GR_])
            (?P<map_projection>[UPML_])
            (?P<orbit_direction>[AD])
            """,
        "scan_info_re": r"""(?x)
            (?P<processing_method>[BF])
            (?P<scan_number>[0-9])
            """,
        "fname_re": r"""(?x)
            (?P<filetype>[A-Z]{3})
            (-(?P<polarization>[HV]{2}))?
            -(?P<scene_id>[A-Z0-9]{14}-[0-9]{6})
            -(?P<product_id>[A-Z0-9._]{10})
            (-(?P<scan_info>[BF][0-9]))?
            """,
    }
    samples = {
        "scene_id_re": "ALOS2225333200-180726",
        "product_id_re": "WWDR1.1__D",
        "scan_info_re": "B4",
        "fname_re": "IMG-HH-ALOS2225333200-180726-WWDR1.1__D-B4",
    }
    alphabet = "A0a-_. \n.1359LRGUPMDHVBFX#"
    n_compared = 0
    for name, pattern in reference.items():
        old = re.compile(pattern)
        new = getattr(decoders, name)
        sample = samples[name]
        candidates = {sample, ""}
        for index in range(len(sample) + 1):
            for char in alphabet:
                candidates.add(sample[:index] + char + sample[index:])  # insertion
                candidates.add(sample[:index] + char + sample[index + 1 :])  # substitution
            candidates.add(sample[:index] + sample[index + 1 :])  # deletion
            candidates.add(sample[:index])  # truncation
        if name == "product_id_re":
            # every three-character processing level over a small alphabet
            candidates.update(
                f"WWDR{a}{b}{c}__D" for a, b, c in itertools.product("0135.x", repeat=3)
            )
        for candidate in sorted(candidates):
            m_old, m_new = old.fullmatch(candidate), new.fullmatch(candidate)
            assert (m_old is None) == (m_new is None), (name, candidate)
            if m_old is not None:
                assert m_old.groupdict() == m_new.groupdict(), (name, candidate)
                assert m_old.groups() == m_new.groups(), (name, candidate)
            n_compared += 1

    print(f"ok: {len(observed)} cases, {n_compared} strings matched against the reference patterns")
